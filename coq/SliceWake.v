(* SliceWake.v — the event loop's wake-up protocol (worker.go: eventLoopSignal, capacity 1,
   non-blocking notifyToPullNextJobs; goEventLoop's guard
        IsRunning && curProcessing < concurrency && queues.Len() > 0 ).
   The question: can the event loop be parked on its signal channel while its guard is true and
   nobody is about to wake it? (a lost wake-up: pending jobs below the limit that nothing will
   ever dispatch). One step = one operation on the status word, curProcessing, the concurrency
   limit, the total number of pending jobs, or the signal channel.

   Every step that changes one of the guard's inputs says whether the thread taking it goes on
   to call notifyToPullNextJobs ([n = true]). The model REQUIRES this of every step that turns
   the guard from false to true, unless the step is the event loop's own (it re-evaluates the
   guard before it can park). That requirement is the validated tie: a code path that makes
   work dispatchable without notifying falls outside the model on the first trace that takes it.
   Definitions only; proofs in SliceWakeProofs.v. *)
From Coq Require Import List Arith Bool.
Import ListNotations.

Inductive actor := ALoop | AOther.   (* the current event loop itself, or any other thread *)

Inductive wev :=
| KPend (a : actor) (delta_up : bool) (k : nat) (n : bool)  (* pending := pending + k / - k (enqueue, dequeue, purge) *)
| KForeign (k : nat) (n : bool)                            (* pending += k by a foreign producer / content already in a store being bound *)
| KCur (a : actor) (up : bool) (n : bool)                   (* curProcessing +1 / -1 *)
| KStatus (v : nat) (n : bool)                              (* status := v *)
| KConc (c : nat) (n : bool)                                (* concurrency := c *)
| KNotify                   (* a notify that was owed: non-blocking send on the signal channel *)
| KNotifyExtra              (* a notify nobody owed (Pause, Purge, a redundant one) *)
| KRecv                     (* the parked event loop receives the signal and starts evaluating *)
| KPark                     (* the event loop found its guard false and parks on the channel *)
| KClose                    (* Stop / Restart: the signal channel is closed and dropped (guard is false) *)
| KOpen.                    (* Restart: a fresh channel; start() spawns a fresh event loop, parked *)

Record kstate := mkK {
  kst : nat;        (* worker status: 0 initiated 1 running 2 paused 3 stopped *)
  kcur : nat;
  kconc : nat;
  kpend : nat;
  ksig : bool;      (* a signal is buffered *)
  kopen : bool;     (* the signal channel exists (not nil) *)
  kowed : nat;      (* threads that took an enabling step and have not notified yet *)
  kparked : bool;   (* the event loop is parked on the channel *)
  (* ghost *)
  kstale : bool;    (* the guard went false -> true since the event loop last received a signal *)
  kwasfalse : bool  (* the guard was false at some instant since the event loop last received a
                       signal (or since its own last enabling step) *)
}.

Definition guard (s : kstate) : bool :=
  Nat.eqb (kst s) 1 && Nat.ltb (kcur s) (kconc s) && Nat.ltb 0 (kpend s).

Definition kinit (conc0 : nat) : kstate := mkK 0 0 conc0 0 false true 0 true false true.

(* apply an update of the guard's inputs by actor a, who will (n) or will not notify *)
Definition upd_inputs (s : kstate) (st' cur' conc' pend' : nat) (a : actor) (n : bool) : option kstate :=
  let g0 := guard s in
  let s1 := mkK st' cur' conc' pend' (ksig s) (kopen s) (kowed s) (kparked s) (kstale s) (kwasfalse s) in
  let g1 := guard s1 in
  let enabling := negb g0 && g1 in
  let own := match a with ALoop => true | AOther => false end in
  if enabling && negb n && negb own then None          (* made work dispatchable and walks away silently *)
  else if enabling && negb (kopen s) then None         (* made the worker runnable while it has no signal channel *)
  else if own && kparked s then None                   (* the event loop takes steps only while it is not parked *)
  else
    Some (mkK st' cur' conc' pend' (ksig s) (kopen s)
              (if n then S (kowed s) else kowed s)
              (kparked s)
              (if enabling && negb own then true else kstale s)
              (if own && enabling then false else (kwasfalse s || negb g1))).

Definition kstep (s : kstate) (e : wev) : option kstate :=
  match e with
  | KPend a up k n =>
      (* structure of the code: whoever adds work notifies (Add / AddAll / persistent Add after a
         successful Enqueue; a foreign producer through the adapter's notification) *)
      if up && negb n then None else
      if up then upd_inputs s (kst s) (kcur s) (kconc s) (kpend s + k) a n
      else if Nat.leb k (kpend s) then upd_inputs s (kst s) (kcur s) (kconc s) (kpend s - k) a n else None
  | KForeign k n => upd_inputs s (kst s) (kcur s) (kconc s) (kpend s + k) AOther n
  | KCur a up n =>
      if up then upd_inputs s (kst s) (S (kcur s)) (kconc s) (kpend s) a n
      else match kcur s with
           | S c =>
               (* structure of the code: the completion path (a pool goroutine releasing its slot)
                  always notifies; only the event loop itself returns a reservation silently *)
               match a with
               | AOther => if n then upd_inputs s (kst s) c (kconc s) (kpend s) a n else None
               | ALoop => upd_inputs s (kst s) c (kconc s) (kpend s) a n
               end
           | 0 => None
           end
  | KStatus v n =>
      (* Resume / start store Running and notify *)
      if Nat.eqb v 1 && negb n then None else upd_inputs s v (kcur s) (kconc s) (kpend s) AOther n
  | KConc c n =>
      (* TunePool notifies when it raises the limit *)
      if Nat.ltb (kconc s) c && negb n then None else upd_inputs s (kst s) (kcur s) c (kpend s) AOther n
  | KNotify =>
      match kowed s with
      | S o => Some (mkK (kst s) (kcur s) (kconc s) (kpend s) (ksig s || kopen s) (kopen s) o (kparked s) (kstale s) (kwasfalse s))
      | 0 => None
      end
  | KNotifyExtra =>
      Some (mkK (kst s) (kcur s) (kconc s) (kpend s) (ksig s || kopen s) (kopen s) (kowed s) (kparked s) (kstale s) (kwasfalse s))
  | KRecv =>
      if kparked s && ksig s && kopen s
      then Some (mkK (kst s) (kcur s) (kconc s) (kpend s) false true (kowed s) false false (negb (guard s)))
      else None
  | KPark =>
      (* it parks only after reading some conjunct of the guard false, after its last receive *)
      if negb (kparked s) && kwasfalse s
      then Some (mkK (kst s) (kcur s) (kconc s) (kpend s) (ksig s) (kopen s) (kowed s) true (kstale s) (kwasfalse s))
      else None
  | KClose =>
      (* closeChannels runs with the worker paused / stopping: the guard is false *)
      if negb (guard s)
      then Some (mkK (kst s) (kcur s) (kconc s) (kpend s) false false (kowed s) (kparked s) false true)
      else None
  | KOpen =>
      if negb (kopen s) && negb (guard s)
      then Some (mkK (kst s) (kcur s) (kconc s) (kpend s) false true (kowed s) true false true)
      else None
  end.

Fixpoint krun (s : kstate) (es : list wev) : option kstate :=
  match es with
  | [] => Some s
  | e :: r => match kstep s e with Some s' => krun s' r | None => None end
  end.

Fixpoint krun_idx (s : kstate) (es : list wev) (i : nat) : nat + kstate :=
  match es with
  | [] => inr s
  | e :: r => match kstep s e with Some s' => krun_idx s' r (S i) | None => inl i end
  end.

Definition krun_from (conc0 : nat) (es : list wev) : nat + kstate := krun_idx (kinit conc0) es 0.

(* quiescent: nobody owes a notify and no signal is buffered for a parked loop *)
Definition at_rest (s : kstate) : bool := Nat.eqb (kowed s) 0 && negb (ksig s) && kparked s.
