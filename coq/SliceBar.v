(* SliceBar.v — the worker-level barrier calls (PauseAndWait, Stop, WaitAndStop) seen as calls:
   coq/SliceDisp.v extended with the call and the nil-return of each barrier caller. A caller
   "establishes" when, inside its call, it reads curProcessing = 0 while the status is Paused /
   Stopped (the last evaluation of WaitUntilFinished's condition), or when it reads the status
   Stopped while the hold of an earlier caller is in force (Stop on a stopped worker returns at
   once). The return step is enabled only for a caller that has established: that is the link
   between "the call has returned" in the property and the ghost flag [hold] of the theorems.
     est    callers that have established since their call began
     fresh  those of them for which no Running / Initiated has been stored since
   Threads are numbers; events of the underlying slice are embedded by XD. Definitions only;
   proofs in SliceBarProofs.v. *)
From Coq Require Import List Arith Bool.
From VQ Require Import SliceDisp.
Import ListNotations.

Inductive xev :=
| XD (e : dev)              (* any step of the dispatch slice, by a thread outside a barrier call *)
| XCall (t : nat)           (* PauseAndWait / Stop / WaitAndStop called by thread t *)
| XCurLoad (t v : nat)      (* t, inside its barrier call, loads curProcessing *)
| XStLoad (t v : nat)       (* t, inside its barrier call, loads the status *)
| XRet (t : nat).           (* the call returns nil *)

Record xstate := mkX { xd : dstate; est : list nat; fresh : list nat }.

Definition xinit (st0 : nat) : xstate := mkX (dinit st0) [] [].

Definition xmem (t : nat) (l : list nat) : bool := existsb (Nat.eqb t) l.
Definition xrem (t : nat) (l : list nat) : list nat := filter (fun x => negb (Nat.eqb x t)) l.

Definition resumes (e : dev) : bool :=
  match e with DStatusStore v => negb (halted v) | _ => false end.

Definition xstep (s : xstate) (e : xev) : option xstate :=
  match e with
  | XD e =>
      match dstep (xd s) e with
      | Some d => Some (mkX d (est s) (if resumes e then [] else fresh s))
      | None => None
      end
  | XCall t => Some (mkX (xd s) (xrem t (est s)) (xrem t (fresh s)))
  | XCurLoad t v =>
      match dstep (xd s) (DCurLoad v) with
      | Some d => if Nat.eqb v 0 && halted (wstat (xd s))
                  then Some (mkX d (t :: est s) (t :: fresh s))
                  else Some (mkX d (est s) (fresh s))
      | None => None
      end
  | XStLoad t v =>
      match dstep (xd s) (DStatusLoad v) with
      | Some d => if Nat.eqb v wStopped && hold (xd s)
                  then Some (mkX d (t :: est s) (t :: fresh s))
                  else Some (mkX d (est s) (fresh s))
      | None => None
      end
  | XRet t => if xmem t (est s) then Some s else None
  end.

Fixpoint xrun (s : xstate) (es : list xev) : option xstate :=
  match es with
  | [] => Some s
  | e :: r => match xstep s e with Some s' => xrun s' r | None => None end
  end.

Fixpoint xrun_idx (s : xstate) (es : list xev) (i : nat) : nat + xstate :=
  match es with
  | [] => inr s
  | e :: r => match xstep s e with Some s' => xrun_idx s' r (S i) | None => inl i end
  end.

Definition xrun_from (st0 : nat) (es : list xev) : nat + xstate := xrun_idx (xinit st0) es 0.
