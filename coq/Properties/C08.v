(* C08 — batches deliver one result per executed item, then close once, without panicking.
   Statements only; model coq/SliceBatch.v: one step = one synchronisation operation on the
   batch's counter (helpers.WgCounter), its wait group or its result stream. [BReachable s] =
   some event list (any batch size >= 0, any number of goroutines finishing items, any
   interleaving) leads from the initial state to s. Per item, C01/C10 (SliceJob) give "Done is
   called exactly once per item: by the finisher, the canceller, the purger or the rejecting
   submitter". *)
From Coq Require Import List Arith.
From VQ Require Import SliceBatch SliceBatchProofs.
Import ListNotations.

(* The stream is closed at most once ... *)
Theorem C08_closed_at_most_once : forall s, BReachable s -> bcloses s <= 1.
Proof. exact closed_at_most_once. Qed.
Print Assumptions C08_closed_at_most_once.

(* ... the caller about to close it always finds it open (no "close of closed channel") ... *)
Theorem C08_close_never_on_closed : forall s t, BReachable s -> last s = Some t -> bclosed s = false.
Proof. exact close_never_on_closed. Qed.
Print Assumptions C08_close_never_on_closed.

(* ... an item that has not called Done yet finds it open (no "send on closed channel") ... *)
Theorem C08_send_never_on_closed : forall s, BReachable s -> bdones s < bn s -> bclosed s = false.
Proof. exact send_never_on_closed. Qed.
Print Assumptions C08_send_never_on_closed.

(* ... and the wait group never goes negative. *)
Theorem C08_waitgroup_never_negative : forall s, BReachable s -> owe_wg s >= 1 -> bwg s >= 1.
Proof. exact wg_never_negative. Qed.
Print Assumptions C08_waitgroup_never_negative.

(* NumPending is the number of items that have not finished (called Done) ... *)
Theorem C08_pending_is_outstanding :
  forall s, BReachable s -> bcount s = bn s - bdones s /\ bdones s <= bn s.
Proof. exact count_is_outstanding. Qed.
Print Assumptions C08_pending_is_outstanding.

(* ... and batch Wait is enabled exactly when it is 0 (and every Done has completed). *)
Theorem C08_wait_iff_zero :
  forall s, BReachable s -> created s = true -> (bwg s = 0 <-> (bcount s = 0 /\ owe_wg s = 0)).
Proof. exact wait_iff_all_done. Qed.
Print Assumptions C08_wait_iff_zero.

(* When every item is done and nobody is in the middle of closing, the stream is closed. *)
Theorem C08_closed_at_rest :
  forall s, BReachable s -> created s = true -> bcount s = 0 -> last s = None -> bn s >= 1 -> bclosed s = true.
Proof. exact closed_at_rest. Qed.
Print Assumptions C08_closed_at_rest.

(* Readers get exactly what was sent: received + still buffered = sent. *)
Theorem C08_stream_conservation : forall s, BReachable s -> chlen s + brecvd s = bsends s.
Proof. exact stream_conservation. Qed.
Print Assumptions C08_stream_conservation.

(* The stream has one slot per item, so an item that has not sent its outcome yet never has to
   wait for a reader: the batch completes whether or not anybody reads the stream. *)
Theorem C08_send_never_blocks : forall s, BReachable s -> bsends s < bn s -> chlen s < bcap s.
Proof. exact send_never_blocks. Qed.
Print Assumptions C08_send_never_blocks.

Theorem C08_stream_has_a_slot_per_item :
  forall s n c s', bstep s (BNew n c) = Some s' -> n <= c /\ bcap s' = c /\ bn s' = n.
Proof. exact stream_has_a_slot_per_item. Qed.
Print Assumptions C08_stream_has_a_slot_per_item.

(* non-vacuity: two items finish on different goroutines, the second closes; and the empty batch *)
Example C08_example :
  match brun_t [RB (BNew 2 2); RB (BSend 3); RBDoneLoad 3 2; RB (BSend 4); RBDoneLoad 4 2; RBDoneCas 3 true;
                RBDoneCas 4 false; RBDoneLoad 4 1; RB (BWgDone 3); RBDoneCas 4 true; RB (BWgDone 4);
                RB (BClose 4); RB (BRecv 7 true); RB (BRecv 7 true); RB (BRecv 7 false); RB (BWait 0)] with
  | inr s => bcloses s = 1 /\ brecvd s = 2 /\ bcount s = 0
  | inl _ => False
  end /\
  match brun_t [RB (BNew 0 0); RB BCloseEmpty; RB (BRecv 5 false); RB (BWait 0)] with
  | inr s => bcloses s = 1
  | inl _ => False
  end.
Proof. vm_compute. repeat split. Qed.
