(* C14 — lifecycle calls follow the documented state machine for every call sequence.
   Statements only; model coq/Lifecycle.v: the status logic of worker.go's lifecycle calls, for
   calls issued one after the other with the worker at rest in between ([settle] = what the
   context listener does once the system is at rest). *)
From Coq Require Import List Arith.
From VQ Require Import Lifecycle LifecycleProofs.
Import ListNotations.

(* Each call returns the documented error and leaves the documented status ... *)
Theorem C14_call_refines_documented_machine :
  forall s c, ctxDead s = false -> c <> CCtxCancel ->
    wst (fst (lstep s c)) = spec_status (wst s) c /\ snd (lstep s c) = spec_result s c /\
    ctxDead (fst (lstep s c)) = false.
Proof. exact step_refines. Qed.
Print Assumptions C14_call_refines_documented_machine.

(* ... hence every sequence of Bind / Pause / PauseAndWait / Resume / Stop / WaitAndStop / Restart /
   TunePool calls, of any length, follows the documented machine. *)
Theorem C14_sequences_refine_documented_machine :
  forall cs s, ctxDead s = false -> ~ In CCtxCancel cs ->
    let '(s', rs) := lrun s cs in
    wst s' = fold_left spec_status cs (wst s) /\ ctxDead s' = false /\ length rs = length cs.
Proof. exact run_refines. Qed.
Print Assumptions C14_sequences_refine_documented_machine.

Theorem C14_restart_always_runs :
  forall s, ctxDead s = false -> wst (fst (lstep s CRestart)) = Running.
Proof. exact restart_runs. Qed.
Print Assumptions C14_restart_always_runs.

Theorem C14_bind_never_changes_a_started_worker :
  forall s, wst s <> Initiated -> fst (lstep s CBind) = settle s /\ snd (lstep s CBind) = RNil.
Proof. exact bind_keeps_state. Qed.
Print Assumptions C14_bind_never_changes_a_started_worker.

Theorem C14_context_cancel_stops :
  forall s, hasCtx s = true -> wst s = Running \/ wst s = Paused -> wst (fst (lstep s CCtxCancel)) = Stopped.
Proof. exact cancel_takes_effect. Qed.
Print Assumptions C14_context_cancel_stops.

Theorem C14_cancelled_context_keeps_it_stopped :
  forall s c, ctxDead s = true ->
    wst (fst (lstep s c)) <> Running /\ wst (fst (lstep s c)) <> Paused /\ ctxDead (fst (lstep s c)) = true.
Proof. exact cancel_stops. Qed.
Print Assumptions C14_cancelled_context_keeps_it_stopped.

Theorem C14_tunepool_sets_concurrency :
  forall s n np, ctxDead s = false ->
    match snd (lstep s (CTunePool n np)) with
    | RNil => lconc (fst (lstep s (CTunePool n np))) = (if np then ncpu s else n) /\ wst s = Running
    | _ => lconc (fst (lstep s (CTunePool n np))) = lconc s
    end.
Proof. exact tune_sets_concurrency. Qed.
Print Assumptions C14_tunepool_sets_concurrency.

Example C14_example :
  let '(s, rs) := lrun (linit 2 8 true) [CPause; CBind; CPauseAndWait; CBind; CTunePool 3 false; CResume; CTunePool 0 true;
                                         CStop; CBind; CResume; CRestart; CCtxCancel; CRestart] in
  rs = [RErrNotRunning; RNil; RNil; RNil; RErrNotRunning; RNil; RNil; RNil; RNil; RErrNotRunning; RNil; RNil; RNil]
  /\ wst s = Stopped /\ lconc s = 8.
Proof. vm_compute. repeat split. Qed.
