(* C19 — no data race on library-owned memory under any concurrent use of the API.
   Statements only. Two models:
   coq/HB.v       one recorded execution reduced to plain accesses, acquire / release operations
                  on sync objects and barriers; [hb] is happens-before (program order + release
                  before acquire on one sync object, transitively closed), [is_race] is the Go
                  memory model's data race, [race_check] the executable vector-clock detector
                  that the check runs on every explored execution.
   coq/Lockset.v  one reader / writer lock and the plain accesses to the locations it guards;
                  the access steps are enabled only under the lock discipline. *)
From Coq Require Import List NArith Arith Bool.
From VQ Require Import HB HBProofs Lockset LocksetProofs LockHB.
Import ListNotations.

(* The detector is exact: it accepts an execution iff no two conflicting plain accesses by
   different threads are unordered by happens-before — for executions of any length, any number
   of threads, locations and sync objects. *)
Theorem C19_detector_exact :
  forall tr, race_check tr = None <-> race_free tr.
Proof. exact race_check_none_iff_race_free. Qed.
Print Assumptions C19_detector_exact.

(* What it reports is a real race of that execution: two accesses i < j to one location by
   different threads, at least one a write, with no happens-before path from i to j. *)
Theorem C19_reported_pair_is_a_race :
  forall tr i j, race_check tr = Some (i, j) -> is_race tr (N.to_nat i) (N.to_nat j).
Proof. exact race_check_reports_a_race. Qed.
Print Assumptions C19_reported_pair_is_a_race.

(* ... and it is the first one: no race of the execution ends at an earlier event. *)
Theorem C19_reported_pair_is_the_first_race :
  forall tr i j, race_check tr = Some (i, j) ->
    forall i' j', (j' < N.to_nat j)%nat -> ~ is_race tr i' j'.
Proof. exact race_check_reports_the_first_race. Qed.
Print Assumptions C19_reported_pair_is_the_first_race.

(* Lock discipline: in every trace of lock operations and accesses that the discipline admits,
   two conflicting accesses by different threads are separated by a release of the lock by the
   first thread and a later acquisition by the second, one of them exclusive — a pair the Go
   memory model orders. So they are ordered by happens-before in EVERY execution with that
   trace: a location whose accesses all follow the discipline cannot race, on any schedule. *)
Theorem C19_discipline_orders_conflicting_accesses :
  forall pre a1 mid a2 s t1 w1 t2 w2,
    lkrun lkinit (pre ++ a1 :: mid ++ [a2]) = Some s ->
    acc_of a1 = Some (t1, w1) -> acc_of a2 = Some (t2, w2) ->
    t1 <> t2 -> w1 || w2 = true ->
    exists m1 r m2 q m3 xr xq,
      mid = m1 ++ r :: m2 ++ q :: m3 /\ release_by t1 r xr /\ acquire_by t2 q xq /\ xr || xq = true.
Proof. exact conflicting_accesses_ordered_by_lock. Qed.
Print Assumptions C19_discipline_orders_conflicting_accesses.

(* The two models joined. [embed] reads a lock trace as an execution of HB.v with the Go memory
   model's rules for sync.RWMutex (Lock = acquire W, acquire R; Unlock = release W; RLock =
   acquire W; RUnlock = release R — so RUnlock does not order a later RLock). Every trace the
   discipline admits is then race-free in the happens-before sense, and the detector accepts it:
   for a location whose accesses follow the discipline, NO schedule of those lock operations
   and accesses — of any length, with any number of threads — is a racy execution. *)
Theorem C19_discipline_implies_race_freedom :
  forall es s, lkrun lkinit es = Some s -> race_free (embed es).
Proof. exact discipline_implies_race_free. Qed.
Print Assumptions C19_discipline_implies_race_freedom.

Theorem C19_discipline_accepted_by_the_detector :
  forall es s, lkrun lkinit es = Some s -> race_check (embed es) = None.
Proof. exact discipline_accepted_by_detector. Qed.
Print Assumptions C19_discipline_accepted_by_the_detector.

(* Under the discipline no two threads are ever both about to perform conflicting accesses. *)
Theorem C19_no_adjacent_conflict :
  forall s t1 t2, LkReachable s ->
    lkstep s (LWrite t1) <> None ->
    (lkstep s (LWrite t2) <> None \/ lkstep s (LRead t2) <> None) -> t1 = t2.
Proof. exact no_adjacent_conflict. Qed.
Print Assumptions C19_no_adjacent_conflict.

(* non-vacuity: a racy execution is rejected, the same accesses under a lock are accepted *)
Example C19_example_race :
  race_check [mkH 0 (HSync None (Some 1)); mkH 1 (HSync (Some 1) None);
              mkH 0 (HAcc 7 true); mkH 1 (HAcc 7 false)]%N = Some (2, 3)%N.
Proof. vm_compute. reflexivity. Qed.

Example C19_example_locked :
  race_check [mkH 0 (HSync (Some 1) None); mkH 0 (HAcc 7 true); mkH 0 (HSync None (Some 1));
              mkH 1 (HSync (Some 1) None); mkH 1 (HAcc 7 false); mkH 1 (HSync None (Some 1))]%N = None.
Proof. vm_compute. reflexivity. Qed.

Example C19_example_embedding :
  race_check (embed [LRLock 1; LRLock 2; LRead 1; LRead 2; LRUnlock 1; LRUnlock 2; LLock 3; LWrite 3; LUnlock 3; LRLock 1; LRead 1]) = None
  /\ race_check (embed [LRLock 1; LRead 1; LRUnlock 1] ++ [mkH 2 (HAcc 0 true)])%N = Some (1, 3)%N.
Proof. vm_compute. split; reflexivity. Qed.

Example C19_example_discipline :
  lkrun lkinit [LLock 1; LWrite 1; LUnlock 1; LRLock 2; LRLock 3; LRead 2; LRead 3; LRUnlock 2; LRUnlock 3; LLock 1; LWrite 1] <> None
  /\ lkrun lkinit [LRLock 2; LRead 2; LWrite 2] = None
  /\ lkrun lkinit [LLock 1; LUnlock 1; LRead 1] = None.
Proof. vm_compute. repeat split; discriminate. Qed.
