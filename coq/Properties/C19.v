(* C19 — no data race on library-owned memory under any concurrent use of the API.
   Statements only. Two models:
   coq/HB.v       one recorded execution reduced to plain accesses, acquire / release operations
                  on sync objects and barriers; [hb] is happens-before (program order + release
                  before acquire on one sync object, transitively closed), [is_race] is the Go
                  memory model's data race, [race_check] the executable vector-clock detector
                  that the check runs on every explored execution.
   coq/Lockset.v  one reader / writer lock and the plain accesses to the locations it guards;
                  the access steps are enabled only under the lock discipline. *)
From Coq Require Import List NArith Arith Bool.
From VQ Require Import HB HBProofs Lockset LocksetProofs.
Import ListNotations.

(* The detector is exact: it accepts an execution iff no two conflicting plain accesses by
   different threads are unordered by happens-before — for executions of any length, any number
   of threads, locations and sync objects. *)
Theorem C19_detector_exact :
  forall tr, race_check tr = None <-> race_free tr.
Proof. exact race_check_none_iff_race_free. Qed.
Print Assumptions C19_detector_exact.

(* What it reports is a real race of that execution: two accesses i < j to one location by
   different threads, at least one a write, with no happens-before path from i to j. *)
Theorem C19_reported_pair_is_a_race :
  forall tr i j, race_check tr = Some (i, j) -> is_race tr (N.to_nat i) (N.to_nat j).
Proof. exact race_check_reports_a_race. Qed.
Print Assumptions C19_reported_pair_is_a_race.

(* Lock discipline: in every trace of lock operations and accesses that the discipline admits,
   two conflicting accesses by different threads are separated by a release of the lock by the
   first thread and a later acquisition by the second, one of them exclusive — a pair the Go
   memory model orders. So they are ordered by happens-before in EVERY execution with that
   trace: a location whose accesses all follow the discipline cannot race, on any schedule. *)
Theorem C19_discipline_orders_conflicting_accesses :
  forall pre a1 mid a2 s t1 w1 t2 w2,
    lkrun lkinit (pre ++ a1 :: mid ++ [a2]) = Some s ->
    acc_of a1 = Some (t1, w1) -> acc_of a2 = Some (t2, w2) ->
    t1 <> t2 -> w1 || w2 = true ->
    exists m1 r m2 q m3 xr xq,
      mid = m1 ++ r :: m2 ++ q :: m3 /\ release_by t1 r xr /\ acquire_by t2 q xq /\ xr || xq = true.
Proof. exact conflicting_accesses_ordered_by_lock. Qed.
Print Assumptions C19_discipline_orders_conflicting_accesses.

(* Under the discipline no two threads are ever both about to perform conflicting accesses. *)
Theorem C19_no_adjacent_conflict :
  forall s t1 t2, LkReachable s ->
    lkstep s (LWrite t1) <> None ->
    (lkstep s (LWrite t2) <> None \/ lkstep s (LRead t2) <> None) -> t1 = t2.
Proof. exact no_adjacent_conflict. Qed.
Print Assumptions C19_no_adjacent_conflict.

(* non-vacuity: a racy execution is rejected, the same accesses under a lock are accepted *)
Example C19_example_race :
  race_check [mkH 0 (HSync None (Some 1)); mkH 1 (HSync (Some 1) None);
              mkH 0 (HAcc 7 true); mkH 1 (HAcc 7 false)]%N = Some (2, 3)%N.
Proof. vm_compute. reflexivity. Qed.

Example C19_example_locked :
  race_check [mkH 0 (HSync (Some 1) None); mkH 0 (HAcc 7 true); mkH 0 (HSync None (Some 1));
              mkH 1 (HSync (Some 1) None); mkH 1 (HAcc 7 false); mkH 1 (HSync None (Some 1))]%N = None.
Proof. vm_compute. reflexivity. Qed.

Example C19_example_discipline :
  lkrun lkinit [LLock 1; LWrite 1; LUnlock 1; LRLock 2; LRLock 3; LRead 2; LRead 3; LRUnlock 2; LRUnlock 3; LLock 1; LWrite 1] <> None
  /\ lkrun lkinit [LRLock 2; LRead 2; LWrite 2] = None
  /\ lkrun lkinit [LLock 1; LUnlock 1; LRead 1] = None.
Proof. vm_compute. repeat split; discriminate. Qed.
