(* C18 — pool size tracks configuration; idle workers are trimmed; Stop leaks nothing.
   Statements only; model coq/SlicePool.v: one pool node (its place: cache / idle list / held by
   a thread / job in its channel / its own server running a job), the goroutines serving its
   channel and the payloads in it. [PReachable s] = some event list leads to s. The number of
   nodes in service is bounded by the dispatcher: a node is created only when the idle list is
   empty while a slot was reserved (C02: reservations <= limit), plus the one start() creates. *)
From Coq Require Import List Arith.
From VQ Require Import SlicePool SlicePoolProofs LList LListProofs.
Import ListNotations.

(* The goroutines serving a node are exactly: one while the node is in service, plus one per
   stop payload not yet consumed — never more than two per node, and none once the node is out
   of service and its stop payload was consumed. After Stop (every idle node removed by its
   remover, stopped, cached) and at rest, no pool goroutine is left. *)
Theorem C18_goroutines_accounted :
  forall s, PReachable s -> alive s = (if in_service (pl s) then 1 else 0) + stopsq s /\ alive s <= 2.
Proof. exact servers_accounted. Qed.
Print Assumptions C18_goroutines_accounted.

Theorem C18_no_goroutine_left_after_stop :
  forall s, PReachable s -> in_service (pl s) = false -> stopsq s = 0 -> alive s = 0.
Proof. exact no_goroutine_left. Qed.
Print Assumptions C18_no_goroutine_left_after_stop.

(* A job handed to a node finds a live goroutine with no stop payload ahead of it, and can be
   received: no job is lost to a retired worker, whatever TunePool / the idle-expiry reaper /
   Stop / Restart do concurrently (they may only stop a node they took out of the list). *)
Theorem C18_job_finds_a_live_worker :
  forall s, PReachable s -> jobsq s = 1 -> alive s >= 1 /\ stopsq s = 0.
Proof. exact job_finds_a_server. Qed.
Print Assumptions C18_job_finds_a_live_worker.

Theorem C18_job_is_receivable :
  forall s g, PReachable s -> jobsq s = 1 -> exists s', pstep s (NRecvJob g) = Some s'.
Proof. exact job_is_receivable. Qed.
Print Assumptions C18_job_is_receivable.

(* No job is lost or duplicated across pool changes: sent = received + the one in the channel. *)
Theorem C18_jobs_conserved :
  forall s, PReachable s -> jobs_sent s = jobs_recv s + jobsq s.
Proof. exact jobs_conserved. Qed.
Print Assumptions C18_jobs_conserved.

(* The idle list (coq/LList.v, tied to internal/linkedlist by the differential test): a node the
   dispatcher has popped is not in the list, so the Remove of the idle-worker reaper or of Stop —
   working from an older snapshot — answers false for it and leaves it alone; Remove answers true
   exactly for members and takes them out. *)
Theorem C18_remove_is_the_ownership_transfer :
  forall l x l', LLReachable l -> ll_popback l = (Some x, l') -> fst (ll_remove l' x) = false.
Proof. exact remove_after_popback_false. Qed.
Print Assumptions C18_remove_is_the_ownership_transfer.

(* An idle node is ready: empty channel, one goroutine waiting (plus one per unconsumed stop). *)
Theorem C18_idle_node_is_ready :
  forall s, PReachable s -> pl s = PInList -> jobsq s = 0 /\ alive s = 1 + stopsq s.
Proof. exact idle_node_is_ready. Qed.
Print Assumptions C18_idle_node_is_ready.

Example C18_example :
  match prun_idx pinit [NGetSpawn 0 2; NPush 0; NPop 1; NSendJob 1; NRecvJob 2; NPush 2; NPop 5; NSendStop 5;
                        NPut 5; NRecvStop 2; NGetSpawn 1 7; NSendJob 1; NRecvJob 7; NSendStop 7; NPut 7; NRecvStop 7] 0 with
  | inr s => alive s = 0 /\ jobs_sent s = 2 /\ jobs_recv s = 2 /\ pl s = PCached
  | inl _ => False
  end.
Proof. vm_compute. repeat split. Qed.
