(* C13 — distributed consumers drain the shared queue; each item is run by exactly one.
   Statements only. The shared adapter is a specification object (an item handed out by
   DequeueWithAckId leaves its pending set, so it is delivered to one consumer). Per delivered
   item the consumer-side protocol is coq/SliceJob.v; each consumer's wake-up protocol is
   coq/SliceWake.v, with the adapter's "enqueued" notification in the role of the notify
   (handleQueueSubscription -> notifyToPullNextJobs) and start()'s unconditional notify covering
   items that were there before the bind. *)
From Coq Require Import List Arith.
From VQ Require Import SliceJob SliceJobProofs SliceWake SliceWakeProofs SlicePool SlicePoolProofs.
Import ListNotations.

(* A delivered item is executed at most once by the consumer that dequeued it. *)
Theorem C13_delivered_item_runs_at_most_once :
  forall s, Reachable s -> starts s <= 1 /\ exits s <= starts s.
Proof. exact at_most_once. Qed.
Print Assumptions C13_delivered_item_runs_at_most_once.

(* It is acknowledged at most once, only after it was processed. *)
Theorem C13_ack_after_processing :
  forall s, Reachable s -> acks s <= 1 /\ (acks s = 1 -> exits s = 1).
Proof. exact ack_sound. Qed.
Print Assumptions C13_ack_after_processing.

(* A consumer whose event loop is parked while items are pending below its limit has a
   notification buffered or on its way: at rest nothing dispatchable remains. *)
Theorem C13_consumer_not_left_asleep :
  forall s, KReachable s -> kparked s = true -> guard s = true -> ksig s = true \/ kowed s >= 1.
Proof. exact no_lost_wakeup. Qed.
Print Assumptions C13_consumer_not_left_asleep.

Theorem C13_drained_at_rest :
  forall s, KReachable s -> at_rest s = true -> guard s = false.
Proof. exact at_rest_nothing_dispatchable. Qed.
Print Assumptions C13_drained_at_rest.

(* "Each item is executed by exactly one": an item handed to a pool goroutine is run by it
   (coq/SlicePool.v) — only the thread that took a node out of the idle list sends to it, so a
   payload always finds a live goroutine; the idle-worker reaper of a consumer with an expiry
   leaves alone what the dispatcher has popped. *)
Theorem C13_dispatched_item_finds_a_live_goroutine :
  forall s, PReachable s -> jobsq s = 1 -> alive s >= 1 /\ stopsq s = 0.
Proof. exact job_finds_a_server. Qed.
Print Assumptions C13_dispatched_item_finds_a_live_goroutine.
