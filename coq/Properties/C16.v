(* C16 — a job's reported status only moves forward and ends at Closed.
   Statements only. The model is coq/SliceJob.v: one step = one synchronisation operation on
   the job (status word, wait group) or one harness mark (worker function, queue wrapper,
   handle API); [Reachable s] = some event list, of any length and from any number of threads,
   leads from the initial state to s. *)
From Coq Require Import List Arith.
From VQ Require Import SliceJob SliceJobProofs.
Import ListNotations.

(* Every step of every thread leaves the status where it is or moves it forward along
   Created(0) < Queued(1) < Processing(2) < Finished(3) < Closed(4) — for every job that has a
   handle (jobs rebuilt from stored entries have none: [parsed]). *)
Theorem C16_status_never_goes_back :
  forall s e s', Reachable s -> parsed s = false -> jstep s e = Some s' ->
                 st s <= st s' \/ parsed s' = true.
Proof. exact status_monotone. Qed.
Print Assumptions C16_status_never_goes_back.

(* It reads Processing for as long as the worker function runs. *)
Theorem C16_processing_while_running :
  forall s g, Reachable s -> where_ s = LRunning g -> st s = sProcessing.
Proof. exact processing_while_running. Qed.
Print Assumptions C16_processing_while_running.

(* Wait returns only on a Closed job ... *)
Theorem C16_closed_when_wait_returns :
  forall s t s', Reachable s -> jstep s (EWait t) = Some s' ->
                 st s = sClosed /\ (exits s = 1 \/ starts s = 0).
Proof. exact wait_sound. Qed.
Print Assumptions C16_closed_when_wait_returns.

(* ... and Closed is final. *)
Theorem C16_closed_is_final :
  forall s e s', Reachable s -> st s = sClosed -> jstep s e = Some s' -> st s' = sClosed.
Proof. exact closed_is_final. Qed.
Print Assumptions C16_closed_is_final.

(* non-vacuity: a real trace (cancel family, seed 1000003) — submit, dispatch, run, finish, close,
   wait — is accepted by the thread-level wrapper and ends Closed *)
Example C16_example :
  match trun [RCore (ENew 0 true); RCore (EStoreQueued 0); RCore (EEnq 0 true); RCore (EDeq 1);
              RLoadClaim 1 1; RCasClaim 1 true; RCore (EWfEnter 2); RLoadPlain 5 2; RCore (EWfExit 2);
              RCore (EStoreFinished 2); RLoadCloseable 2 3; RLoadClose 2 3; RCasClose 2 true;
              RCore (ESignal 2); RCore (EWait 5); RLoadPlain 5 4] with
  | inr s => st s = sClosed /\ starts s = 1 /\ exits s = 1 /\ parsed s = false
  | inl _ => False
  end.
Proof. vm_compute. repeat split. Qed.
