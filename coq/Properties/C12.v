(* C12 — persistent/distributed jobs keep ID and payload; bad entries are isolated (pure part:
   the job envelope of job.go). This file holds only statements, each closed by [exact] of a
   lemma proved in CodecProofs.v. System-level parts (the event loop goes on after an error,
   acknowledgement) are not decided here. *)
From Coq Require Import List NArith.
From VQ Require Import Codec CodecProofs.
Import ListNotations.
Open Scope N_scope.

(* ID fidelity: json.Marshal's string encoding followed by json.Unmarshal's string decoding is
   the identity on every string of Unicode scalar values, whatever follows the literal. *)
Theorem C12_id_string_round_trip :
  forall (s : list codepoint) (rest : list byte),
    Forall valid_scalar s -> dec_string (enc_string s ++ rest) = Some (s, rest).
Proof. exact dec_enc_string. Qed.
Print Assumptions C12_id_string_round_trip.

(* The code-point level encoder is the byte-level algorithm of encoding/json (appendString) run
   on the UTF-8 bytes of the ID. *)
Theorem C12_byte_level_encoder_agrees :
  forall s, Forall valid_scalar s -> enc_bytes (utf8_encode_all s) = enc_string s.
Proof. exact enc_bytes_utf8. Qed.
Print Assumptions C12_byte_level_encoder_agrees.

(* Boundary: for an arbitrary Go string (any bytes) the consumer sees []rune(id): malformed UTF-8
   bytes come back as U+FFFD. Such IDs are not JSON-representable and are outside C12. *)
Theorem C12_arbitrary_id_bytes :
  forall (bs rest : list byte), dec_string (enc_bytes bs ++ rest) = Some (runes_of_bytes bs, rest).
Proof. exact dec_enc_bytes. Qed.
Print Assumptions C12_arbitrary_id_bytes.

Theorem C12_distinct_ids_stay_distinct :
  forall s t, Forall valid_scalar s -> Forall valid_scalar t -> enc_string s = enc_string t -> s = t.
Proof. exact enc_string_inj. Qed.
Print Assumptions C12_distinct_ids_stay_distinct.

(* status strings *)
Theorem C12_status_round_trip : forall st, parse_status (status_string st) = Some st.
Proof. exact parse_status_string. Qed.
Print Assumptions C12_status_round_trip.

Theorem C12_status_injective : forall a b, status_string a = status_string b -> a = b.
Proof. exact status_string_inj. Qed.
Print Assumptions C12_status_injective.

Theorem C12_unknown_status_rejected :
  forall s, (forall st, s <> status_string st) -> parse_status s = None.
Proof. exact parse_status_unknown. Qed.
Print Assumptions C12_unknown_status_rejected.

(* The whole envelope. [scan_payload] stands for encoding/json's decoding of the payload; the
   hypothesis is the assumption on encoding/json: positioned at a payload that json.Marshal
   produced and that is followed by the envelope's closing brace, it consumes exactly the payload. *)
Theorem C12_envelope_round_trip :
  forall (scan_payload : list byte -> option (list byte * list byte))
         (marshal_output : list byte -> Prop),
    (forall p, marshal_output p -> scan_payload (p ++ [lit_close]) = Some (p, [lit_close])) ->
    forall id st payload,
      Forall valid_scalar id -> marshal_output payload ->
      decode_env scan_payload (encode_env id st payload) = Ok (id, st, payload).
Proof. exact decode_encode_env. Qed.
Print Assumptions C12_envelope_round_trip.

(* Add (status created) then the consumer's decode: same ID, same payload bytes. *)
Theorem C12_submit_then_decode :
  forall (scan_payload : list byte -> option (list byte * list byte))
         (marshal_output : list byte -> Prop),
    (forall p, marshal_output p -> scan_payload (p ++ [lit_close]) = Some (p, [lit_close])) ->
    forall id payload,
      Forall valid_scalar id -> marshal_output payload ->
      exists entry, submit_entry id (Some payload) = Some entry /\
                    decode_env scan_payload entry = Ok (id, Created, payload).
Proof. exact submit_then_decode. Qed.
Print Assumptions C12_submit_then_decode.

(* A payload that json.Marshal rejects: nothing is handed to Enqueue. *)
Theorem C12_unencodable_payload_no_entry : forall id, submit_entry id None = None.
Proof. exact submit_unencodable. Qed.
Print Assumptions C12_unencodable_payload_no_entry.

(* The assumption is satisfiable: closed instance for unsigned decimal payloads. *)
Theorem C12_envelope_round_trip_uint :
  forall id st payload,
    Forall valid_scalar id -> uint_literal payload ->
    decode_env scan_uint (encode_env id st payload) = Ok (id, st, payload).
Proof. exact decode_encode_env_uint. Qed.
Print Assumptions C12_envelope_round_trip_uint.

(* Isolation at the codec level: entries are decoded one by one without state, so an undecodable
   entry between good ones yields its own error and leaves the others and their order alone. *)
Theorem C12_bad_entry_isolated :
  forall (scan_payload : list byte -> option (list byte * list byte))
         (marshal_output : list byte -> Prop),
    (forall p, marshal_output p -> scan_payload (p ++ [lit_close]) = Some (p, [lit_close])) ->
    forall jobs1 bad jobs2,
      Forall (fun j => Forall valid_scalar (fst (fst j)) /\ marshal_output (snd j)) (jobs1 ++ jobs2) ->
      let enc := map (fun j => encode_env (fst (fst j)) (snd (fst j)) (snd j)) in
      consume_all scan_payload (enc jobs1 ++ bad :: enc jobs2) =
      map Ok jobs1 ++ decode_env scan_payload bad :: map Ok jobs2.
Proof. exact good_entries_survive. Qed.
Print Assumptions C12_bad_entry_isolated.

Theorem C12_unknown_status_entry_rejected :
  forall (scan_payload : list byte -> option (list byte * list byte))
         (marshal_output : list byte -> Prop),
    (forall p, marshal_output p -> scan_payload (p ++ [lit_close]) = Some (p, [lit_close])) ->
    forall id sts payload,
      Forall valid_scalar id -> Forall valid_scalar sts -> marshal_output payload ->
      (forall st, sts <> status_string st) ->
      decode_env scan_payload
        (lit_open ++ enc_string id ++ lit_status ++ enc_string sts ++ lit_data ++ payload ++ [lit_close])
      = Err InvalidStatus.
Proof. exact unknown_status_rejected. Qed.
Print Assumptions C12_unknown_status_entry_rejected.

(* non-vacuity: quotes, backslash, <, U+2028, an astral-plane rune, NUL, DEL in one ID; the empty
   ID; an escaped surrogate pair; a good - bad - bad - good sequence of entries *)
Example C12_example_id :
  let id := [97; 34; 98; 92; 99; 60; 100; 8232; 128512; 0; 233; 127] in
  Forall valid_scalar id /\
  decode_env scan_uint (encode_env id Queued [52; 50]) = Ok (id, Queued, [52; 50]) /\
  decode_env scan_uint (encode_env [] Created [48]) = Ok ([], Created, [48]) /\
  dec_string [34; 92; 117; 100; 56; 51; 100; 92; 117; 100; 101; 48; 48; 34] = Some ([128512], []).
Proof. cbv zeta. split; [repeat constructor|]. vm_compute. repeat split. Qed.

Example C12_example_isolation :
  let good1 := encode_env [97] Created [49] in
  let good2 := encode_env [98] Created [50] in
  let truncated := firstn 20 good1 in
  let badstatus := lit_open ++ enc_string [120] ++ lit_status ++ enc_string [68; 111; 110; 101]
                   ++ lit_data ++ [51] ++ [lit_close] in
  consume_all scan_uint [good1; truncated; badstatus; good2]
  = [Ok ([97], Created, [49]); Err Malformed; Err InvalidStatus; Ok ([98], Created, [50])].
Proof. vm_compute. reflexivity. Qed.
