(* C10 — cancel, purge and queue-close take effect, exclude execution, never crash.
   Statements only; model coq/SliceJob.v (see C16.v for the conventions). Queue close is a pure
   property of the queue models (Fifo.v / Heap.v: a closed queue rejects with no effect). *)
From Coq Require Import List Arith.
From VQ Require Import SliceJob SliceJobProofs SliceBatch SliceBatchProofs Fifo FifoProofs Heap HeapProofs.
Import ListNotations.

(* If a Close call returns nil while the job has not started, the job is cancelled ... *)
Theorem C10_close_nil_before_start_cancels :
  forall s t s', Reachable s -> jstep s (ERetCloseNil t) = Some s' -> starts s = 0 ->
                 cancelledBeforeStart s' = true.
Proof. exact close_nil_before_start. Qed.
Print Assumptions C10_close_nil_before_start_cancels.

(* ... and a cancelled (or purged, or rejected) job is never executed, whatever happens next. *)
Theorem C10_cancelled_never_runs :
  forall s es s', Reachable s -> cancelledBeforeStart s = true -> jrun s es = Some s' ->
                  starts s' = 0 /\ cancelledBeforeStart s' = true.
Proof. exact cancelled_never_runs. Qed.
Print Assumptions C10_cancelled_never_runs.

(* At most one Close call ever returns nil (a second one gets ErrJobAlreadyClosed: it cannot
   win the claim), the job is closed by at most one claim and its waiters are released at most
   once. *)
Theorem C10_closed_once :
  forall s, Reachable s -> closes s <= 1 /\ signals s <= 1 /\ nilCloses s <= 1.
Proof. exact single_close. Qed.
Print Assumptions C10_closed_once.

(* No interleaving reaches "sync: negative WaitGroup counter": whoever is about to release
   the job's wait group finds it positive. *)
Theorem C10_no_negative_waitgroup :
  forall s t, Reachable s -> winner s = Some t -> hasWg s = true -> wg s >= 1.
Proof. exact signal_never_underflows. Qed.
Print Assumptions C10_no_negative_waitgroup.

(* A job that is being executed cannot be closed: its status is Processing, and closeStatus
   refuses Processing (the model's ECasClose requires a closeable status). *)
Theorem C10_running_is_processing :
  forall s g, Reachable s -> where_ s = LRunning g -> st s = sProcessing.
Proof. exact processing_while_running. Qed.
Print Assumptions C10_running_is_processing.

(* After a queue's Close every later Enqueue is rejected and changes nothing (FIFO and
   priority queue), while what is pending stays. *)
Theorem C10_closed_fifo_rejects :
  forall (A : Type) (q : queue A) (x : A), qclosed q = true -> enqueue q x = (false, q).
Proof. exact @closed_rejects. Qed.
Print Assumptions C10_closed_fifo_rejects.

Theorem C10_closed_prio_rejects :
  forall (A : Type) (q : pq A) (p : BinNums.Z) (v : A), pclosed q = true -> push q p v = (false, q).
Proof. exact @pclosed_rejects. Qed.
Print Assumptions C10_closed_prio_rejects.

(* "Never crash", for the items of a batch that are cancelled or purged while others finish
   (coq/SliceBatch.v): whoever brings the batch counter to zero — a finisher, a canceller or the
   purger — is the only one to close the stream, it is closed at most once and never sent to
   afterwards, and the wait group never goes negative. *)
Theorem C10_batch_stream_closed_at_most_once : forall s, BReachable s -> bcloses s <= 1.
Proof. exact closed_at_most_once. Qed.
Print Assumptions C10_batch_stream_closed_at_most_once.

Theorem C10_batch_no_send_after_close : forall s, BReachable s -> bdones s < bn s -> bclosed s = false.
Proof. exact send_never_on_closed. Qed.
Print Assumptions C10_batch_no_send_after_close.

Theorem C10_batch_waitgroup_never_negative : forall s, BReachable s -> owe_wg s >= 1 -> bwg s >= 1.
Proof. exact wg_never_negative. Qed.
Print Assumptions C10_batch_waitgroup_never_negative.

(* non-vacuity: Close wins against the dispatcher, which then skips the job (cancel family) *)
Example C10_example :
  match trun [RCore (ENew 0 true); RCore (EStoreQueued 0); RCore (EEnq 0 true);
              RLoadCloseable 3 1; RCore (EDeq 1); RLoadClaim 1 1; RLoadClose 3 1; RCasClose 3 true;
              RCasClaim 1 false; RLoadClaim 1 4; RCore (ESignal 3); RRetClose 3 0; RCore (EWait 5);
              RLoadCloseable 4 4; RRetClose 4 4] with
  | inr s => cancelledBeforeStart s = true /\ starts s = 0 /\ nilCloses s = 1 /\ where_ s = LSkipped
  | inl _ => False
  end.
Proof. vm_compute. repeat split. Qed.
