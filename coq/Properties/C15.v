(* C15 — multi-queue selection follows the configured strategy and starves no queue.
   This file holds only statements, each closed by [exact] of a lemma proved elsewhere.

   Reading: a manager state is (number of registered items, roundRobinIndex); items are named by
   their position in m.items (= binding order as long as UnregisterItem is not called; the
   library never calls it). [lens] is the vector of item.Len() values seen by the call.
   cdist n c p = (p + n - c) mod n = number of steps from cursor c forward to position p;
   nxt n q = (q + 1) mod n. *)
From Coq Require Import List ZArith.
From VQ Require Import Manager ManagerProofs.
Import ListNotations.

Theorem C15_cdist_is_cyclic_distance :
  forall n c p, c < n -> p < n -> cdist n c p = (p + n - c) mod n.
Proof. exact cdist_mod. Qed.
Print Assumptions C15_cdist_is_cyclic_distance.

Theorem C15_nxt_is_successor_mod_n : forall n i, i < n -> nxt n i = (i + 1) mod n.
Proof. exact nxt_mod. Qed.
Print Assumptions C15_nxt_is_successor_mod_n.

(* every state reachable by Register / UnregisterItem / GetRoundRobinItem from CreateManager
   satisfies the invariant assumed below *)
Theorem C15_reachable_states_ok : forall ops, mgr_ok (fold_left mstep ops new_mgr).
Proof. exact run_ok. Qed.
Print Assumptions C15_reachable_states_ok.

(* RoundRobin: the pick is the first position with Len() > 0 at or after the cursor, in cyclic
   order, and the cursor moves just past it; ErrAllItemsEmpty exactly when no length is > 0,
   cursor unchanged; ErrNoItemsRegistered exactly when nothing is registered. *)
Theorem C15_rr_picks_next_nonempty :
  forall m lens,
    mgr_ok m ->
    match get_rr m lens with
    | (ErrNoItems, m') => mcount m = 0 /\ m' = m
    | (ErrAllEmpty, m') =>
        0 < mcount m /\ m' = m /\ forall p, p < mcount m -> (nth p lens 0 <= 0)%Z
    | (Picked q, m') =>
        q < mcount m /\ (0 < nth q lens 0)%Z /\ m' = mkMgr (mcount m) (nxt (mcount m) q) /\
        forall p, p < mcount m ->
                  cdist (mcount m) (mrr m) p < cdist (mcount m) (mrr m) q -> (nth p lens 0 <= 0)%Z
    end.
Proof. exact rr_spec. Qed.
Print Assumptions C15_rr_picks_next_nonempty.

Theorem C15_rr_no_items_iff :
  forall m lens, mgr_ok m -> (fst (get_rr m lens) = ErrNoItems <-> mcount m = 0).
Proof. exact rr_noitems_iff. Qed.
Print Assumptions C15_rr_no_items_iff.

Theorem C15_rr_all_empty_iff :
  forall m lens,
    mgr_ok m ->
    (fst (get_rr m lens) = ErrAllEmpty <->
     0 < mcount m /\ forall p, p < mcount m -> (nth p lens 0 <= 0)%Z).
Proof. exact rr_allempty_iff. Qed.
Print Assumptions C15_rr_all_empty_iff.

(* Equal share: over any sequence of RoundRobin dispatches (lengths changing arbitrarily between
   dispatches, no bind/unbind in between), two queues that are non-empty at every dispatch of
   the sequence are chosen equally often, up to one. *)
Theorem C15_rr_equal_share :
  forall m snaps a b,
    mgr_ok m -> a < mcount m -> b < mcount m -> a <> b ->
    Forall (fun l => (0 < nth a l 0)%Z /\ (0 < nth b l 0)%Z) snaps ->
    let ss := fst (rr_run m snaps) in
    picks a ss <= picks b ss + 1 /\ picks b ss <= picks a ss + 1.
Proof. exact rr_fair. Qed.
Print Assumptions C15_rr_equal_share.

(* No starvation: a queue that is non-empty during n consecutive dispatches (n = number of bound
   queues) is chosen by one of them, wherever the window lies in the run. *)
Theorem C15_rr_no_starvation :
  forall m pre w post a,
    mgr_ok m -> a < mcount m -> length w = mcount m ->
    Forall (fun l => (0 < nth a l 0)%Z) w ->
    exists k, length pre <= k < length pre + mcount m /\
              nth k (fst (rr_run m (pre ++ w ++ post))) ErrNoItems = Picked a.
Proof. exact rr_no_starvation. Qed.
Print Assumptions C15_rr_no_starvation.

Example C15_rr_example :
  let snaps := [[1; 0; 1]; [2; 1; 1]; [1; 1; 3]; [1; 0; 1]; [4; 0; 1]; [1; 1; 1]; [1; 1; 1]]%Z in
  let ss := fst (rr_run (mkMgr 3 1) snaps) in
  ss = [Picked 2; Picked 0; Picked 1; Picked 2; Picked 0; Picked 1; Picked 2] /\
  picks 0 ss = 2 /\ picks 2 ss = 3 /\
  Forall (fun l => (0 < nth 0 l 0)%Z /\ (0 < nth 2 l 0)%Z) snaps.
Proof. exact fair_example. Qed.

(* MaxLen, exactly as coded (lengths whose pairwise differences fit in int64): the first
   position holding the maximal length — unless that maximum is 0 (ErrAllItemsEmpty). *)
Theorem C15_max_as_coded :
  forall m lens,
    mcount m = length lens -> in_range lens ->
    match get_max m lens with
    | ErrNoItems => lens = []
    | ErrAllEmpty =>
        lens <> [] /\ In 0%Z lens /\ (forall q, q < length lens -> (nth q lens 0 <= 0)%Z)
    | Picked p =>
        p < length lens /\ nth p lens 0%Z <> 0%Z /\
        (forall q, q < length lens -> (nth q lens 0 <= nth p lens 0)%Z) /\
        (forall q, q < p -> (nth q lens 0 < nth p lens 0)%Z)
    end.
Proof. exact max_spec. Qed.
Print Assumptions C15_max_as_coded.

(* MaxLen as the property states it — holds when every Len() is in [0, 2^63) *)
Theorem C15_max_partial :
  forall m lens,
    mcount m = length lens -> (forall l, In l lens -> (0 <= l < mtwo63)%Z) ->
    match get_max m lens with
    | ErrNoItems => lens = []
    | ErrAllEmpty => lens <> [] /\ (forall q, q < length lens -> nth q lens 0%Z = 0%Z)
    | Picked p =>
        p < length lens /\ (0 < nth p lens 0)%Z /\
        (forall q, q < length lens -> (nth q lens 0 <= nth p lens 0)%Z) /\
        (forall q, q < p -> (nth q lens 0 < nth p lens 0)%Z)
    end.
Proof. exact max_spec_nonneg. Qed.
Print Assumptions C15_max_partial.

(* ... and is refuted without that hypothesis: when Len() goes negative, MaxLen hands out a
   queue with nothing pending instead of reporting ErrAllItemsEmpty. *)
Theorem C15_max_refuted_negative_len :
  get_max (mkMgr 2 0) [-1; -1]%Z = Picked 0 /\ in_range [-1; -1]%Z.
Proof. exact max_negative_picked. Qed.
Print Assumptions C15_max_refuted_negative_len.

(* MinLen: the first position holding the smallest strictly positive length; lengths <= 0
   count as empty; no range condition. *)
Theorem C15_min_picks_first_shortest_nonempty :
  forall m lens,
    mcount m = length lens ->
    match get_min m lens with
    | ErrNoItems => lens = []
    | ErrAllEmpty => lens <> [] /\ (forall q, q < length lens -> (nth q lens 0 <= 0)%Z)
    | Picked p =>
        p < length lens /\ (0 < nth p lens 0)%Z /\
        (forall q, q < length lens -> (0 < nth q lens 0)%Z -> (nth p lens 0 <= nth q lens 0)%Z) /\
        (forall q, q < p -> (0 < nth q lens 0)%Z -> (nth p lens 0 < nth q lens 0)%Z)
    end.
Proof. exact min_spec. Qed.
Print Assumptions C15_min_picks_first_shortest_nonempty.

Example C15_max_min_example :
  get_max (mkMgr 5 0) [3; 7; 0; 7; 1]%Z = Picked 1 /\
  get_min (mkMgr 5 0) [3; 7; 0; 1; 1]%Z = Picked 3 /\
  get_max (mkMgr 2 0) [0; 0]%Z = ErrAllEmpty /\
  get_min (mkMgr 2 0) [0; -4]%Z = ErrAllEmpty /\
  get_max new_mgr [] = ErrNoItems /\ get_min new_mgr [] = ErrNoItems /\
  mlen [3; 7; 0; 7; 1]%Z = 18%Z /\
  in_range [3; 7; 0; 7; 1]%Z.
Proof. exact max_min_example. Qed.

(* Manager.Len is the (int64-wrapped) sum *)
Theorem C15_len_is_sum : forall lens, mlen lens = wrap_int (zsum lens).
Proof. exact mlen_spec. Qed.
Print Assumptions C15_len_is_sum.

(* UnregisterItem (exported by the helper, never called by the library): position i receives
   the last item ... *)
Theorem C15_unregister_swaps_last_in :
  forall (A : Type) (l : list A) i j d,
    i < length l -> j < length l - 1 ->
    nth j (swap_remove l i) d = if j =? i then nth (length l - 1) l d else nth j l d.
Proof. exact @swap_remove_nth. Qed.
Print Assumptions C15_unregister_swaps_last_in.

(* ... so "binding order" does not survive an unbind, and the cursor reset lets a queue be
   served twice in a row past a non-empty one: the no-unbind hypothesis of C15_rr_equal_share
   is needed. *)
Theorem C15_binding_order_refuted_after_unregister : swap_remove [0; 1; 2; 3] 0 = [3; 1; 2].
Proof. exact unregister_reorders. Qed.

Theorem C15_equal_share_refuted_across_unregister :
  let lens := [1; 1; 1]%Z in
  let m0 := mkMgr 3 0 in
  let '(s1, m1) := get_rr m0 lens in
  let m2 := unregister m1 1 in
  let ids := swap_remove [0; 1; 2] 1 in
  let '(s2, _) := get_rr m2 [1; 1]%Z in
  s1 = Picked 0 /\ ids = [0; 2] /\ s2 = Picked 0 /\ nth 0 ids 9 = 0.
Proof. exact rr_unregister_resets_turn. Qed.
