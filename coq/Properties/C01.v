(* C01 — every accepted job runs exactly once; rejected or cancelled jobs never run.
   Job-level half: "at most once", "only after a successful claim", "never when rejected /
   cancelled / purged". (That an accepted job does run is progress: C03; identity of ID and
   data is checked by the monitors and, for stored jobs, by C12.) Model coq/SliceJob.v. *)
From Coq Require Import List Arith.
From VQ Require Import SliceJob SliceJobProofs SliceWake SliceWakeProofs SlicePool SlicePoolProofs LList LListProofs.
Import ListNotations.

(* The worker function is entered at most once per job, in every schedule, with any number
   of dispatchers, closers and waiters. *)
Theorem C01_at_most_once :
  forall s, Reachable s -> starts s <= 1 /\ exits s <= starts s.
Proof. exact at_most_once. Qed.
Print Assumptions C01_at_most_once.

(* A job that was cancelled, purged or rejected before it started is never invoked. *)
Theorem C01_cancelled_never_runs :
  forall s es s', Reachable s -> cancelledBeforeStart s = true -> jrun s es = Some s' ->
                  starts s' = 0 /\ cancelledBeforeStart s' = true.
Proof. exact cancelled_never_runs. Qed.
Print Assumptions C01_cancelled_never_runs.

(* "Every accepted job runs": the submission that makes work dispatchable is announced to the
   event loop (coq/SliceWake.v) — whenever the loop is parked while the worker is running, has a
   free slot and something is pending, a signal is buffered or some thread still owes one; and at
   rest nothing dispatchable is left. (The same statements as C03, which decides progress.) *)
Theorem C01_accepted_job_is_announced :
  forall s, KReachable s -> kparked s = true -> guard s = true -> ksig s = true \/ kowed s >= 1.
Proof. exact no_lost_wakeup. Qed.
Print Assumptions C01_accepted_job_is_announced.

Theorem C01_nothing_dispatchable_left_at_rest :
  forall s, KReachable s -> at_rest s = true -> guard s = false.
Proof. exact at_rest_nothing_dispatchable. Qed.
Print Assumptions C01_nothing_dispatchable_left_at_rest.

(* A dispatched job has a goroutine (coq/SlicePool.v): only the thread that took a node out of
   the idle list — PopBack, or a Remove that returned true — sends to it, so a job payload in a
   node's channel always finds a live server with no stop payload ahead of it, and that server
   can receive it. *)
Theorem C01_dispatched_job_finds_a_live_goroutine :
  forall s, PReachable s -> jobsq s = 1 -> alive s >= 1 /\ stopsq s = 0.
Proof. exact job_finds_a_server. Qed.
Print Assumptions C01_dispatched_job_finds_a_live_goroutine.

(* The idle list (coq/LList.v, tied to internal/linkedlist by the differential test): a node the
   dispatcher has popped is not in the list, so the Remove of the idle-worker reaper or of Stop —
   working from an older snapshot — answers false for it and leaves it alone; Remove answers true
   exactly for members and takes them out. *)
Theorem C01_remove_is_the_ownership_transfer :
  forall l x l', LLReachable l -> ll_popback l = (Some x, l') -> fst (ll_remove l' x) = false.
Proof. exact remove_after_popback_false. Qed.
Print Assumptions C01_remove_is_the_ownership_transfer.

(* The worker function is entered only on a job that a dispatcher claimed after Dequeue handed
   it out: [EWfEnter] is enabled only in [LClaimed], which only a successful claim by the
   thread holding the dequeued job produces. A rejected submission never reaches a queue. *)
Theorem C01_only_claimed_jobs_run :
  forall s g s', jstep s (EWfEnter g) = Some s' -> where_ s = LClaimed.
Proof. exact only_claimed_jobs_run. Qed.
Print Assumptions C01_only_claimed_jobs_run.

Theorem C01_rejected_never_queued :
  forall s t es s', where_ s = LRejected t -> jrun s es = Some s' -> where_ s' = LRejected t.
Proof. exact rejected_never_queued. Qed.
Print Assumptions C01_rejected_never_queued.

Example C01_example :
  match trun [RCore (ENew 0 true); RCore (EStoreQueued 0); RCore (EEnq 0 true); RCore (EDeq 1);
              RLoadClaim 1 1; RCasClaim 1 true; RCore (EWfEnter 2); RCore (EWfExit 2);
              RCore (EStoreFinished 2); RLoadCloseable 2 3; RLoadClose 2 3; RCasClose 2 true; RCore (ESignal 2)] with
  | inr s => starts s = 1 /\ exits s = 1 /\ closes s = 1
  | inl _ => False
  end.
Proof. vm_compute. repeat split. Qed.
