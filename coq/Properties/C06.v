(* C06 — worker-level barriers are exact: WaitUntilFinished / PauseAndWait / Stop / WaitAndStop.
   Statements only; model coq/SliceDisp.v: one arbitrary job j followed exactly against the
   worker's status word, curProcessing and the length of j's queue; everything else through
   counters. [DReachable s] = some event list (any number of jobs, dispatchers, barrier
   callers, any interleaving) leads to s. The "returns once its condition holds" half (no
   missed wake-up) is stated on coq/SliceBarrier.v (who is on the hook to broadcast when a step
   ends the callers' wait); that the owner gets to act is the progress property C03 and is
   observed by the exact-quiescence monitor. *)
From Coq Require Import List Arith Bool.
From VQ Require Import SliceDisp SliceDispProofs SliceBar SliceBarProofs SliceBarrier SliceBarrierProofs Lockset LocksetProofs.
Import ListNotations.

(* An accepted job is always visible to the barrier: in its queue (counted by that queue's
   Len) or, from before it leaves the queue until after its worker function returned, in
   curProcessing. *)
Theorem C06_queued_job_is_counted : forall s, DReachable s -> jl s = JInQ -> qj s >= 1.
Proof. exact queued_job_is_counted. Qed.
Print Assumptions C06_queued_job_is_counted.

Theorem C06_covered_job_is_counted : forall s, DReachable s -> covered (jl s) <= cur s.
Proof. exact covered_job_is_counted. Qed.
Print Assumptions C06_covered_job_is_counted.

(* WaitUntilFinished on a running worker evaluates  Len() > 0 || curProcessing > 0  (every bound
   queue's length, then curProcessing) and returns when both are 0. If j was accepted when the
   call started (s1), the read of j's queue returned 0 (s2) and the later read of curProcessing
   returned 0 (s3), then j has finished: it ran and was released, or it was cancelled / purged
   and never runs. *)
Theorem C06_wait_until_finished_exact :
  forall s1 es1 s2 es2 s3,
    DReachable s1 -> jl s1 <> JNotAcc ->
    drun s1 es1 = Some s2 -> qj s2 = 0 ->
    drun s2 es2 = Some s3 -> cur s3 = 0 ->
    finished (jl s3) = true.
Proof. exact wuf_exact. Qed.
Print Assumptions C06_wait_until_finished_exact.

(* PauseAndWait / Stop / WaitAndStop return after reading curProcessing = 0: in that state no
   worker function is executing, for any job. *)
Theorem C06_pause_and_wait_exact :
  forall s, DReachable s -> cur s = 0 -> jl s <> JRun /\ jl s <> JDisp /\ jl s <> JFin.
Proof. exact barrier_exact. Qed.
Print Assumptions C06_pause_and_wait_exact.

(* No missed wake-up. A caller sleeps while  running: Len > 0 || curProcessing > 0;  paused /
   stopped: curProcessing > 0  holds. Once a step has turned that condition false and nobody has
   broadcast since ([bstale]), somebody is on the hook: a thread holds a new obligation (it goes
   on to call releaseWaiters, to broadcast, or to notify the event loop, whose pass ends in
   releaseWaiters), or the buffered signal carries one to the event loop. For every event list:
   any number of completions, hand-backs, purges, Pause / Resume / Stop / Restart, notifies. *)
Theorem C06_somebody_is_on_the_hook :
  forall s, BReachable s -> bstale s = true ->
    has_new (bobs s) = true \/ (bsig s = true /\ bsignew s = true).
Proof. exact stale_has_owner. Qed.
Print Assumptions C06_somebody_is_on_the_hook.

(* The step that ends the wait leaves its own thread holding an obligation (the model refuses a
   step that makes the condition false and walks away — as Stop's status store did before the
   repair 8cf7f56, or a completion under status stopped). *)
Theorem C06_step_that_ends_the_wait_takes_the_obligation :
  forall s t st' cur' len' k s',
    wbstep s (WInput t st' cur' len' k) = Some s' -> wcond s = true -> wcond s' = false ->
    holds_obl t (bobs s') = true /\ bstale s' = true.
Proof. exact falsifying_step_takes_obligation. Qed.
Print Assumptions C06_step_that_ends_the_wait_takes_the_obligation.

(* The calls themselves (coq/SliceBar.v): PauseAndWait / Stop / WaitAndStop return nil only to a
   caller that, inside the call, read curProcessing = 0 on a paused / stopped worker (or read
   Stopped while an earlier caller's hold was in force) — each of several concurrent callers on
   its own. At that point, and for as long as nobody stores Running / Initiated, no worker
   function is executing. *)
Theorem C06_barrier_return_needs_establishment :
  forall s t s', xstep s (XRet t) = Some s' -> In t (est s) /\ s' = s.
Proof. exact return_needs_establishment. Qed.
Print Assumptions C06_barrier_return_needs_establishment.

Theorem C06_established_caller_sees_nothing_running :
  forall s t, XReachable s -> In t (fresh s) ->
    hold (xd s) = true /\ jl (xd s) <> JRun /\ dstep (xd s) DWfEnterJ = None /\ dstep (xd s) DDeqJ = None /\
    okr (xd s) = 0 /\ oth (xd s) = 0.
Proof. exact fresh_caller_holds. Qed.
Print Assumptions C06_established_caller_sees_nothing_running.

(* No goroutine waits for itself through the worker's reader/writer lock (coq/Lockset.v): the
   read lock is never taken by a thread that already holds it, so a writer (a barrier caller
   about to evaluate its condition, Stop / Restart replacing the channels) arriving in between
   cannot wedge the two against each other. Checked on every replayed LOCK block. *)
Theorem C06_no_recursive_read_lock :
  forall s t s', lkstep s (LRLock t) = Some s' -> is_reader s t = false /\ writer s = None.
Proof. exact no_recursive_read_lock. Qed.
Print Assumptions C06_no_recursive_read_lock.

(* non-vacuity: two Stop callers; the second finds Stopped under the first one's hold. A caller
   that returns on seeing Stopped while a job is still in flight is outside the model. *)
Example C06_example_calls :
  match xrun_from 1 [XD DAcceptJ; XD (DReserve 1 1); XD (DRecheck 1); XD DDeqJ; XD (DClaimJ true); XD DWfEnterJ;
                     XCall 7; XD (DStatusStore 2); XCurLoad 7 1; XCall 8; XStLoad 8 2; XCurLoad 8 1;
                     XD DWfExitJ; XD DReleaseJ; XCurLoad 7 0; XD (DStatusStore 3); XRet 7; XCurLoad 8 0; XRet 8;
                     XCall 9; XStLoad 9 3; XRet 9] with
  | inr s => hold (xd s) = true /\ est s = [9; 8; 7]
  | inl _ => False
  end /\
  match xrun_from 1 [XD DAcceptJ; XD (DReserve 1 1); XD (DRecheck 1); XD DDeqJ; XD (DClaimJ true); XD DWfEnterJ;
                     XCall 7; XD (DStatusStore 3); XCurLoad 7 1; XCall 8; XStLoad 8 3; XRet 8] with
  | inr _ => False
  | inl i => i = 11
  end.
Proof. vm_compute. repeat split. Qed.

(* With nobody left holding anything and no signal buffered, no caller has been left behind. *)
Theorem C06_nobody_left_behind_at_rest :
  forall s, BReachable s -> b_at_rest s = true -> bstale s = false.
Proof. exact at_rest_not_stale. Qed.
Print Assumptions C06_nobody_left_behind_at_rest.

Example C06_example_wakeup :
  match wbrun (wbinit 0) [WInput 0 1 0 0 ONotify; WNotify 0; WRecv 1; WInput 0 1 0 1 ONotify; WInput 1 1 1 1 ONone;
                          WNotify 0; WInput 1 1 1 0 ONone; WInput 2 1 0 0 OEval; WBroadcast 2; WRWNoBcast 1] with
  | Some s => bstale s = false /\ bobs s = [] /\ wcond s = false
  | None => False
  end
  /\ wbrun (wbinit 0) [WInput 0 1 0 0 ONotify; WNotify 0; WRecv 1; WInput 0 1 1 0 ONone; WInput 2 1 0 0 ONone] = None.
Proof. vm_compute. repeat split. Qed.

(* non-vacuity: j is accepted, reserved for, dequeued, run, released; a barrier read in between sees it *)
Example C06_example :
  match drun_from 1 [DAcceptJ; DCurLoad 0; DReserve 1 2; DRecheck 1; DLenReadQ 1; DDeqJ; DLenReadQ 0; DCurLoad 1;
                     DClaimJ true; DWfEnterJ; DWfExitJ; DCurLoad 1; DReleaseJ; DCurLoad 0] with
  | inr s => finished (jl s) = true /\ cur s = 0 /\ qj s = 0
  | inl _ => False
  end.
Proof. vm_compute. repeat split. Qed.
