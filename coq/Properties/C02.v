(* C02 — in-flight worker invocations never exceed the configured concurrency.
   Statements only; model coq/SliceDisp.v (see C06.v). [othrun] = other jobs whose worker
   function is running; a reservation [DReserve n c] carries the value n that
   curProcessing.Add(1) returned and the concurrency limit c the same thread loads right after
   (worker.go processNextJob: a reservation with n > c is handed back). *)
From Coq Require Import List Arith.
From VQ Require Import SliceDisp SliceDispProofs.
Import ListNotations.

(* The worker functions in progress — this job's and everybody else's — never exceed
   curProcessing ... *)
Theorem C02_running_le_curProcessing :
  forall s, DReachable s -> othrun s + (match jl s with JRun => 1 | _ => 0 end) <= cur s.
Proof. exact running_le_cur. Qed.
Print Assumptions C02_running_le_curProcessing.

(* ... curProcessing grows only when the event loop reserves a slot ... *)
Theorem C02_cur_grows_only_at_reserve :
  forall s e s', dstep s e = Some s' -> cur s' <= cur s \/ exists n c, e = DReserve n c.
Proof. exact cur_only_grows_at_reserve. Qed.
Print Assumptions C02_cur_grows_only_at_reserve.

(* ... and a reservation goes on only if the value its own Add returned — curProcessing with
   itself counted — is within the limit it then loads: at that instant everything in flight,
   itself included, is within that limit. No assumption that there is one event loop: any number
   of threads may reserve at any time (a stale event loop racing its successor after a Restart,
   a TunePool lowering the limit in between). After TunePool(n) has returned every later
   reservation loads n. *)
Theorem C02_reserve_within_limit :
  forall s n c s', dstep s (DReserve n c) = Some s' -> n <= c -> cur s' <= c /\ raw s' = S (raw s).
Proof. exact reserve_within_limit. Qed.
Print Assumptions C02_reserve_within_limit.

(* A reservation above the limit can only be handed back: it is never re-checked and never
   dequeues. *)
Theorem C02_reserve_over_limit_is_returned :
  forall s n c s', dstep s (DReserve n c) = Some s' -> c < n ->
    raw s' = raw s /\ okr s' = okr s /\ oth s' = oth s /\ jl s' = jl s /\ doomed s' = S (doomed s).
Proof. exact reserve_over_limit_is_returned. Qed.
Print Assumptions C02_reserve_over_limit_is_returned.

Theorem C02_dequeue_needs_passed_reservation :
  forall s e s', dstep s e = Some s' -> (e = DDeqJ \/ e = DDeqOtherSameQ \/ e = DDeqOtherQ) -> okr s = S (okr s').
Proof. exact dequeue_needs_passed_reservation. Qed.
Print Assumptions C02_dequeue_needs_passed_reservation.

Example C02_example :
  match drun_from 1 [DAcceptJ; DEnqOther; DCurLoad 0; DReserve 1 2; DRecheck 1; DDeqJ; DClaimJ true; DCurLoad 1;
                     DReserve 2 2; DRecheck 1; DDeqOtherSameQ; DWfEnterJ; DWfEnterOther; DCurLoad 2;
                     DReserve 3 2; DUnresDoomed; DCurLoad 2] with
  | inr s => cur s = 2 /\ othrun s = 1 /\ jl s = JRun
  | inl _ => False
  end.
Proof. vm_compute. repeat split. Qed.
