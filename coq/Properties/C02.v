(* C02 — in-flight worker invocations never exceed the configured concurrency.
   Statements only; model coq/SliceDisp.v (see C06.v). [othrun] = other jobs whose worker
   function is running; a reservation [DReserve a c] carries what the event loop's guard
   loaded from curProcessing (a) and from the concurrency limit (c) immediately before. *)
From Coq Require Import List Arith.
From VQ Require Import SliceDisp SliceDispProofs.
Import ListNotations.

(* The worker functions in progress — this job's and everybody else's — never exceed
   curProcessing ... *)
Theorem C02_running_le_curProcessing :
  forall s, DReachable s -> othrun s + (match jl s with JRun => 1 | _ => 0 end) <= cur s.
Proof. exact running_le_cur. Qed.
Print Assumptions C02_running_le_curProcessing.

(* ... curProcessing grows only when the event loop reserves a slot ... *)
Theorem C02_cur_grows_only_at_reserve :
  forall s e s', dstep s e = Some s' -> cur s' <= cur s \/ exists a c, e = DReserve a c.
Proof. exact cur_only_grows_at_reserve. Qed.
Print Assumptions C02_cur_grows_only_at_reserve.

(* ... and a reservation leaves it at most at the limit its guard read (the limit in effect
   when the slot was taken: after TunePool(n) has returned, every later reservation reads n).
   The step's precondition "nobody else incremented since the guard loaded curProcessing"
   is the single-event-loop fact; it is checked on every replayed trace (a second dispatcher
   racing the first makes the trace fall outside the model). *)
Theorem C02_reserve_within_limit :
  forall s a c s', dstep s (DReserve a c) = Some s' -> cur s' <= c.
Proof. exact reserve_within_limit. Qed.
Print Assumptions C02_reserve_within_limit.

Example C02_example :
  match drun_from 1 [DAcceptJ; DEnqOther; DCurLoad 0; DReserve 0 2; DRecheck 1; DDeqJ; DClaimJ true; DCurLoad 1;
                     DReserve 1 2; DRecheck 1; DDeqOtherSameQ; DWfEnterJ; DWfEnterOther; DCurLoad 2] with
  | inr s => cur s = 2 /\ othrun s = 1 /\ jl s = JRun
  | inl _ => False
  end.
Proof. vm_compute. repeat split. Qed.
