(* C11 — acknowledge only after processing, at most once: no accepted job lost in a crash.
   Statements only; model coq/SliceJob.v extended with the acknowledgement step of job.Close
   (job.ack -> IAcknowledgeable.Acknowledge). The adapter itself is a specification object
   (go/harness/root/zz_verif_adapter_test.go): an item it delivered stays in its unacknowledged
   set until Acknowledge succeeds for the id issued with that delivery. A crash point is any
   reachable state. *)
From Coq Require Import List Arith.
From VQ Require Import SliceJob SliceJobProofs.
Import ListNotations.

(* In every reachable state (= at every point where the process may die) a delivered item has
   been acknowledged at most once, and if it has been acknowledged its worker function has
   returned: whatever is not completely processed is still held by the adapter. *)
Theorem C11_ack_at_most_once_and_only_after_processing :
  forall s, Reachable s -> acks s <= 1 /\ (acks s = 1 -> exits s = 1).
Proof. exact ack_sound. Qed.
Print Assumptions C11_ack_at_most_once_and_only_after_processing.

(* The acknowledgement step is enabled only for the goroutine that ran the job, after it
   stored Finished, and only if no acknowledgement succeeded before. *)
Theorem C11_ack_enabled_only_when_finished :
  forall s g ok s', Reachable s -> jstep s (EAck g ok) = Some s' ->
                    exits s = 1 /\ acks s = 0 /\ st s = sFinished.
Proof. exact ack_enabled_only_when_finished. Qed.
Print Assumptions C11_ack_enabled_only_when_finished.

(* An item is executed at most once per delivery (the recovered items of a crashed process are
   new deliveries). *)
Theorem C11_at_most_once_per_delivery :
  forall s, Reachable s -> starts s <= 1 /\ exits s <= starts s.
Proof. exact at_most_once. Qed.
Print Assumptions C11_at_most_once_per_delivery.

(* non-vacuity: a stored entry is parsed, claimed, run, acknowledged, closed (persist family) *)
Example C11_example :
  match trun [RCore (ENew 1 true); RCore (EStoreParse 1 0); RLoadClaim 1 0; RCasClaim 1 true;
              RCore (EWfEnter 2); RCore (EWfExit 2); RCore (EStoreFinished 2); RLoadCloseable 2 3;
              RLoadPlain 2 3; RCore (EAck 2 true); RLoadClose 2 3; RCasClose 2 true; RCore (ESignal 2)] with
  | inr s => acks s = 1 /\ exits s = 1 /\ st s = sClosed /\ parsed s = true
  | inl _ => False
  end.
Proof. vm_compute. repeat split. Qed.
