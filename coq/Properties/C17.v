(* C17 — pending / processing counts and metrics stay in bounds and are exact at rest.
   Statements only. The counts are read from: the FIFO queue's length counter (Fifo.v), the
   heap's slice length (Heap.v), the manager's sum over bound queues (Manager.v), the batch
   counter (SliceBatch.v). Metrics are plain atomic counters incremented once per event
   (checked by the monitors: Submitted = accepted, Completed = Successful + Failed = finished). *)
From Coq Require Import List NArith ZArith Arith.
From VQ Require Import Fifo FifoProofs Heap HeapProofs Manager ManagerProofs SliceBatch SliceBatchProofs.
Import ListNotations.

(* A FIFO queue's Len() is the exact number of pending elements in every state — in
   particular it is never negative and never above the number of accepted elements. The
   counter is one atomic word written under the queue lock, so a concurrent reader sees the
   length of some state the queue was in. *)
Theorem C17_fifo_len_exact :
  forall (A : Type) (q : queue A), queue_ok q -> qlen q = Z.of_nat (length (qabs q)).
Proof. exact @qlen_exact. Qed.
Print Assumptions C17_fifo_len_exact.

Theorem C17_fifo_len_reachable :
  forall (A : Type) (init mx : N) (ops : list (@op A)),
    (0 < init)%N -> (0 < mx)%N -> Forall op_ok ops ->
    let q := fold_left apply_op ops (new_queue init mx) in
    queue_ok q /\ (qclosed q, qabs q) = fold_left spec_op ops (false, []).
Proof. exact @run_refines. Qed.
Print Assumptions C17_fifo_len_reachable.

(* The worker's NumPending is the sum over its bound queues (each registered once). *)
Theorem C17_worker_pending_is_sum : forall lens, mlen lens = wrap_int (zsum lens).
Proof. exact mlen_spec. Qed.
Print Assumptions C17_worker_pending_is_sum.

(* A batch's NumPending is the number of its items that have not finished. *)
Theorem C17_batch_pending :
  forall s, BReachable s -> (bcount s = bn s - bdones s /\ bdones s <= bn s)%nat.
Proof. exact count_is_outstanding. Qed.
Print Assumptions C17_batch_pending.
