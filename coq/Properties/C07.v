(* C07 — each handle gets its own job's outcome; panics are contained.
   Statements only; model coq/SliceResp.v: the per-job response channel (capacity 1) with its
   stored last value, and the three worker wrappers of main.go as a pure function of the worker
   function's outcome. That the worker function is invoked once, with the submitted ID and
   data, is C01 / C12. *)
From Coq Require Import List Arith.
From VQ Require Import SliceResp SliceRespProofs.
Import ListNotations.

(* Whatever Result() / Err() returns — received from the channel or read back after the close —
   is the value the job's own worker function produced (the zero value if it produced none):
   identical on every call, for any number of concurrent callers. *)
Theorem C07_response_is_own_outcome :
  forall s ok v s', RReachable s -> rstep s (RRecv ok v) = Some s' ->
    match rsent s with Some x => v = x | None => v = 0 end.
Proof. exact response_is_own_outcome. Qed.
Print Assumptions C07_response_is_own_outcome.

Theorem C07_response_never_early :
  forall s ok v s', rstep s (RRecv ok v) = Some s' -> rch s <> [] \/ rclosed s = true.
Proof. exact response_waits. Qed.
Print Assumptions C07_response_never_early.

Theorem C07_response_closed_once : forall s, RReachable s -> rcloses s <= 1.
Proof. exact response_closed_once. Qed.
Print Assumptions C07_response_closed_once.

(* A panic inside the worker function becomes that job's error, is counted as failed and
   offered on the error channel, for every worker kind. *)
Theorem C07_panic_is_contained :
  forall k m, failed (deliver k (OPanic m)) = true /\ offers_error (deliver k (OPanic m)) = true /\
              (k <> KPlain -> sends (deliver k (OPanic m)) = Some (m, true)).
Proof. exact panic_is_contained. Qed.
Print Assumptions C07_panic_is_contained.

Theorem C07_value_is_delivered :
  forall v, sends (deliver KResult (OValue v)) = Some (v, false) /\ failed (deliver KResult (OValue v)) = false.
Proof. exact value_is_delivered. Qed.
Print Assumptions C07_value_is_delivered.

Theorem C07_error_is_delivered :
  forall k e, k <> KPlain -> sends (deliver k (OError e)) = Some (e, true) /\ failed (deliver k (OError e)) = true.
Proof. exact error_is_delivered. Qed.
Print Assumptions C07_error_is_delivered.

(* The stored value is written before the send (hence before the close): a caller that finds the
   channel closed reads a value that is already in place. A store made later — by whoever took
   the value off the channel, say — is not a step of the model. *)
Theorem C07_value_stored_before_it_is_sent :
  forall s v s', rstep s (RSend v) = Some s' -> rstored s = true.
Proof. exact send_needs_store. Qed.
Print Assumptions C07_value_stored_before_it_is_sent.

Theorem C07_no_store_after_the_send :
  forall s s', RReachable s -> rsent s <> None -> rstep s RStore = Some s' -> False.
Proof. exact no_store_after_send. Qed.
Print Assumptions C07_no_store_after_the_send.

Example C07_example_late_store_rejected :
  rrun rinit [RSend 7] = None /\ rrun rinit [RStore; RSend 7; RRecv true 7; RStore] = None.
Proof. vm_compute. split; reflexivity. Qed.

Example C07_example :
  match rrun_idx rinit [RStore; RSend 42; RRecv true 42; RClose; RRecv false 42; RLoad; RRecv false 42; RLoad] 0 with
  | inr s => rsent s = Some 42 /\ rcloses s = 1
  | inl _ => False
  end.
Proof. vm_compute. repeat split. Qed.
