(* C03 — accepted jobs always make progress: no lost wake-up, stuck job or deadlock.
   Statements only; model coq/SliceWake.v: the event loop's wake-up protocol (signal channel of
   capacity 1, non-blocking notify, the guard  running && curProcessing < concurrency &&
   pending > 0). [KReachable s] = some event list leads to s. "Eventually" is rendered as "at
   rest" (nothing can move): the scheduler's exact quiescence detection decides, on every
   explored execution, that the system does come to rest and that no library goroutine is
   parked where it should not be; that worker functions return is the property's own
   hypothesis. *)
From Coq Require Import List Arith.
From VQ Require Import SliceWake SliceWakeProofs SliceBatch SliceBatchProofs Lockset LocksetProofs SlicePool SlicePoolProofs LList LListProofs.
Import ListNotations.

(* No lost wake-up: whenever the event loop is parked while its guard is true, a signal is
   buffered or some thread is about to send one. *)
Theorem C03_no_lost_wakeup :
  forall s, KReachable s -> kparked s = true -> guard s = true -> ksig s = true \/ kowed s >= 1.
Proof. exact no_lost_wakeup. Qed.
Print Assumptions C03_no_lost_wakeup.

(* At rest nothing is dispatchable: the worker is not running, or curProcessing has reached
   the limit, or nothing is pending — i.e. min(pending, limit) jobs are in flight. *)
Theorem C03_at_rest_nothing_dispatchable :
  forall s, KReachable s -> at_rest s = true -> guard s = false.
Proof. exact at_rest_nothing_dispatchable. Qed.
Print Assumptions C03_at_rest_nothing_dispatchable.

(* A buffered signal is never lost: it stays until the event loop takes it (or the channel is
   closed with the guard false). Notifying never blocks: it is a non-blocking send (the model's
   notify steps are always enabled when owed), whether or not anybody reads the error channel. *)
Theorem C03_signal_persists :
  forall s e s', ksig s = true -> kstep s e = Some s' ->
    ksig s' = true \/ e = KRecv \/ e = KClose \/ e = KOpen.
Proof. exact signal_persists. Qed.
Print Assumptions C03_signal_persists.

(* A pool goroutine is never stuck sending an item's outcome: the stream of a batch has one slot
   per item (coq/SliceBatch.v), so the send of an item that has not sent yet finds a free slot
   whether or not anybody reads the stream. *)
Theorem C03_batch_send_never_blocks : forall s, BReachable s -> bsends s < bn s -> chlen s < bcap s.
Proof. exact send_never_blocks. Qed.
Print Assumptions C03_batch_send_never_blocks.

(* No goroutine waits for itself through the worker's reader/writer lock (coq/Lockset.v): the
   read lock is never taken by a thread that already holds it, so a writer (a barrier caller
   about to evaluate its condition, Stop / Restart replacing the channels) arriving in between
   cannot wedge the two against each other. Checked on every replayed LOCK block. *)
Theorem C03_no_recursive_read_lock :
  forall s t s', lkstep s (LRLock t) = Some s' -> is_reader s t = false /\ writer s = None.
Proof. exact no_recursive_read_lock. Qed.
Print Assumptions C03_no_recursive_read_lock.

(* No job is left Processing without a goroutine (coq/SlicePool.v): a job payload in a pool
   node's channel always finds a live server with no stop payload ahead of it, and the server's
   receive is enabled. *)
Theorem C03_dispatched_job_is_received :
  forall s g, PReachable s -> jobsq s = 1 -> exists s', pstep s (NRecvJob g) = Some s'.
Proof. exact job_is_receivable. Qed.
Print Assumptions C03_dispatched_job_is_received.

(* The idle list (coq/LList.v, tied to internal/linkedlist by the differential test): a node the
   dispatcher has popped is not in the list, so the Remove of the idle-worker reaper or of Stop —
   working from an older snapshot — answers false for it and leaves it alone; Remove answers true
   exactly for members and takes them out. *)
Theorem C03_popped_node_is_not_removed :
  forall l x l', LLReachable l -> ll_popback l = (Some x, l') -> fst (ll_remove l' x) = false.
Proof. exact remove_after_popback_false. Qed.
Print Assumptions C03_popped_node_is_not_removed.

(* non-vacuity: a completion makes room while the loop is parked; its notify wakes the loop *)
Example C03_example :
  match krun_from 1 [KStatus 1 true; KNotify; KPend AOther true 1 true; KNotify; KRecv; KCur ALoop true false;
                     KPend ALoop false 1 false; KPend AOther true 1 true; KNotify; KPark] with
  | inr s => guard s = false /\ kparked s = true /\ ksig s = true /\ kpend s = 1 /\ kcur s = 1
  | inl _ => False
  end /\
  match krun_from 1 [KStatus 1 true; KNotify; KPend AOther true 1 true; KNotify; KRecv; KCur ALoop true false;
                     KPend ALoop false 1 false; KPend AOther true 1 true; KNotify; KPark; KCur AOther false false] with
  | inr _ => False   (* a completion that frees a slot without notifying is outside the model *)
  | inl i => i = 10
  end.
Proof. vm_compute. repeat split. Qed.
