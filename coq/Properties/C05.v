(* C05 — job handles complete exactly when the work has finished (job level; the batch
   handle is C08's model, the "they do return" half is progress, C03).
   Statements only; model coq/SliceJob.v (see C16.v for the conventions). *)
From Coq Require Import List Arith.
From VQ Require Import SliceJob SliceJobProofs SliceWake SliceWakeProofs.
Import ListNotations.

(* Wait returns (for any caller, any number of times) only when the job is Closed, and a job
   is Closed only after its worker function returned or without ever having started
   (cancelled, purged or rejected): never early. *)
Theorem C05_wait_never_early :
  forall s t s', Reachable s -> jstep s (EWait t) = Some s' ->
                 st s = sClosed /\ (exits s = 1 \/ starts s = 0).
Proof. exact wait_sound. Qed.
Print Assumptions C05_wait_never_early.

(* Once it may return it may return for ever: the release is never undone (Closed is final
   and the wait group is released exactly once, C10_closed_once). *)
Theorem C05_wait_stays_enabled :
  forall s e s' t, Reachable s -> jstep s (EWait t) = Some s -> jstep s e = Some s' ->
                   forall t', jstep s' (EWait t') = Some s'.
Proof. exact wait_stays_enabled. Qed.
Print Assumptions C05_wait_stays_enabled.

(* "They do return": a queued job's handle completes because the job is dispatched — whenever
   the event loop is parked while the worker is running, has a free slot and something is
   pending, a signal is buffered or some thread (a submitter, or the goroutine that has just
   released a slot) still owes one (coq/SliceWake.v; the statement of C03). *)
Theorem C05_freed_slot_is_announced :
  forall s, KReachable s -> kparked s = true -> guard s = true -> ksig s = true \/ kowed s >= 1.
Proof. exact no_lost_wakeup. Qed.
Print Assumptions C05_freed_slot_is_announced.
