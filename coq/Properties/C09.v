(* C09 — a paused or stopped worker starts nothing; pending jobs survive and resume.
   Statements only; model coq/SliceDisp.v (see C06.v). [hold s] is the ghost flag "a barrier
   caller read curProcessing = 0 while the status was Paused / Stopped, and no Running /
   Initiated has been stored since" — i.e. PauseAndWait / Stop / WaitAndStop has returned and
   neither Resume nor Restart has been called. *)
From Coq Require Import List Arith.
From VQ Require Import SliceDisp SliceDispProofs SliceBar SliceBarProofs SliceWake SliceWakeProofs Fifo FifoProofs.
Import ListNotations.

(* While the hold lasts no worker function is executing, none can start, no dispatcher can
   dequeue or claim a job, and nobody holds a reservation that passed its status re-check. *)
Theorem C09_hold_blocks_every_start :
  forall s, DReachable s -> hold s = true ->
    jl s <> JRun /\ dstep s DWfEnterJ = None /\ dstep s DDeqJ = None /\ dstep s (DClaimJ true) = None /\
    okr s = 0 /\ oth s = 0.
Proof. exact hold_blocks_everything. Qed.
Print Assumptions C09_hold_blocks_every_start.

(* The hold ends only when Running or Initiated is stored into the status word (Resume,
   Restart, start). *)
Theorem C09_hold_lasts_until_resume :
  forall s e s', hold s = true -> dstep s e = Some s' ->
    hold s' = true \/ exists v, e = DStatusStore v /\ halted v = false.
Proof. exact hold_persists. Qed.
Print Assumptions C09_hold_lasts_until_resume.

(* After a plain Pause only jobs that were already past the status re-check can still start:
   a reservation re-checked after the Pause store is doomed (returned without dequeuing). *)
Theorem C09_recheck_after_pause_is_doomed :
  forall s v s', dstep s (DRecheck v) = Some s' -> halted (wstat s) = true -> okr s' = okr s /\ doomed s' = S (doomed s).
Proof.
  exact recheck_after_pause_doomed.
Qed.
Print Assumptions C09_recheck_after_pause_is_doomed.

(* Pending jobs survive: Pause / Stop do not touch the queues (the steps of a status store
   leave j's place and its queue's length unchanged), and the queue keeps its order (C04). *)
Theorem C09_status_store_keeps_queues :
  forall s v s', dstep s (DStatusStore v) = Some s' -> jl s' = jl s /\ qj s' = qj s /\ cur s' = cur s.
Proof. exact status_store_frame. Qed.
Print Assumptions C09_status_store_keeps_queues.

(* "After PauseAndWait, Stop or WaitAndStop has returned": the return is enabled only for a
   caller that has established (coq/SliceBar.v); from the point where it did until Running /
   Initiated is stored (Resume, Restart, start) or it calls again, the caller is fresh, and
   while a caller is fresh the hold is in force. *)
Theorem C09_return_needs_establishment :
  forall s t s', xstep s (XRet t) = Some s' -> In t (est s) /\ s' = s.
Proof. exact return_needs_establishment. Qed.
Print Assumptions C09_return_needs_establishment.

Theorem C09_establishment_is_a_hold_point :
  forall s t v s', xstep s (XCurLoad t v) = Some s' -> In t (est s') -> ~ In t (est s) ->
    v = 0 /\ halted (wstat (xd s)) = true /\ hold (xd s') = true /\ In t (fresh s').
Proof. exact establishment_is_a_hold_point. Qed.
Print Assumptions C09_establishment_is_a_hold_point.

Theorem C09_fresh_until_resume :
  forall s e s' t, xstep s e = Some s' -> In t (fresh s) ->
    In t (fresh s') \/ (exists d, e = XD d /\ resumes d = true) \/ e = XCall t.
Proof. exact fresh_until_resume. Qed.
Print Assumptions C09_fresh_until_resume.

Theorem C09_fresh_caller_holds :
  forall s t, XReachable s -> In t (fresh s) ->
    hold (xd s) = true /\ jl (xd s) <> JRun /\ dstep (xd s) DWfEnterJ = None /\ dstep (xd s) DDeqJ = None /\
    okr (xd s) = 0 /\ oth (xd s) = 0.
Proof. exact fresh_caller_holds. Qed.
Print Assumptions C09_fresh_caller_holds.

(* "... they are all processed after Resume or Restart": on the wake-up protocol (coq/SliceWake.v)
   a resumed worker with pending jobs below its limit is never left asleep — whenever the event
   loop is parked while its guard (running, a free slot, something pending) is true, a signal is
   buffered or some thread still owes one; this covers jobs accepted while the worker was halted
   and submissions that straddle the Resume. *)
Theorem C09_resumed_worker_is_woken :
  forall s, KReachable s -> kparked s = true -> guard s = true -> ksig s = true \/ kowed s >= 1.
Proof. exact no_lost_wakeup. Qed.
Print Assumptions C09_resumed_worker_is_woken.

(* non-vacuity: a Stop that goes straight from Running to Stopped on an idle worker (it read 0
   in flight while the worker was running) has not established: its return is outside the model *)
Example C09_example_calls :
  match xrun_from 1 [XCall 5; XStLoad 5 1; XCurLoad 5 0; XD (DStatusStore 3); XRet 5] with
  | inr _ => False
  | inl i => i = 4
  end /\
  match xrun_from 1 [XCall 5; XStLoad 5 1; XD (DStatusStore 2); XCurLoad 5 0; XD (DStatusStore 3); XRet 5] with
  | inr s => fresh s = [5] /\ hold (xd s) = true
  | inl _ => False
  end.
Proof. vm_compute. repeat split. Qed.

Example C09_example :
  match drun_from 1 [DAcceptJ; DReserve 1 1; DStatusStore 2; DCurLoad 1; DRecheck 2; DUnresDoomed; DCurLoad 0] with
  | inr s => hold s = true /\ jl s = JInQ /\ qj s = 1
  | inl _ => False
  end.
Proof. vm_compute. repeat split. Qed.
