(* C04 — dispatch order: FIFO per queue; lowest priority number first, ties FIFO.
   This file holds only statements, each closed by [exact] of a lemma proved elsewhere. *)
From Coq Require Import List NArith ZArith.
From Coq Require Import Permutation.
From VQ Require Import Fifo FifoProofs Heap HeapProofs Gen.Params.
Import ListNotations.
Open Scope N_scope.

(* The segmented FIFO (queues.Queue + linkedbuffer.Chunk) refines a plain list for every
   capacity setting, every operation sequence and every length: Enqueue appends (unless
   closed), Dequeue removes the head, Purge empties, Close only sets the flag. *)
Theorem C04_fifo_refines_list :
  forall (A : Type) (init mx : N) (ops : list (@op A)),
    0 < init -> 0 < mx -> Forall op_ok ops ->
    let q := fold_left apply_op ops (new_queue init mx) in
    queue_ok q /\ (qclosed q, qabs q) = fold_left spec_op ops (false, []).
Proof. exact @run_refines. Qed.
Print Assumptions C04_fifo_refines_list.

(* What Dequeue hands out is the oldest pending element. *)
Theorem C04_fifo_dequeue_is_oldest :
  forall (A : Type) (q : queue A), queue_ok q -> fst (dequeue q) = hd_error (qabs q).
Proof. exact @dequeue_returns_head. Qed.
Print Assumptions C04_fifo_dequeue_is_oldest.

(* ... instantiated at the capacities the running code reports (Gen/Params.v is regenerated
   from the code on every check; a zero capacity would break this obligation). *)
Theorem C04_fifo_real_capacities :
  forall (A : Type) (ops : list (@op A)),
    Forall op_ok ops ->
    let q := fold_left apply_op ops (new_queue initial_buffer_capacity chunk_max_capacity) in
    queue_ok q /\ (qclosed q, qabs q) = fold_left spec_op ops (false, []).
Proof.
  intros A ops H. apply run_refines; [reflexivity | reflexivity | exact H].
Qed.
Print Assumptions C04_fifo_real_capacities.

(* non-vacuity: a concrete run crossing two segment boundaries *)
Example C04_fifo_example :
  let ops := [OEnq 1; OEnq 2; OEnq 3; ODeq; OEnq 4; OEnq 5; ODeq; OPurge 2; OEnq 6; OEnq 7; OEnq 8; ODeq] in
  let q := fold_left apply_op ops (new_queue 2 3) in
  qabs q = [7; 8] /\ caps q = [2; 3] /\ Forall op_ok ops.
Proof. vm_compute. repeat split; repeat constructor. Qed.

(* ---------------- priority queue ---------------- *)

(* Dequeue on queues.PriorityQueue (container/heap.Pop over heapQueue.Less) returns an element
   with the numerically smallest priority among the pending ones and, among those, the one
   with the smallest insertion index; the index is the acceptance number (C04_prio_index). *)
Theorem C04_prio_pop_is_least :
  forall (A : Type) (q : pq A),
    pq_ok q ->
    match pop q with
    | (None, q') => items q = [] /\ q' = q
    | (Some v, q') =>
        exists x, v = val x /\ In x (items q) /\
                  (forall y, In y (items q) ->
                     (prio x < prio y)%Z \/ (prio x = prio y /\ (idx x <= idx y)%N)) /\
                  Permutation (x :: items q') (items q) /\ pq_ok q'
    end.
Proof. exact @pop_least. Qed.
Print Assumptions C04_prio_pop_is_least.

(* An accepted Enqueue adds exactly the new element, stamped with the current insertion
   counter, which then grows by one; a closed queue rejects with no effect. *)
Theorem C04_prio_index :
  forall (A : Type) (q : pq A) (p : Z) (v : A),
    pq_ok q ->
    let '(ok, q') := push q p v in
    ok = negb (pclosed q) /\ pq_ok q' /\ pclosed q' = pclosed q /\
    if ok then Permutation (items q') (mkItem p (icount q) v :: items q) /\ icount q' = (icount q + 1)%N
    else q' = q.
Proof. exact @push_spec. Qed.
Print Assumptions C04_prio_index.

(* Every sequence of Enqueue / Dequeue / Purge / Close, of any length and with any
   priorities: the values handed out are those of a list kept sorted by
   (priority, acceptance number) — i.e. lowest priority number first, ties FIFO; the
   acceptance counter survives Purge. *)
Theorem C04_prio_refines_sorted_list :
  forall (A : Type) (ops : list (@pqop A)),
    snd (fold_left pq_step ops (new_pq, [])) = snd (fold_left spec_step ops (mkSpec [] 0 false, [])).
Proof. exact @pq_run_refines. Qed.
Print Assumptions C04_prio_refines_sorted_list.

Example C04_prio_example :
  snd (fold_left pq_step
         [PPush 5 10; PPush (-3) 11; PPush 5 12; PPush (-3) 13; PPop; PPop; PPurge;
          PPush 9223372036854775807 14; PPush (-9223372036854775808) 15; PPush 0 16; PPop; PPop; PPop; PPop]%Z
         (new_pq, []))
  = [Some 11; Some 13; Some 15; Some 16; Some 14; None]%Z.
Proof. vm_compute. reflexivity. Qed.
