(* C04 — dispatch order: FIFO per queue; lowest priority number first, ties FIFO.
   This file holds only statements, each closed by [exact] of a lemma proved elsewhere. *)
From Coq Require Import List NArith ZArith.
From VQ Require Import Fifo FifoProofs Gen.Params.
Import ListNotations.
Open Scope N_scope.

(* The segmented FIFO (queues.Queue + linkedbuffer.Chunk) refines a plain list for every
   capacity setting, every operation sequence and every length: Enqueue appends (unless
   closed), Dequeue removes the head, Purge empties, Close only sets the flag. *)
Theorem C04_fifo_refines_list :
  forall (A : Type) (init mx : N) (ops : list (@op A)),
    0 < init -> 0 < mx -> Forall op_ok ops ->
    let q := fold_left apply_op ops (new_queue init mx) in
    queue_ok q /\ (qclosed q, qabs q) = fold_left spec_op ops (false, []).
Proof. exact @run_refines. Qed.
Print Assumptions C04_fifo_refines_list.

(* What Dequeue hands out is the oldest pending element. *)
Theorem C04_fifo_dequeue_is_oldest :
  forall (A : Type) (q : queue A), queue_ok q -> fst (dequeue q) = hd_error (qabs q).
Proof. exact @dequeue_returns_head. Qed.
Print Assumptions C04_fifo_dequeue_is_oldest.

(* ... instantiated at the capacities the running code reports (Gen/Params.v is regenerated
   from the code on every check; a zero capacity would break this obligation). *)
Theorem C04_fifo_real_capacities :
  forall (A : Type) (ops : list (@op A)),
    Forall op_ok ops ->
    let q := fold_left apply_op ops (new_queue initial_buffer_capacity chunk_max_capacity) in
    queue_ok q /\ (qclosed q, qabs q) = fold_left spec_op ops (false, []).
Proof.
  intros A ops H. apply run_refines; [reflexivity | reflexivity | exact H].
Qed.
Print Assumptions C04_fifo_real_capacities.

(* non-vacuity: a concrete run crossing two segment boundaries *)
Example C04_fifo_example :
  let ops := [OEnq 1; OEnq 2; OEnq 3; ODeq; OEnq 4; OEnq 5; ODeq; OPurge 2; OEnq 6; OEnq 7; OEnq 8; ODeq] in
  let q := fold_left apply_op ops (new_queue 2 3) in
  qabs q = [7; 8] /\ caps q = [2; 3] /\ Forall op_ok ops.
Proof. vm_compute. repeat split; repeat constructor. Qed.
