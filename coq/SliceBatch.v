(* SliceBatch.v — the batch (AddAll) completion protocol: helpers.WgCounter (count + wait
   group) and the shared result stream of group_job.go. One step = one synchronisation
   operation on the batch's counter / wait group / stream. Thread-local data (the value loaded
   before the compare-and-swap) is carried by the event; the wrapper [bstep_t] checks it when a
   recorded trace is replayed. Definitions only; proofs in SliceBatchProofs.v. *)
From Coq Require Import List Arith Bool.
Import ListNotations.

Definition btid := nat.

Inductive bev :=
| BNew (n c : nat)                       (* NewWgCounter(n): count.Add(n), wg.Add(n); the stream is made with capacity c *)
| BCloseEmpty                            (* n = 0: the constructor closes the stream *)
| BLoad (t : btid) (v : nat)             (* count.Load (Done's load, Count(), NumPending()) *)
| BCas (t : btid) (v : nat) (ok : bool)  (* Done: count.CompareAndSwap(v, v-1), v >= 1 *)
| BWgDone (t : btid)                     (* Done: wg.Done after a successful swap *)
| BSend (g : btid)                       (* an item's result / error sent on the stream *)
| BClose (t : btid)                      (* Response.Close by the caller whose Done reached zero *)
| BRecv (t : btid) (ok : bool)           (* a reader receives a value (ok) or sees the close *)
| BWait (t : btid).                      (* batch Wait returns *)

Record bstate := mkB {
  bn : nat;            (* batch size *)
  created : bool;
  bcount : nat;        (* the atomic counter *)
  bwg : nat;           (* the wait group *)
  owe_wg : nat;        (* successful swaps whose wg.Done is still to come *)
  chlen : nat;         (* values buffered in the stream *)
  bclosed : bool;
  last : option btid;  (* brought the counter to zero; owes the close of the stream *)
  (* ghost *)
  bcloses : nat;
  bsends : nat;
  bdones : nat;
  brecvd : nat;
  bcap : nat           (* capacity of the stream *)
}.

Definition binit : bstate := mkB 0 false 0 0 0 0 false None 0 0 0 0 0.

Definition bopt_is (o : option btid) (t : btid) : bool :=
  match o with Some x => Nat.eqb x t | None => false end.

Definition bstep (s : bstate) (e : bev) : option bstate :=
  match e with
  | BNew n c =>
      (* one slot per item: an item's send never has to wait for a reader (group_job.go) *)
      if created s || negb (Nat.leb n c) then None
      else Some (mkB n true n n 0 0 false None 0 0 0 0 c)
  | BCloseEmpty =>
      if created s && Nat.eqb (bn s) 0 && negb (bclosed s)
      then Some (mkB (bn s) true (bcount s) (bwg s) (owe_wg s) (chlen s) true (last s)
                     (S (bcloses s)) (bsends s) (bdones s) (brecvd s) (bcap s))
      else None
  | BLoad t v => if created s && Nat.eqb v (bcount s) then Some s else None
  | BCas t v ok =>
      if created s && Nat.leb 1 v && Bool.eqb ok (Nat.eqb (bcount s) v)
      then (if ok
            then Some (mkB (bn s) true (v - 1) (bwg s) (S (owe_wg s)) (chlen s) (bclosed s)
                           (if Nat.eqb v 1 then Some t else last s)
                           (bcloses s) (bsends s) (S (bdones s)) (brecvd s) (bcap s))
            else Some s)
      else None
  | BWgDone t =>
      match owe_wg s, bwg s with
      | S o, S w => Some (mkB (bn s) (created s) (bcount s) w o (chlen s) (bclosed s) (last s)
                             (bcloses s) (bsends s) (bdones s) (brecvd s) (bcap s))
      | _, _ => None    (* 0 owed: not this code; wg = 0: negative WaitGroup counter (panic) *)
      end
  | BSend g =>
      (* the sender's own item has not called Done yet, so at least one item is outstanding;
         a send on a closed stream panics, a send on a full one blocks *)
      if created s && Nat.ltb (bdones s) (bn s) && negb (bclosed s) && Nat.ltb (chlen s) (bcap s)
      then Some (mkB (bn s) true (bcount s) (bwg s) (owe_wg s) (S (chlen s)) false (last s)
                     (bcloses s) (S (bsends s)) (bdones s) (brecvd s) (bcap s))
      else None
  | BClose t =>
      if bopt_is (last s) t
      then (if bclosed s then None   (* close of closed channel: panic *)
            else Some (mkB (bn s) (created s) (bcount s) (bwg s) (owe_wg s) (chlen s) true None
                           (S (bcloses s)) (bsends s) (bdones s) (brecvd s) (bcap s)))
      else None
  | BRecv t ok =>
      if ok
      then (match chlen s with
            | S c => Some (mkB (bn s) (created s) (bcount s) (bwg s) (owe_wg s) c (bclosed s) (last s)
                               (bcloses s) (bsends s) (bdones s) (S (brecvd s)) (bcap s))
            | 0 => None
            end)
      else (if bclosed s && Nat.eqb (chlen s) 0 then Some s else None)
  | BWait t => if created s && Nat.eqb (bwg s) 0 then Some s else None
  end.

Fixpoint brun (s : bstate) (es : list bev) : option bstate :=
  match es with
  | [] => Some s
  | e :: r => match bstep s e with Some s' => brun s' r | None => None end
  end.

(* thread-level wrapper for replay: Done = load; (cas from the loaded value; wg.Done)* *)
Inductive braw :=
| RB (e : bev)
| RBDoneLoad (t : btid) (v : nat)
| RBDoneCas (t : btid) (ok : bool).

Definition bstep_t (st_ : bstate * (btid -> option nat)) (r : braw) : option (bstate * (btid -> option nat)) :=
  let '(s, p) := st_ in
  let upd t v := fun x => if Nat.eqb x t then v else p x in
  match r with
  | RB e => match bstep s e with Some s' => Some (s', p) | None => None end
  | RBDoneLoad t v =>
      match bstep s (BLoad t v) with Some s' => Some (s', upd t (Some v)) | None => None end
  | RBDoneCas t ok =>
      match p t with
      | Some v => match bstep s (BCas t v ok) with Some s' => Some (s', upd t None) | None => None end
      | None => None
      end
  end.

Fixpoint brun_idx (st_ : bstate * (btid -> option nat)) (rs : list braw) (i : nat) : nat + bstate :=
  match rs with
  | [] => inr (fst st_)
  | r :: rest => match bstep_t st_ r with Some st' => brun_idx st' rest (S i) | None => inl i end
  end.

Definition brun_t (rs : list braw) : nat + bstate := brun_idx (binit, fun _ => None) rs 0.
