(* CodecProofs.v — the job envelope keeps every ID: JSON string encoding followed by JSON string
   decoding is the identity on all strings of Unicode scalar values (UTF-8 round trip for every
   scalar value + every escape class); status strings round-trip and are injective; a whole
   envelope decodes to what was encoded, given that the payload scanner splits the payload's own
   encoding off the front (the named assumption on encoding/json). *)
From Coq Require Import String Ascii.
From Coq Require Import List NArith ZArith Bool Lia.
From Coq Require Import ZifyN ZifyBool.
From VQ Require Import Codec.
Import ListNotations.
Open Scope N_scope.

Ltac Zify.zify_post_hook ::= Z.div_mod_to_equations.

(* resolve the outermost [if] whose condition lia can decide *)
Ltac if_true := match goal with |- context [if ?b then _ else _] =>
                  replace b with true by (symmetry; lia) end.
Ltac if_false := match goal with |- context [if ?b then _ else _] =>
                  replace b with false by (symmetry; lia) end.
Ltac ifs := repeat first [ if_true | if_false ].

(* ------------------------------------------------------------------ status *)

Definition codes_of_string (s : string) : list N := map N_of_ascii (list_ascii_of_string s).

Lemma status_string_ascii :
  status_string Created = codes_of_string "Created" /\
  status_string Queued = codes_of_string "Queued" /\
  status_string Processing = codes_of_string "Processing" /\
  status_string Finished = codes_of_string "Finished" /\
  status_string Closed = codes_of_string "Closed".
Proof. vm_compute. repeat split. Qed.

Lemma envelope_literals_ascii :
  lit_open = codes_of_string "{""id"":" /\
  lit_status = codes_of_string ",""status"":" /\
  lit_data = codes_of_string ",""data"":" /\
  [lit_close] = codes_of_string "}".
Proof. vm_compute. repeat split. Qed.

Lemma list_eqb_eq a b : list_eqb a b = true <-> a = b.
Proof.
  revert b; induction a as [|x a IH]; destruct b as [|y b]; cbn; try (split; congruence).
  rewrite andb_true_iff, N.eqb_eq, IH. split; [intros [-> ->]; reflexivity | intros [= -> ->]; auto].
Qed.

Lemma parse_status_string st : parse_status (status_string st) = Some st.
Proof. destruct st; reflexivity. Qed.

Lemma status_string_inj a b : status_string a = status_string b -> a = b.
Proof.
  intros H. pose proof (parse_status_string a) as Ha. rewrite H, parse_status_string in Ha.
  congruence.
Qed.

(* parse_status accepts exactly the five status strings *)
Lemma parse_status_some s st : parse_status s = Some st -> s = status_string st.
Proof.
  unfold parse_status.
  repeat match goal with
         | |- context [list_eqb s ?t] =>
             let E := fresh in destruct (list_eqb s t) eqn:E;
             [apply list_eqb_eq in E; intros [= <-]; exact E|]
         end.
  discriminate.
Qed.

Lemma parse_status_unknown s : (forall st, s <> status_string st) -> parse_status s = None.
Proof.
  intros H. destruct (parse_status s) as [st|] eqn:E; [|reflexivity].
  apply parse_status_some in E. destruct (H st E).
Qed.

(* ------------------------------------------------------------------ UTF-8 *)

Lemma scalar_range c : valid_scalar c -> c < 55296 \/ (57344 <= c /\ c <= 1114111).
Proof. unfold valid_scalar, is_scalar. lia. Qed.

(* utf8.DecodeRune (utf8.AppendRune c ++ tail) = c, for every scalar value beyond ASCII *)
Lemma utf8_decode_encode c tail :
  valid_scalar c -> 128 <= c ->
  exists b0 r, utf8_encode c = b0 :: r /\ 194 <= b0 /\
               utf8_decode b0 (r ++ tail) = (c, true, b0 :: r, tail).
Proof.
  intros V H. apply scalar_range in V. unfold utf8_encode.
  destruct (c <? 128) eqn:E0; [lia|].
  destruct (c <? 2048) eqn:E1; [|destruct (c <? 65536) eqn:E2].
  - eexists _, _. split; [reflexivity|]. split; [lia|].
    unfold utf8_decode, cont, in_range; cbn [app]. ifs.
    repeat f_equal; lia.
  - eexists _, _. split; [reflexivity|]. split; [lia|].
    unfold utf8_decode, cont, in_range; cbn [app].
    do 4 if_false. if_true.
    assert (Hr : ((if 224 + c / 4096 =? 224 then 160 else 128) <=? 128 + (c / 64) mod 64)
                 && (128 + (c / 64) mod 64 <=? (if 224 + c / 4096 =? 237 then 159 else 191))
                 && ((128 <=? 128 + c mod 64) && (128 + c mod 64 <=? 191)) = true).
    { destruct (224 + c / 4096 =? 224) eqn:A; destruct (224 + c / 4096 =? 237) eqn:B; lia. }
    rewrite Hr. repeat f_equal; lia.
  - eexists _, _. split; [reflexivity|]. split; [lia|].
    unfold utf8_decode, cont, in_range; cbn [app].
    do 4 if_false. if_true.
    assert (Hr : ((if 240 + c / 262144 =? 240 then 144 else 128) <=? 128 + (c / 4096) mod 64)
                 && (128 + (c / 4096) mod 64 <=? (if 240 + c / 262144 =? 244 then 143 else 191))
                 && ((128 <=? 128 + (c / 64) mod 64) && (128 + (c / 64) mod 64 <=? 191))
                 && ((128 <=? 128 + c mod 64) && (128 + c mod 64 <=? 191)) = true).
    { destruct (240 + c / 262144 =? 240) eqn:A; destruct (240 + c / 262144 =? 244) eqn:B; lia. }
    rewrite Hr. repeat f_equal; lia.
Qed.

(* ------------------------------------------------------------------ JSON strings *)

(* the decoder undoes the encoding of one ASCII byte, whatever follows *)
Lemma dec_step_ascii c tail : c < 128 -> dec_step (enc_ascii c ++ tail) = DChar c tail.
Proof.
  intros H.
  destruct c as [|p]; [reflexivity|].
  do 7 (try destruct p as [p|p|]); try reflexivity; exfalso; lia.
Qed.

(* ... and of one scalar value *)
Lemma dec_step_enc_cp c tail : valid_scalar c -> dec_step (enc_cp c ++ tail) = DChar c tail.
Proof.
  intros V. unfold enc_cp.
  destruct (c <? 128) eqn:E0; [apply dec_step_ascii; lia|].
  destruct (is_linesep c) eqn:E1.
  - unfold is_linesep in E1.
    assert (c = 8232 \/ c = 8233) as [-> | ->] by lia; reflexivity.
  - destruct (utf8_decode_encode c tail V) as (b0 & r & -> & Hb & Hd); [lia|].
    cbn [app dec_step]. ifs. rewrite Hd. reflexivity.
Qed.

Lemma dec_loop_enc s : forall fuel acc rest,
  Forall valid_scalar s -> (length s < fuel)%nat ->
  dec_loop fuel (flat_map enc_cp s ++ 34 :: rest) acc = Some (rev acc ++ s, rest).
Proof.
  induction s as [|c s IH]; intros fuel acc rest V L.
  - destruct fuel; [inversion L|]. cbn. rewrite app_nil_r. reflexivity.
  - destruct fuel; [inversion L|]. inversion V; subst.
    cbn [flat_map dec_loop]. rewrite <- app_assoc, dec_step_enc_cp by assumption.
    rewrite IH by (auto; cbn in L; lia). cbn [rev]. rewrite <- app_assoc. reflexivity.
Qed.

Lemma enc_cp_nonempty c : (1 <= length (enc_cp c))%nat.
Proof.
  unfold enc_cp, enc_ascii, esc_linesep, utf8_encode.
  repeat match goal with |- context [if ?b then _ else _] => destruct b end; cbn; lia.
Qed.

Lemma flat_map_enc_length s : (length s <= length (flat_map enc_cp s))%nat.
Proof.
  induction s as [|c s IH]; cbn; [lia|].
  rewrite app_length. pose proof (enc_cp_nonempty c). lia.
Qed.

(* MAIN: every string of scalar values survives json.Marshal followed by json.Unmarshal *)
Theorem dec_enc_string s rest :
  Forall valid_scalar s -> dec_string (enc_string s ++ rest) = Some (s, rest).
Proof.
  intros V. unfold enc_string, dec_string. cbn [app]. rewrite N.eqb_refl.
  rewrite <- app_assoc. cbn [app].
  rewrite dec_loop_enc; [reflexivity | assumption |].
  rewrite app_length. pose proof (flat_map_enc_length s). cbn. lia.
Qed.

(* distinct IDs have distinct encodings *)
Corollary enc_string_inj s t :
  Forall valid_scalar s -> Forall valid_scalar t -> enc_string s = enc_string t -> s = t.
Proof.
  intros Vs Vt H. pose proof (dec_enc_string s [] Vs) as A. rewrite H, dec_enc_string in A by assumption.
  congruence.
Qed.

(* ------------------------------------------------------------------ the byte-level encoder *)

(* appendString working on the raw UTF-8 bytes of a string does what enc_string does on its runes *)
Lemma enc_bytes_loop_utf8 s : forall fuel,
  Forall valid_scalar s -> (length (utf8_encode_all s) <= fuel)%nat ->
  enc_bytes_loop fuel (utf8_encode_all s) = flat_map enc_cp s.
Proof.
  induction s as [|c s IH]; intros fuel V L.
  - destruct fuel; reflexivity.
  - inversion V as [|? ? Vc Vs]; subst. unfold utf8_encode_all in *. cbn [flat_map] in *.
    unfold enc_cp at 1. destruct (c <? 128) eqn:E0.
    + assert (He : utf8_encode c = [c]) by (unfold utf8_encode; rewrite E0; reflexivity).
      rewrite He in *. cbn [app] in *.
      destruct fuel; [cbn in L; lia|]. cbn [enc_bytes_loop]. rewrite E0.
      rewrite IH by (auto; cbn in L; lia). reflexivity.
    + destruct (utf8_decode_encode c (flat_map utf8_encode s) Vc) as (b0 & r & He & Hb & Hd); [lia|].
      rewrite He in *. cbn [app] in *.
      destruct fuel; [cbn in L; lia|]. cbn [enc_bytes_loop].
      replace (b0 <? 128) with false by (symmetry; lia). rewrite Hd. cbn [negb].
      rewrite IH; [destruct (is_linesep c); reflexivity | assumption |].
      cbn in L. rewrite app_length in L. lia.
Qed.

Theorem enc_bytes_utf8 s :
  Forall valid_scalar s -> enc_bytes (utf8_encode_all s) = enc_string s.
Proof.
  intros V. unfold enc_bytes, enc_string. rewrite enc_bytes_loop_utf8; auto.
Qed.

(* ------------------------------------------------------------------ envelope *)

Lemma strip_prefix_app p r : strip_prefix p (p ++ r) = Some r.
Proof. induction p as [|x p IH]; cbn; [reflexivity|]. rewrite N.eqb_refl. exact IH. Qed.

Lemma status_string_valid st : Forall valid_scalar (status_string st).
Proof. destruct st; repeat constructor. Qed.

Section EnvelopeProofs.
  Variable scan_payload : list byte -> option (list byte * list byte).

  (* what json.Marshal produces for a payload value *)
  Variable marshal_output : list byte -> Prop.

  (* ASSUMPTION ON encoding/json (not verified here): the decoder, positioned at the start of a
     payload that json.Marshal produced and that is followed by the closing brace of the envelope,
     consumes exactly that payload. (json.Marshal emits one complete JSON value; the end of a JSON
     value followed by a closing brace is unambiguous.) *)
  Hypothesis scan_payload_splits_marshal_output :
    forall p, marshal_output p -> scan_payload (p ++ [lit_close]) = Some (p, [lit_close]).

  Theorem decode_encode_env id st payload :
    Forall valid_scalar id -> marshal_output payload ->
    decode_env scan_payload (encode_env id st payload) = Ok (id, st, payload).
  Proof.
    intros V M. unfold decode_env, encode_env.
    rewrite strip_prefix_app, dec_enc_string by assumption.
    rewrite strip_prefix_app, dec_enc_string by apply status_string_valid.
    rewrite strip_prefix_app, scan_payload_splits_marshal_output by assumption.
    unfold lit_close. rewrite N.eqb_refl, parse_status_string. reflexivity.
  Qed.

  (* Add followed by the consumer's decode: same ID, status Created, same payload bytes;
     an unencodable payload produces no entry *)
  Corollary submit_then_decode id payload :
    Forall valid_scalar id -> marshal_output payload ->
    exists entry, submit_entry id (Some payload) = Some entry /\
                  decode_env scan_payload entry = Ok (id, Created, payload).
  Proof.
    intros V M. eexists; split; [reflexivity|]. apply decode_encode_env; assumption.
  Qed.

  Lemma submit_unencodable id : submit_entry id None = None.
  Proof. reflexivity. Qed.

  (* Isolation at the codec level: decoding is per entry and stateless, so an undecodable entry
     between good ones changes neither the results for the others nor their order. *)
  Theorem bad_entry_isolated before bad after :
    consume_all scan_payload (before ++ bad :: after) =
    consume_all scan_payload before ++ decode_env scan_payload bad :: consume_all scan_payload after.
  Proof. unfold consume_all. rewrite map_app. reflexivity. Qed.

  Corollary good_entries_survive jobs1 bad jobs2 :
    Forall (fun j => Forall valid_scalar (fst (fst j)) /\ marshal_output (snd j)) (jobs1 ++ jobs2) ->
    let enc := map (fun j => encode_env (fst (fst j)) (snd (fst j)) (snd j)) in
    consume_all scan_payload (enc jobs1 ++ bad :: enc jobs2) =
    map Ok jobs1 ++ decode_env scan_payload bad :: map Ok jobs2.
  Proof.
    intros H enc. rewrite bad_entry_isolated.
    assert (G : forall js, Forall (fun j => Forall valid_scalar (fst (fst j)) /\ marshal_output (snd j)) js ->
                           consume_all scan_payload (enc js) = map Ok js).
    { induction js as [|[[i s] p] js IH]; intros F; [reflexivity|].
      inversion F as [|? ? [A B] F']; subst. cbn [fst snd] in A, B.
      unfold enc, consume_all in *. cbn [map fst snd].
      rewrite decode_encode_env by assumption. f_equal. apply IH; assumption. }
    apply Forall_app in H. destruct H as [H1 H2]. rewrite !G by assumption. reflexivity.
  Qed.

  (* an entry whose status string is none of the five is rejected with InvalidStatus, not decoded *)
  Theorem unknown_status_rejected id sts payload :
    Forall valid_scalar id -> Forall valid_scalar sts -> marshal_output payload ->
    (forall st, sts <> status_string st) ->
    decode_env scan_payload
      (lit_open ++ enc_string id ++ lit_status ++ enc_string sts ++ lit_data ++ payload ++ [lit_close])
    = Err InvalidStatus.
  Proof.
    intros V Vs M U. unfold decode_env.
    rewrite strip_prefix_app, dec_enc_string by assumption.
    rewrite strip_prefix_app, dec_enc_string by assumption.
    rewrite strip_prefix_app, scan_payload_splits_marshal_output by assumption.
    unfold lit_close. rewrite N.eqb_refl, parse_status_unknown by assumption. reflexivity.
  Qed.
End EnvelopeProofs.

(* ------------------------------------------------------------------ arbitrary Go strings as IDs *)

(* what utf8.DecodeRune consumed determines its result, whatever follows *)
Lemma utf8_decode_shape b r c ok consumed rest :
  utf8_decode b r = (c, ok, consumed, rest) ->
  exists r', consumed = b :: r' /\ r = r' ++ rest /\
             (ok = false -> c = fffd) /\
             (ok = true -> forall tail, utf8_decode b (r' ++ tail) = (c, true, consumed, tail)).
Proof.
  unfold utf8_decode, bad1. intros H.
  repeat match type of H with
         | context [if ?x then _ else _] => destruct x eqn:?
         | context [match ?l with [] => _ | _ :: _ => _ end] => destruct l
         end;
    inversion H; subst; clear H;
    (eexists; split; [reflexivity|]; split; [reflexivity|]; split;
     [intros; try discriminate; reflexivity
     |intros; try discriminate; cbn [app];
      repeat match goal with E : ?x = _ |- context [?x] => rewrite E end; reflexivity]).
Qed.

Lemma enc_ascii_nonempty b : (1 <= length (enc_ascii b))%nat.
Proof.
  unfold enc_ascii.
  repeat match goal with |- context [if ?b then _ else _] => destruct b end; cbn; lia.
Qed.

Lemma runes_le_enc_bytes : forall fuel bs,
  (length (runes_loop fuel bs) <= length (enc_bytes_loop fuel bs))%nat.
Proof.
  induction fuel as [|f IH]; intros bs; [reflexivity|].
  destruct bs as [|b r]; [reflexivity|]. cbn [runes_loop enc_bytes_loop].
  destruct (utf8_decode b r) as [[[c ok] consumed] rest'] eqn:D.
  destruct (b <? 128) eqn:E.
  - unfold utf8_decode in D. rewrite E in D. inversion D; subst.
    cbn [length]. rewrite app_length. pose proof (enc_ascii_nonempty c). specialize (IH rest'). lia.
  - apply utf8_decode_shape in D. destruct D as (r' & -> & _ & _ & _).
    cbn [length]. rewrite app_length. specialize (IH rest').
    destruct ok; cbn [negb]; [destruct (is_linesep c)|]; cbn; lia.
Qed.

Lemma dec_step_linesep c tail :
  is_linesep c = true -> dec_step (esc_linesep c ++ tail) = DChar c tail.
Proof.
  unfold is_linesep. intros EL. assert (c = 8232 \/ c = 8233) as [-> | ->] by lia; reflexivity.
Qed.

Lemma dec_step_fffd tail : dec_step (esc_fffd ++ tail) = DChar fffd tail.
Proof. reflexivity. Qed.

Lemma dec_loop_enc_bytes : forall fuelE bs fuelD acc rest,
  (length bs <= fuelE)%nat -> (length (runes_loop fuelE bs) < fuelD)%nat ->
  dec_loop fuelD (enc_bytes_loop fuelE bs ++ 34 :: rest) acc
  = Some (rev acc ++ runes_loop fuelE bs, rest).
Proof.
  induction fuelE as [|f IH]; intros bs fuelD acc rest L1 L2.
  - destruct bs; [|cbn in L1; lia]. destruct fuelD; [cbn in L2; lia|].
    cbn. rewrite app_nil_r. reflexivity.
  - destruct bs as [|b r].
    { destruct fuelD; [cbn in L2; lia|]. cbn. rewrite app_nil_r. reflexivity. }
    cbn [runes_loop enc_bytes_loop] in *.
    destruct (utf8_decode b r) as [[[c ok] consumed] rest'] eqn:D.
    destruct fuelD as [|fd]; [cbn in L2; lia|]. cbn [length] in L1, L2.
    assert (Hrev : forall t, rev (c :: acc) ++ t = rev acc ++ c :: t)
      by (intros; cbn [rev]; rewrite <- app_assoc; reflexivity).
    destruct (b <? 128) eqn:E.
    + unfold utf8_decode in D. rewrite E in D. inversion D; subst.
      cbn [dec_loop]. rewrite <- app_assoc, dec_step_ascii by lia.
      rewrite IH by lia. rewrite Hrev; reflexivity.
    + apply utf8_decode_shape in D. destruct D as (r' & -> & -> & Hbad & Hok).
      rewrite app_length in L1. cbn [dec_loop]. rewrite <- app_assoc.
      destruct ok; cbn [negb].
      * destruct (is_linesep c) eqn:EL.
        -- rewrite dec_step_linesep by assumption. rewrite IH by lia. rewrite Hrev; reflexivity.
        -- cbn [app dec_step]. ifs. rewrite (Hok eq_refl).
           rewrite IH by lia. rewrite Hrev; reflexivity.
      * rewrite (Hbad eq_refl) in *.
        rewrite dec_step_fffd.
        rewrite IH by lia. rewrite Hrev; reflexivity.
Qed.

(* For ANY Go string used as ID (arbitrary bytes): the consumer sees []rune(id), i.e. the ID with
   every byte of malformed UTF-8 replaced by U+FFFD ... *)
Theorem dec_enc_bytes bs rest :
  dec_string (enc_bytes bs ++ rest) = Some (runes_of_bytes bs, rest).
Proof.
  unfold enc_bytes, dec_string, runes_of_bytes. cbn [app]. rewrite N.eqb_refl.
  rewrite <- app_assoc. cbn [app].
  rewrite dec_loop_enc_bytes; [reflexivity | lia |].
  rewrite app_length. pose proof (runes_le_enc_bytes (length bs) bs). cbn. lia.
Qed.

(* ... so an ID is preserved exactly when it is well-formed UTF-8 *)
Corollary runes_of_utf8 s : Forall valid_scalar s -> runes_of_bytes (utf8_encode_all s) = s.
Proof.
  intros V. pose proof (dec_enc_bytes (utf8_encode_all s) []) as A.
  rewrite enc_bytes_utf8, dec_enc_string in A by assumption. congruence.
Qed.

Example malformed_utf8_id_not_preserved :
  dec_string (enc_bytes [105; 100; 255]) = Some ([105; 100; 65533], []) /\
  utf8_encode_all [105; 100; 65533] = [105; 100; 239; 191; 189].
Proof. vm_compute. split; reflexivity. Qed.

(* ------------------------------------------------------------------ the assumption is satisfiable:
   a closed instance for payloads that are unsigned decimal numerals *)

Definition is_digit (b : byte) : bool := in_range 48 57 b.

Fixpoint span_digits (bs : list byte) : list byte * list byte :=
  match bs with
  | b :: r => if is_digit b then let (d, rest) := span_digits r in (b :: d, rest) else ([], bs)
  | [] => ([], [])
  end.

Definition scan_uint (bs : list byte) : option (list byte * list byte) :=
  match span_digits bs with
  | ([], _) => None
  | (d, r) => Some (d, r)
  end.

Definition uint_literal (p : list byte) : Prop := p <> [] /\ forallb is_digit p = true.

Lemma scan_uint_splits p : uint_literal p -> scan_uint (p ++ [lit_close]) = Some (p, [lit_close]).
Proof.
  intros [NE D]. unfold scan_uint.
  assert (S : span_digits (p ++ [lit_close]) = (p, [lit_close])).
  { clear NE. induction p as [|b p IH]; [reflexivity|].
    cbn in D. apply andb_true_iff in D. destruct D as [Db Dp].
    cbn. rewrite Db, (IH Dp). reflexivity. }
  rewrite S. destruct p; [congruence | reflexivity].
Qed.

Theorem decode_encode_env_uint id st payload :
  Forall valid_scalar id -> uint_literal payload ->
  decode_env scan_uint (encode_env id st payload) = Ok (id, st, payload).
Proof. intros. apply (decode_encode_env scan_uint uint_literal scan_uint_splits); assumption. Qed.

(* ------------------------------------------------------------------ examples (vm_compute) *)

(* id = a, quote, b, backslash, c, <, d, U+2028, U+1F600 (emoji), U+0000, e-acute, DEL *)
Example ex_enc_string :
  enc_string [97; 34; 98; 92; 99; 60; 100; 8232; 128512; 0; 233; 127]
  = codes_of_string """a\""b\\c\u003cd\u2028" ++ [240; 159; 152; 128]
    ++ codes_of_string "\u0000" ++ [195; 169; 127; 34].
Proof. vm_compute. reflexivity. Qed.

Example ex_dec_enc_string :
  dec_string (enc_string [97; 34; 98; 92; 99; 60; 100; 8232; 128512; 0; 233; 127] ++ [44; 34])
  = Some ([97; 34; 98; 92; 99; 60; 100; 8232; 128512; 0; 233; 127], [44; 34]).
Proof. vm_compute. reflexivity. Qed.

Example ex_empty_id : enc_string [] = [34; 34] /\ dec_string [34; 34; 125] = Some ([], [125]).
Proof. vm_compute. split; reflexivity. Qed.

(* an escaped surrogate pair is one rune, a lone surrogate escape is U+FFFD, slash may be escaped *)
Example ex_surrogates :
  dec_string (codes_of_string """\ud83d\ude00\ud800x\/""") = Some ([128512; 65533; 120; 47], []).
Proof. vm_compute. reflexivity. Qed.

(* rejected: a raw control character, an unknown escape (the quote-escape of Go syntax), an
   incomplete \u escape, an unterminated literal *)
Example ex_rejected :
  dec_string [34; 10; 34] = None /\
  dec_string (codes_of_string """\'""") = None /\
  dec_string (codes_of_string """\u12G4""") = None /\
  dec_string (codes_of_string """abc") = None.
Proof. vm_compute. repeat split. Qed.

Example ex_envelope :
  encode_env [106; 34; 49] Finished (codes_of_string "42")
  = codes_of_string "{""id"":""j\""1"",""status"":""Finished"",""data"":42}" /\
  decode_env scan_uint (encode_env [106; 34; 49] Finished (codes_of_string "42"))
  = Ok ([106; 34; 49], Finished, codes_of_string "42").
Proof. vm_compute. split; reflexivity. Qed.

Example ex_bad_entries :
  decode_env scan_uint (codes_of_string "{""id"":""a"",""status"":""Done"",""data"":1}") = Err InvalidStatus /\
  decode_env scan_uint (codes_of_string "{""id"":""a"",""status"":""Queued"",""data"":1") = Err Malformed /\
  decode_env scan_uint (codes_of_string "{""id"":7,""status"":""Queued"",""data"":1}") = Err Malformed /\
  decode_env scan_uint (codes_of_string "{""id"":""a"",""status"":""Nope"",""data"":}") = Err Malformed.
Proof. vm_compute. repeat split. Qed.
