(* CodecProofs.v — the job envelope keeps every ID: JSON string encoding followed by JSON string
   decoding is the identity on all strings of Unicode scalar values (UTF-8 round trip for every
   scalar value + every escape class); status strings round-trip and are injective; a whole
   envelope decodes to what was encoded, given that the payload scanner splits the payload's own
   encoding off the front (the named assumption on encoding/json). *)
From Coq Require Import List NArith ZArith Bool Lia.
From Coq Require Import ZifyN ZifyBool.
From Coq Require Import String Ascii.
From VQ Require Import Codec.
Import ListNotations.
Open Scope N_scope.

Ltac Zify.zify_post_hook ::= Z.div_mod_to_equations.

(* resolve the outermost [if] whose condition lia can decide *)
Ltac if_true := match goal with |- context [if ?b then _ else _] =>
                  replace b with true by (symmetry; lia) end.
Ltac if_false := match goal with |- context [if ?b then _ else _] =>
                  replace b with false by (symmetry; lia) end.
Ltac ifs := repeat first [ if_true | if_false ].

(* ------------------------------------------------------------------ status *)

Definition codes_of_string (s : string) : list N := map N_of_ascii (list_ascii_of_string s).

Lemma status_string_ascii :
  status_string Created = codes_of_string "Created" /\
  status_string Queued = codes_of_string "Queued" /\
  status_string Processing = codes_of_string "Processing" /\
  status_string Finished = codes_of_string "Finished" /\
  status_string Closed = codes_of_string "Closed".
Proof. vm_compute. repeat split. Qed.

Lemma envelope_literals_ascii :
  lit_open = codes_of_string "{""id"":" /\
  lit_status = codes_of_string ",""status"":" /\
  lit_data = codes_of_string ",""data"":" /\
  [lit_close] = codes_of_string "}".
Proof. vm_compute. repeat split. Qed.

Lemma list_eqb_eq a b : list_eqb a b = true <-> a = b.
Proof.
  revert b; induction a as [|x a IH]; destruct b as [|y b]; cbn; try (split; congruence).
  rewrite andb_true_iff, N.eqb_eq, IH. split; [intros [-> ->]; reflexivity | intros [= -> ->]; auto].
Qed.

Lemma parse_status_string st : parse_status (status_string st) = Some st.
Proof. destruct st; reflexivity. Qed.

Lemma status_string_inj a b : status_string a = status_string b -> a = b.
Proof.
  intros H. pose proof (parse_status_string a) as Ha. rewrite H, parse_status_string in Ha.
  congruence.
Qed.

(* parse_status accepts exactly the five status strings *)
Lemma parse_status_some s st : parse_status s = Some st -> s = status_string st.
Proof.
  unfold parse_status.
  repeat match goal with
         | |- context [list_eqb s ?t] =>
             let E := fresh in destruct (list_eqb s t) eqn:E;
             [apply list_eqb_eq in E; intros [= <-]; exact E|]
         end.
  discriminate.
Qed.

Lemma parse_status_unknown s : (forall st, s <> status_string st) -> parse_status s = None.
Proof.
  intros H. destruct (parse_status s) as [st|] eqn:E; [|reflexivity].
  apply parse_status_some in E. destruct (H st E).
Qed.

(* ------------------------------------------------------------------ UTF-8 *)

Lemma scalar_range c : valid_scalar c -> c < 55296 \/ (57344 <= c /\ c <= 1114111).
Proof. unfold valid_scalar, is_scalar. lia. Qed.

(* utf8.DecodeRune (utf8.AppendRune c ++ tail) = c, for every scalar value beyond ASCII *)
Lemma utf8_decode_encode c tail :
  valid_scalar c -> 128 <= c ->
  exists b0 r, utf8_encode c = b0 :: r /\ 194 <= b0 /\
               utf8_decode b0 (r ++ tail) = (c, true, b0 :: r, tail).
Proof.
  intros V H. apply scalar_range in V. unfold utf8_encode.
  destruct (c <? 128) eqn:E0; [lia|].
  destruct (c <? 2048) eqn:E1; [|destruct (c <? 65536) eqn:E2].
  - eexists _, _. split; [reflexivity|]. split; [lia|].
    unfold utf8_decode, cont, in_range; cbn [app]. ifs.
    repeat f_equal; lia.
  - eexists _, _. split; [reflexivity|]. split; [lia|].
    unfold utf8_decode, cont, in_range; cbn [app].
    do 4 if_false. if_true.
    assert (Hr : ((if 224 + c / 4096 =? 224 then 160 else 128) <=? 128 + (c / 64) mod 64)
                 && (128 + (c / 64) mod 64 <=? (if 224 + c / 4096 =? 237 then 159 else 191))
                 && ((128 <=? 128 + c mod 64) && (128 + c mod 64 <=? 191)) = true).
    { destruct (224 + c / 4096 =? 224) eqn:A; destruct (224 + c / 4096 =? 237) eqn:B; lia. }
    rewrite Hr. repeat f_equal; lia.
  - eexists _, _. split; [reflexivity|]. split; [lia|].
    unfold utf8_decode, cont, in_range; cbn [app].
    do 4 if_false. if_true.
    assert (Hr : ((if 240 + c / 262144 =? 240 then 144 else 128) <=? 128 + (c / 4096) mod 64)
                 && (128 + (c / 4096) mod 64 <=? (if 240 + c / 262144 =? 244 then 143 else 191))
                 && ((128 <=? 128 + (c / 64) mod 64) && (128 + (c / 64) mod 64 <=? 191))
                 && ((128 <=? 128 + c mod 64) && (128 + c mod 64 <=? 191)) = true).
    { destruct (240 + c / 262144 =? 240) eqn:A; destruct (240 + c / 262144 =? 244) eqn:B; lia. }
    rewrite Hr. repeat f_equal; lia.
Qed.

(* ------------------------------------------------------------------ JSON strings *)

(* the decoder undoes the encoding of one ASCII byte, whatever follows *)
Lemma dec_step_ascii c tail : c < 128 -> dec_step (enc_ascii c ++ tail) = DChar c tail.
Proof.
  intros H.
  destruct c as [|p]; [reflexivity|].
  do 7 (try destruct p as [p|p|]); try reflexivity; exfalso; lia.
Qed.

(* ... and of one scalar value *)
Lemma dec_step_enc_cp c tail : valid_scalar c -> dec_step (enc_cp c ++ tail) = DChar c tail.
Proof.
  intros V. unfold enc_cp.
  destruct (c <? 128) eqn:E0; [apply dec_step_ascii; lia|].
  destruct (is_linesep c) eqn:E1.
  - unfold is_linesep in E1.
    assert (c = 8232 \/ c = 8233) as [-> | ->] by lia; reflexivity.
  - destruct (utf8_decode_encode c tail V) as (b0 & r & -> & Hb & Hd); [lia|].
    cbn [app dec_step]. ifs. rewrite Hd. reflexivity.
Qed.

Lemma dec_loop_enc s : forall fuel acc rest,
  Forall valid_scalar s -> (length s < fuel)%nat ->
  dec_loop fuel (flat_map enc_cp s ++ 34 :: rest) acc = Some (rev acc ++ s, rest).
Proof.
  induction s as [|c s IH]; intros fuel acc rest V L.
  - destruct fuel; [inversion L|]. cbn. rewrite app_nil_r. reflexivity.
  - destruct fuel; [inversion L|]. inversion V; subst.
    cbn [flat_map dec_loop]. rewrite <- app_assoc, dec_step_enc_cp by assumption.
    rewrite IH by (auto; cbn in L; lia). cbn [rev]. rewrite <- app_assoc. reflexivity.
Qed.

Lemma enc_cp_nonempty c : (1 <= length (enc_cp c))%nat.
Proof.
  unfold enc_cp, enc_ascii, esc_linesep, utf8_encode.
  repeat match goal with |- context [if ?b then _ else _] => destruct b end; cbn; lia.
Qed.

Lemma flat_map_enc_length s : (length s <= length (flat_map enc_cp s))%nat.
Proof.
  induction s as [|c s IH]; cbn; [lia|].
  rewrite app_length. pose proof (enc_cp_nonempty c). lia.
Qed.

(* MAIN: every string of scalar values survives json.Marshal followed by json.Unmarshal *)
Theorem dec_enc_string s rest :
  Forall valid_scalar s -> dec_string (enc_string s ++ rest) = Some (s, rest).
Proof.
  intros V. unfold enc_string, dec_string. cbn [app]. rewrite N.eqb_refl.
  rewrite <- app_assoc. cbn [app].
  rewrite dec_loop_enc; [reflexivity | assumption |].
  rewrite app_length. pose proof (flat_map_enc_length s). cbn. lia.
Qed.

(* distinct IDs have distinct encodings *)
Corollary enc_string_inj s t :
  Forall valid_scalar s -> Forall valid_scalar t -> enc_string s = enc_string t -> s = t.
Proof.
  intros Vs Vt H. pose proof (dec_enc_string s [] Vs) as A. rewrite H, dec_enc_string in A by assumption.
  congruence.
Qed.
