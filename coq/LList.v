(* LList.v — internal/linkedlist as the worker uses it for its idle pool: a list of nodes
   (front first), nodes named by numbers. PushNode appends an existing node; PopBack / PopFront
   take a node out; Remove(node) takes the given node out and says whether it was in the list —
   the answer the worker relies on to decide who owns a node (the idle-worker reaper and Stop
   remove nodes from a snapshot while the dispatcher pops). Definitions only; proofs in
   LListProofs.v. *)
From Coq Require Import List Arith Bool.
Import ListNotations.

Definition llist := list nat.

Definition ll_mem (n : nat) (l : llist) : bool := existsb (Nat.eqb n) l.

(* PushNode: the caller must not push a node that is in the list (it would be linked twice) *)
Definition ll_push (l : llist) (n : nat) : option llist :=
  if ll_mem n l then None else Some (l ++ [n]).

Definition ll_popfront (l : llist) : option nat * llist :=
  match l with [] => (None, []) | x :: r => (Some x, r) end.

Definition ll_popback (l : llist) : option nat * llist :=
  match rev l with [] => (None, []) | x :: r => (Some x, rev r) end.

Definition ll_remove (l : llist) (n : nat) : bool * llist :=
  if ll_mem n l then (true, filter (fun x => negb (Nat.eqb x n)) l) else (false, l).

Definition ll_len (l : llist) : nat := length l.

(* one recorded operation with its observed result; None = the model disagrees *)
Inductive llop :=
| LPush (n : nat)
| LPopFront (r : option nat)
| LPopBack (r : option nat)
| LRemove (n : nat) (ok : bool)
| LLen (v : nat)
| LSlice (ids : list nat).

Definition opt_eqb (a b : option nat) : bool :=
  match a, b with Some x, Some y => Nat.eqb x y | None, None => true | _, _ => false end.

Fixpoint list_eqb (a b : list nat) : bool :=
  match a, b with
  | [], [] => true
  | x :: a', y :: b' => Nat.eqb x y && list_eqb a' b'
  | _, _ => false
  end.

Definition ll_step (l : llist) (o : llop) : option llist :=
  match o with
  | LPush n => ll_push l n
  | LPopFront r => let '(x, l') := ll_popfront l in if opt_eqb x r then Some l' else None
  | LPopBack r => let '(x, l') := ll_popback l in if opt_eqb x r then Some l' else None
  | LRemove n ok => let '(b, l') := ll_remove l n in if Bool.eqb b ok then Some l' else None
  | LLen v => if Nat.eqb v (ll_len l) then Some l else None
  | LSlice ids => if list_eqb ids l then Some l else None
  end.
