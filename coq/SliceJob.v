(* SliceJob.v — the per-job protocol: status word, completion signal (wait group), and the
   job's "token" (where the job is: not yet visible, in its queue, with the dispatcher, claimed,
   running, finishing). One model step = one synchronisation operation of the real code on
   this job (job.go / group_job.go / the dispatch and completion paths of worker.go), plus
   the harness marks for the worker function and for the handle API.

   Tie to the code: the controlled scheduler's linear log is projected onto each job object
   (events whose enclosing frames have the job as receiver, wf marks and queue-wrapper marks
   carrying the job) and replayed by [jrun]: every event must be enabled and every observed
   value must equal the model's (ocaml/v_slices.ml, go/harness/root/zz_verif_slices_test.go).
   Definitions only; proofs in SliceJobProofs.v. *)
From Coq Require Import List Arith Bool.
Import ListNotations.

(* job status, job.go: created=0 queued=1 processing=2 finished=3 closed=4 *)
Definition jstatus := nat.
Definition sCreated : jstatus := 0.
Definition sQueued : jstatus := 1.
Definition sProcessing : jstatus := 2.
Definition sFinished : jstatus := 3.
Definition sClosed : jstatus := 4.

Definition tid := nat.

Inductive loc :=
| LNotPub (t : tid)   (* being built by t (Add / AddAll / parseToJob); not visible to anyone else *)
| LInQ                (* enqueued, visible *)
| LRejected (t : tid) (* Enqueue refused; the submitter closes it *)
| LPurged (t : tid)   (* taken out of the queue by PurgeValues; the purger closes it *)
| LDeq (t : tid)      (* handed to dispatcher t by Dequeue *)
| LSkipped            (* dispatcher found it closed and dropped it *)
| LClaimed            (* startProcessing succeeded; on its way to a pool goroutine *)
| LRunning (g : tid)  (* worker function running in g *)
| LExited (g : tid)   (* worker function returned; g has not yet stored Finished *)
| LFin (g : tid)      (* Finished stored; g closes the job *)
| LAcked (g : tid)    (* the adapter acknowledged the delivery; g goes on to close the job *)
| LAckFailed (g : tid). (* the adapter refused the acknowledgement: Close returns the error, the job stays Finished *)

(* Events of the proven core. Thread-local data (the value a thread loaded before its
   compare-and-swap) is carried by the event; that it really is the value the thread loaded is
   checked by the thread-level wrapper [tstep] below when a trace is replayed. *)
Inductive ev :=
| ENew (t : tid) (withWg : bool)          (* job object built by t; withWg: its own WaitGroup got Add(1) *)
| EStoreQueued (t : tid)                  (* changeStatus(queued) by the submitter *)
| EStoreParse (t : tid) (v : jstatus)      (* parseToJob stores the decoded jstatus *)
| EStoreFinished (g : tid)                (* changeStatus(finished) by the pool goroutine *)
| ELoad (t : tid) (v : jstatus)            (* any atomic load of the status word *)
| ESkip (t : tid)                         (* startProcessing loaded Closed: the dispatcher drops the job *)
| ECasClaim (t : tid) (v : jstatus) (ok : bool)  (* startProcessing: CompareAndSwap(v, processing) *)
| ECasClose (t : tid) (v : jstatus) (ok : bool)  (* closeStatus: CompareAndSwap(v, closed) *)
| ESignal (t : tid)                       (* wg.Done / WgCounter.Done by the winner of closeStatus *)
| EWait (t : tid)                         (* wg.Wait returns *)
| EEnq (t : tid) (ok : bool)              (* Enqueue returned ok *)
| EDeq (t : tid)                          (* Dequeue handed the job to t *)
| EPurged (t : tid)                       (* PurgeValues handed the job to t *)
| EWfEnter (g : tid)
| EWfExit (g : tid)
| ERetCloseNil (t : tid)                  (* handle.Close() returned nil *)
| EAck (g : tid) (ok : bool).             (* job.ack: Acknowledge(ackId) on the adapter returned ok *)

Record jstate := mkJ {
  st : jstatus;
  where_ : loc;
  wg : nat;              (* completion signals still owed before Wait may return *)
  hasWg : bool;
  winner : option tid;   (* won closeStatus, owes the completion signal *)
  donep : option tid;    (* signalled; its Close has not returned yet *)
  (* ghost history, never read by the transition relation *)
  starts : nat;
  exits : nat;
  closes : nat;          (* successful closeStatus claims *)
  signals : nat;
  nilCloses : nat;       (* Close calls that returned nil *)
  cancelledBeforeStart : bool; (* some closeStatus claim succeeded while starts = 0 *)
  parsed : bool;         (* built by parseToJob from a stored entry (no handle exists) *)
  acks : nat             (* successful acknowledgements *)
}.

Definition closeable (v : jstatus) : bool := negb (Nat.eqb v sProcessing || Nat.eqb v sClosed).

Definition loc_eqb (a b : loc) : bool :=
  match a, b with
  | LNotPub x, LNotPub y | LRejected x, LRejected y | LPurged x, LPurged y | LDeq x, LDeq y
  | LRunning x, LRunning y | LExited x, LExited y | LFin x, LFin y
  | LAcked x, LAcked y | LAckFailed x, LAckFailed y => Nat.eqb x y
  | LInQ, LInQ | LSkipped, LSkipped | LClaimed, LClaimed => true
  | _, _ => false
  end.

(* Only a published job can be closed by anyone (a handle, the purger, the finisher; the
   submitter closes its own rejected job after Enqueue returned). *)
Definition published (l : loc) : bool :=
  match l with LNotPub _ => false | _ => true end.

Definition opt_is (o : option tid) (t : tid) : bool :=
  match o with Some x => Nat.eqb x t | None => false end.

Definition init_state : jstate :=
  mkJ sCreated (LNotPub 0) 0 false None None 0 0 0 0 0 false false 0.

Definition with_st_loc (s : jstate) (v : jstatus) (l : loc) : jstate :=
  mkJ v l (wg s) (hasWg s) (winner s) (donep s)
      (starts s) (exits s) (closes s) (signals s) (nilCloses s) (cancelledBeforeStart s) (parsed s) (acks s).

(* [jstep s e] = Some s' when e is enabled in s and consistent with the values it observed *)
Definition jstep (s : jstate) (e : ev) : option jstate :=
  match e with
  | ENew t w =>
      (* only as the very first event *)
      if Nat.eqb (st s) sCreated && loc_eqb (where_ s) (LNotPub 0) && Nat.eqb (wg s) 0 && negb (hasWg s)
         && Nat.eqb (starts s + closes s + signals s) 0
      then Some (mkJ sCreated (LNotPub t) (if w then 1 else 0) w None None 0 0 0 0 0 false false 0)
      else None
  | EStoreQueued t =>
      if loc_eqb (where_ s) (LNotPub t) && Nat.eqb (st s) sCreated
      then Some (with_st_loc s sQueued (LNotPub t)) else None
  | EStoreParse t v =>
      if loc_eqb (where_ s) (LNotPub t) && Nat.eqb (st s) sCreated && Nat.leb v sClosed
      then Some (mkJ v (LDeq t) (wg s) (hasWg s) (winner s) (donep s)
                     (starts s) (exits s) (closes s) (signals s) (nilCloses s) (cancelledBeforeStart s) true (acks s))
      else None
  | EStoreFinished g =>
      if loc_eqb (where_ s) (LExited g) then Some (with_st_loc s sFinished (LFin g)) else None
  | ELoad t v =>
      if Nat.eqb v (st s) then Some s else None
  | ESkip t =>
      if Nat.eqb (st s) sClosed && loc_eqb (where_ s) (LDeq t)
      then Some (with_st_loc s (st s) LSkipped) else None
  | ECasClaim t v ok =>
      if loc_eqb (where_ s) (LDeq t) && negb (Nat.eqb v sClosed) && Bool.eqb ok (Nat.eqb (st s) v)
      then (if ok then Some (with_st_loc s sProcessing LClaimed) else Some s)
      else None
  | ECasClose t v ok =>
      (* anybody on a published job; the builder on a job it never published (the carrier job of
         a persistent/distributed Add whose Enqueue was refused) *)
      if (published (where_ s) || loc_eqb (where_ s) (LNotPub t)) && closeable v && Bool.eqb ok (Nat.eqb (st s) v)
      then (if ok
            then Some (mkJ sClosed (if published (where_ s) then where_ s else LRejected t) (wg s) (hasWg s) (Some t) (donep s)
                           (starts s) (exits s) (S (closes s)) (signals s) (nilCloses s)
                           (cancelledBeforeStart s || Nat.eqb (starts s) 0) (parsed s) (acks s))
            else Some s)
      else None
  | ESignal t =>
      if opt_is (winner s) t
      then (if hasWg s
            then (match wg s with
                  | 0 => None   (* sync: negative WaitGroup counter — the real code panics *)
                  | S n => Some (mkJ (st s) (where_ s) n (hasWg s) None (Some t)
                                     (starts s) (exits s) (closes s) (S (signals s)) (nilCloses s)
                                     (cancelledBeforeStart s) (parsed s) (acks s))
                  end)
            else Some (mkJ (st s) (where_ s) (wg s) (hasWg s) None (Some t)
                           (starts s) (exits s) (closes s) (S (signals s)) (nilCloses s)
                           (cancelledBeforeStart s) (parsed s) (acks s)))
      else None
  | EWait t =>
      if hasWg s && Nat.eqb (wg s) 0 then Some s else None
  | EEnq t ok =>
      if loc_eqb (where_ s) (LNotPub t) && Nat.eqb (st s) sQueued
      then Some (with_st_loc s (st s) (if ok then LInQ else LRejected t)) else None
  | EDeq t =>
      if loc_eqb (where_ s) LInQ then Some (with_st_loc s (st s) (LDeq t)) else None
  | EPurged t =>
      if loc_eqb (where_ s) LInQ then Some (with_st_loc s (st s) (LPurged t)) else None
  | EWfEnter g =>
      if loc_eqb (where_ s) LClaimed
      then Some (mkJ (st s) (LRunning g) (wg s) (hasWg s) (winner s) (donep s)
                     (S (starts s)) (exits s) (closes s) (signals s) (nilCloses s) (cancelledBeforeStart s) (parsed s) (acks s))
      else None
  | EWfExit g =>
      if loc_eqb (where_ s) (LRunning g)
      then Some (mkJ (st s) (LExited g) (wg s) (hasWg s) (winner s) (donep s)
                     (starts s) (S (exits s)) (closes s) (signals s) (nilCloses s) (cancelledBeforeStart s) (parsed s) (acks s))
      else None
  | ERetCloseNil t =>
      if opt_is (donep s) t
      then Some (mkJ (st s) (where_ s) (wg s) (hasWg s) (winner s) None
                     (starts s) (exits s) (closes s) (signals s) (S (nilCloses s)) (cancelledBeforeStart s) (parsed s) (acks s))
      else None
  | EAck g ok =>
      if loc_eqb (where_ s) (LFin g) && Nat.eqb (st s) sFinished
      then Some (mkJ (st s) (if ok then LAcked g else LAckFailed g) (wg s) (hasWg s) (winner s) (donep s)
                     (starts s) (exits s) (closes s) (signals s) (nilCloses s) (cancelledBeforeStart s) (parsed s)
                     (if ok then S (acks s) else acks s))
      else None
  end.

Fixpoint jrun (s : jstate) (es : list ev) : option jstate :=
  match es with
  | [] => Some s
  | e :: r => match jstep s e with Some s' => jrun s' r | None => None end
  end.

(* ------------------------------------------------------------------------------------------
   Thread-level conformance wrapper, used only when a recorded trace is replayed: raw events
   name the procedure they belong to; the wrapper checks that each thread follows the code's
   procedures (load, then compare-and-swap from the loaded value; error returns match the
   value seen) and feeds the core. No theorem depends on it. *)
Inductive tpc :=
| TIdle
| TCloseable (v : jstatus)   (* isCloseable loaded a closeable v *)
| TClaimLd (v : jstatus)
| TCloseLd (v : jstatus)
| TErr (e : nat).           (* Close will return 2 = ErrJobProcessing / 4 = ErrJobAlreadyClosed *)

Inductive raw :=
| RCore (e : ev)                          (* events passed through unchanged *)
| RLoadPlain (t : tid) (v : jstatus)       (* Status(), IsClosed() *)
| RLoadCloseable (t : tid) (v : jstatus)
| RLoadClaim (t : tid) (v : jstatus)
| RCasClaim (t : tid) (ok : bool)
| RLoadClose (t : tid) (v : jstatus)
| RCasClose (t : tid) (ok : bool)
| RRetClose (t : tid) (r : nat).          (* 0 nil, 2, 4, 9 = other (acknowledge refused) *)

Definition tupd (f : tid -> tpc) (t : tid) (v : tpc) : tid -> tpc :=
  fun x => if Nat.eqb x t then v else f x.

Definition tstep (st_ : jstate * (tid -> tpc)) (r : raw) : option (jstate * (tid -> tpc)) :=
  let '(s, p) := st_ in
  match r with
  | RCore e => match jstep s e with Some s' => Some (s', p) | None => None end
  | RLoadPlain t v => match jstep s (ELoad t v) with Some s' => Some (s', p) | None => None end
  | RLoadCloseable t v =>
      match jstep s (ELoad t v) with
      | Some s' => Some (s', tupd p t (if closeable v then TCloseable v else TErr v))
      | None => None
      end
  | RLoadClaim t v =>
      if Nat.eqb v sClosed
      then match jstep s (ESkip t) with Some s' => Some (s', tupd p t TIdle) | None => None end
      else match jstep s (ELoad t v) with Some s' => Some (s', tupd p t (TClaimLd v)) | None => None end
  | RCasClaim t ok =>
      match p t with
      | TClaimLd v => match jstep s (ECasClaim t v ok) with Some s' => Some (s', tupd p t TIdle) | None => None end
      | _ => None
      end
  | RLoadClose t v =>
      match p t with
      | TCloseable _ | TIdle =>
          match jstep s (ELoad t v) with
          | Some s' => Some (s', tupd p t (if closeable v then TCloseLd v else TErr v))
          | None => None
          end
      | _ => None
      end
  | RCasClose t ok =>
      match p t with
      | TCloseLd v => match jstep s (ECasClose t v ok) with Some s' => Some (s', tupd p t TIdle) | None => None end
      | _ => None
      end
  | RRetClose t r =>
      match r with
      | 0 => match jstep s (ERetCloseNil t) with Some s' => Some (s', tupd p t TIdle) | None => None end
      | 9 => match p t with TCloseable _ => Some (s, tupd p t TIdle) | _ => None end
      | _ => match p t with TErr e => if Nat.eqb e r then Some (s, tupd p t TIdle) else None | _ => None end
      end
  end.

(* index of the first rejected raw event, for the validator's report *)
Fixpoint trun_idx (st_ : jstate * (tid -> tpc)) (rs : list raw) (i : nat) : nat + jstate :=
  match rs with
  | [] => inr (fst st_)
  | r :: rest => match tstep st_ r with Some st' => trun_idx st' rest (S i) | None => inl i end
  end.

Definition trun (rs : list raw) : nat + jstate := trun_idx (init_state, fun _ => TIdle) rs 0.
