(* SliceDisp.v — one job seen against the worker's in-flight accounting: the worker status word,
   curProcessing, the length of the job's queue, the dispatcher's reserve / re-check /
   dequeue / claim / send sequence (worker.go processNextJob, goEventLoop), the completion path
   (initPoolNode) and the worker-level barriers (WaitUntilFinished, PauseAndWait, Stop).

   The model follows ONE job j (arbitrary) exactly and the rest of the world through counters:
     raw    reservations taken (curProcessing.Add(1)) whose status re-check is still to come
     okr    reservations whose re-check passed (the dispatcher may now dequeue)
     doomed reservations that found themselves above the limit, or whose re-check saw Paused /
            Stopped (will be returned)
     oth    other jobs that are covered by a reservation (dequeued ... not yet released)
   One step = one synchronisation operation of the real code (or a harness mark). Steps of other
   jobs are tagged "Other" by the projection; their preconditions (e.g. "a release by another
   job's goroutine leaves j's own coverage alone") are validated on every replayed trace.
   Definitions only; proofs in SliceDispProofs.v. *)
From Coq Require Import List Arith Bool.
Import ListNotations.

(* worker status, worker.go: initiated=0 running=1 paused=2 stopped=3 *)
Definition wInitiated := 0.
Definition wRunning := 1.
Definition wPaused := 2.
Definition wStopped := 3.

Inductive jloc :=
| JNotAcc   (* not (yet) accepted *)
| JInQ      (* accepted, in its queue *)
| JCov      (* dequeued under a reservation; claim (startProcessing) pending *)
| JSkip     (* claim failed (closed meanwhile); the reservation is about to be returned *)
| JDisp     (* claimed; on its way to a pool goroutine *)
| JRun      (* worker function running *)
| JFin      (* worker function returned; still counted in curProcessing *)
| JDone     (* released: curProcessing decremented by its goroutine *)
| JGone.    (* rejected, purged, or skipped and released: never runs *)

Inductive dev :=
| DAcceptJ                 (* Enqueue(j) succeeded *)
| DRejectJ                 (* Enqueue(j) refused *)
| DEnqOther                (* another job entered j's queue *)
| DDeqJ                    (* Dequeue handed j to a dispatcher *)
| DDeqOtherSameQ           (* Dequeue handed another job of j's queue to a dispatcher *)
| DDeqOtherQ               (* ... a job of another queue *)
| DPurgeQ (n : nat)        (* PurgeValues removed the n elements of j's queue (j among them if it was there) *)
| DClaimJ (ok : bool)      (* startProcessing(j) *)
| DReserve (n c : nat)     (* processNextJob: n = curProcessing.Add(1) (the value the Add returned), c = the
                              concurrency limit the same thread loads right after; the reservation goes on
                              only if n <= c, otherwise it is handed back *)
| DRecheck (v : nat)       (* processNextJob: status load after reserving *)
| DUnresDoomed             (* deferred curProcessing.Add(-1) after a failed re-check *)
| DUnresOk                 (* ... after next()/Dequeue/parse failed: nothing was dequeued *)
| DUnresSkipJ              (* ... after j's claim failed *)
| DUnresSkipOther          (* ... after another job's claim failed / cast failed *)
| DWfEnterJ | DWfExitJ
| DWfEnterOther | DWfExitOther
| DReleaseJ                (* initPoolNode: curProcessing.Add(-1) by j's goroutine *)
| DReleaseOther
| DStatusStore (v : nat)   (* Pause / Resume / Stop / Restart / start *)
| DStatusLoad (v : nat)
| DCurLoad (v : nat)       (* any load of curProcessing; by a barrier caller it may end the wait *)
| DLenReadQ (v : nat).     (* Len() of j's queue *)

Record dstate := mkD {
  wstat : nat;
  cur : nat;
  qj : nat;          (* elements in j's queue *)
  jl : jloc;
  raw : nat; okr : nat; doomed : nat; oth : nat;
  (* ghost *)
  othrun : nat;      (* other jobs whose worker function is running (each is one of [oth]) *)
  hold : bool;       (* a barrier caller read curProcessing = 0 on a paused / stopped worker and the
                        worker has not been resumed / restarted since *)
  wfstarts : nat
}.

Definition dinit (st0 : nat) : dstate := mkD st0 0 0 JNotAcc 0 0 0 0 0 false 0.

Definition covered (l : jloc) : nat :=
  match l with JCov | JSkip | JDisp | JRun | JFin => 1 | _ => 0 end.

Definition inq (l : jloc) : nat := match l with JInQ => 1 | _ => 0 end.

Definition jloc_eqb (a b : jloc) : bool :=
  match a, b with
  | JNotAcc, JNotAcc | JInQ, JInQ | JCov, JCov | JSkip, JSkip | JDisp, JDisp | JRun, JRun
  | JFin, JFin | JDone, JDone | JGone, JGone => true
  | _, _ => false
  end.

Definition halted (v : nat) : bool := Nat.eqb v wPaused || Nat.eqb v wStopped.

Definition upd_j (s : dstate) (l : jloc) : dstate :=
  mkD (wstat s) (cur s) (qj s) l (raw s) (okr s) (doomed s) (oth s) (othrun s) (hold s) (wfstarts s).

Definition dstep (s : dstate) (e : dev) : option dstate :=
  match e with
  | DAcceptJ =>
      if jloc_eqb (jl s) JNotAcc
      then Some (mkD (wstat s) (cur s) (S (qj s)) JInQ (raw s) (okr s) (doomed s) (oth s) (othrun s) (hold s) (wfstarts s))
      else None
  | DRejectJ => if jloc_eqb (jl s) JNotAcc then Some (upd_j s JGone) else None
  | DEnqOther =>
      Some (mkD (wstat s) (cur s) (S (qj s)) (jl s) (raw s) (okr s) (doomed s) (oth s) (othrun s) (hold s) (wfstarts s))
  | DDeqJ =>
      match okr s, qj s with
      | S o, S q => if jloc_eqb (jl s) JInQ
                    then Some (mkD (wstat s) (cur s) q JCov (raw s) o (doomed s) (oth s) (othrun s) (hold s) (wfstarts s))
                    else None
      | _, _ => None
      end
  | DDeqOtherSameQ =>
      match okr s, qj s with
      | S o, S q => if Nat.leb (inq (jl s)) q   (* j itself stays behind *)
                    then Some (mkD (wstat s) (cur s) q (jl s) (raw s) o (doomed s) (S (oth s)) (othrun s) (hold s) (wfstarts s))
                    else None
      | _, _ => None
      end
  | DDeqOtherQ =>
      match okr s with
      | S o => Some (mkD (wstat s) (cur s) (qj s) (jl s) (raw s) o (doomed s) (S (oth s)) (othrun s) (hold s) (wfstarts s))
      | 0 => None
      end
  | DPurgeQ n =>
      if Nat.eqb n (qj s)
      then Some (mkD (wstat s) (cur s) 0 (if jloc_eqb (jl s) JInQ then JGone else jl s)
                     (raw s) (okr s) (doomed s) (oth s) (othrun s) (hold s) (wfstarts s))
      else None
  | DClaimJ ok =>
      if jloc_eqb (jl s) JCov then Some (upd_j s (if ok then JDisp else JSkip)) else None
  | DReserve n c =>
      (* any thread, any time (no assumption that there is one event loop): the Add returns the
         new value; a reservation that finds itself above the limit is doomed *)
      if Nat.eqb n (S (cur s))
      then (if Nat.leb n c
            then Some (mkD (wstat s) (S (cur s)) (qj s) (jl s) (S (raw s)) (okr s) (doomed s) (oth s) (othrun s) (hold s) (wfstarts s))
            else Some (mkD (wstat s) (S (cur s)) (qj s) (jl s) (raw s) (okr s) (S (doomed s)) (oth s) (othrun s) (hold s) (wfstarts s)))
      else None
  | DRecheck v =>
      match raw s with
      | S r => if Nat.eqb v (wstat s)
               then (if halted v
                     then Some (mkD (wstat s) (cur s) (qj s) (jl s) r (okr s) (S (doomed s)) (oth s) (othrun s) (hold s) (wfstarts s))
                     else Some (mkD (wstat s) (cur s) (qj s) (jl s) r (S (okr s)) (doomed s) (oth s) (othrun s) (hold s) (wfstarts s)))
               else None
      | 0 => None
      end
  | DUnresDoomed =>
      match doomed s, cur s with
      | S d, S c => Some (mkD (wstat s) c (qj s) (jl s) (raw s) (okr s) d (oth s) (othrun s) (hold s) (wfstarts s))
      | _, _ => None
      end
  | DUnresOk =>
      match okr s, cur s with
      | S o, S c => Some (mkD (wstat s) c (qj s) (jl s) (raw s) o (doomed s) (oth s) (othrun s) (hold s) (wfstarts s))
      | _, _ => None
      end
  | DUnresSkipJ =>
      match cur s with
      | S c => if jloc_eqb (jl s) JSkip
               then Some (mkD (wstat s) c (qj s) JGone (raw s) (okr s) (doomed s) (oth s) (othrun s) (hold s) (wfstarts s))
               else None
      | 0 => None
      end
  | DUnresSkipOther | DReleaseOther =>
      match oth s, cur s with
      | S o, S c => if Nat.leb (othrun s) o   (* the one being released is not running any more *)
                    then Some (mkD (wstat s) c (qj s) (jl s) (raw s) (okr s) (doomed s) o (othrun s) (hold s) (wfstarts s))
                    else None
      | _, _ => None
      end
  | DWfEnterOther =>
      if Nat.ltb (othrun s) (oth s)
      then Some (mkD (wstat s) (cur s) (qj s) (jl s) (raw s) (okr s) (doomed s) (oth s) (S (othrun s)) (hold s) (wfstarts s))
      else None
  | DWfExitOther =>
      match othrun s with
      | S r => Some (mkD (wstat s) (cur s) (qj s) (jl s) (raw s) (okr s) (doomed s) (oth s) r (hold s) (wfstarts s))
      | 0 => None
      end
  | DWfEnterJ =>
      if jloc_eqb (jl s) JDisp
      then Some (mkD (wstat s) (cur s) (qj s) JRun (raw s) (okr s) (doomed s) (oth s) (othrun s) (hold s) (S (wfstarts s)))
      else None
  | DWfExitJ => if jloc_eqb (jl s) JRun then Some (upd_j s JFin) else None
  | DReleaseJ =>
      match cur s with
      | S c => if jloc_eqb (jl s) JFin
               then Some (mkD (wstat s) c (qj s) JDone (raw s) (okr s) (doomed s) (oth s) (othrun s) (hold s) (wfstarts s))
               else None
      | 0 => None
      end
  | DStatusStore v =>
      Some (mkD v (cur s) (qj s) (jl s) (raw s) (okr s) (doomed s) (oth s) (othrun s)
                (if halted v then hold s else false) (wfstarts s))
  | DStatusLoad v => if Nat.eqb v (wstat s) then Some s else None
  | DCurLoad v =>
      if Nat.eqb v (cur s)
      then Some (mkD (wstat s) (cur s) (qj s) (jl s) (raw s) (okr s) (doomed s) (oth s) (othrun s)
                     (hold s || (Nat.eqb v 0 && halted (wstat s))) (wfstarts s))
      else None
  | DLenReadQ v => if Nat.eqb v (qj s) then Some s else None
  end.

Fixpoint drun (s : dstate) (es : list dev) : option dstate :=
  match es with
  | [] => Some s
  | e :: r => match dstep s e with Some s' => drun s' r | None => None end
  end.

Fixpoint drun_idx (s : dstate) (es : list dev) (i : nat) : nat + dstate :=
  match es with
  | [] => inr s
  | e :: r => match dstep s e with Some s' => drun_idx s' r (S i) | None => inl i end
  end.

Definition drun_from (st0 : nat) (es : list dev) : nat + dstate := drun_idx (dinit st0) es 0.
