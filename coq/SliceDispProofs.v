(* SliceDispProofs.v — in-flight accounting: a job is always visible to the worker-level
   barriers, either in its queue or in curProcessing; a barrier that saw curProcessing = 0 on a
   paused / stopped worker holds every start until Resume / Restart; WaitUntilFinished is exact.
   For every event list: any number of dispatchers, jobs, barrier callers, any interleaving. *)
From Coq Require Import List Arith Bool Lia.
From VQ Require Import SliceDisp.
Import ListNotations.

Record DInv (s : dstate) : Prop := mkDInv {
  d_cur : cur s = raw s + okr s + doomed s + oth s + covered (jl s);
  d_q : inq (jl s) <= qj s;
  d_hold : hold s = true -> halted (wstat s) = true /\ okr s = 0 /\ oth s = 0 /\ covered (jl s) = 0;
  d_othrun : othrun s <= oth s;
  d_starts : wfstarts s = match jl s with JRun | JFin | JDone => 1 | _ => 0 end
}.

Lemma dinit_inv st0 : DInv (dinit st0).
Proof. constructor; cbn; intros; try discriminate; auto. Qed.

Lemma jloc_eqb_true a b : jloc_eqb a b = true -> a = b.
Proof. destruct a, b; cbn; intros; try discriminate; reflexivity. Qed.

Ltac dbools :=
  repeat match goal with
         | H : _ && _ = true |- _ => apply andb_prop in H; destruct H
         | H : _ || _ = true |- _ => apply orb_prop in H; destruct H
         | H : jloc_eqb _ _ = true |- _ => apply jloc_eqb_true in H
         | H : Nat.eqb _ _ = true |- _ => apply Nat.eqb_eq in H
         | H : Nat.eqb _ _ = false |- _ => apply Nat.eqb_neq in H
         | H : Nat.leb _ _ = true |- _ => apply Nat.leb_le in H
         | H : Nat.ltb _ _ = true |- _ => apply Nat.ltb_lt in H
         | H : match ?m with 0 => false | S _ => _ end = true |- _ => destruct m; [discriminate H|]
         end.

Ltac ddestr H :=
  repeat match type of H with
         | (if ?c then _ else _) = Some _ => let E := fresh "E" in destruct c eqn:E; try discriminate H
         | match ?x with _ => _ end = Some _ => let E := fresh "E" in destruct x eqn:E; try discriminate H
         end;
  try (inversion H; subst; clear H).

Ltac dexpose s :=
  destruct s as [ws0 cur0 q0 jl0 raw0 ok0 dm0 oth0 orun0 hold0 st0]; cbn in *.

Lemma halted_cases v : halted v = true -> v = wPaused \/ v = wStopped.
Proof. unfold halted. intros H. apply orb_prop in H as [H|H]; apply Nat.eqb_eq in H; auto. Qed.

Lemma dstep_inv s e s' : DInv s -> dstep s e = Some s' -> DInv s'.
Proof.
  intros I H. dexpose s. destruct I as [A B C OR D]; cbn in *.
  destruct e; cbn in H; ddestr H; dbools; subst; cbn in *;
    try (destruct ok; cbn in *);
    try (match goal with |- context [halted ?v] => destruct (halted v) eqn:? end; cbn in *);
    constructor; cbn; intros;
    try (destruct hold0; cbn in *; [destruct C as (C1 & C2 & C3 & C4); [reflexivity|] | ]);
    try (destruct jl0; cbn in *; try discriminate);
    repeat match goal with
           | H : _ || _ = true |- _ => apply orb_prop in H; destruct H
           | H : _ && _ = true |- _ => apply andb_prop in H; destruct H
           | H : Nat.eqb _ _ = true |- _ => apply Nat.eqb_eq in H
           end; subst;
    try solve [ lia | discriminate | auto | repeat split; auto; lia | congruence
              | (match goal with H : halted ?v = true, H2 : halted ?v = false |- _ => rewrite H in H2; discriminate end) ].
Qed.

Lemma drun_inv es : forall s s', DInv s -> drun s es = Some s' -> DInv s'.
Proof.
  induction es as [|e es IH]; cbn; intros s s' I H.
  - now inversion H; subst.
  - destruct (dstep s e) as [s1|] eqn:E; [|discriminate]. eapply IH; [|exact H]. eapply dstep_inv; eauto.
Qed.

Definition DReachable (s : dstate) : Prop := exists st0 es, drun (dinit st0) es = Some s.

Lemma dreachable_inv s : DReachable s -> DInv s.
Proof. intros (st0 & es & H). eapply drun_inv; [apply dinit_inv | exact H]. Qed.

Lemma dreachable_ext s es s' : DReachable s -> drun s es = Some s' -> DReachable s'.
Proof.
  intros (st0 & es0 & H0) H. exists st0, (es0 ++ es).
  revert H0. generalize (dinit st0). induction es0 as [|e r IH]; cbn; intros s0 H0.
  - inversion H0; subst. exact H.
  - destruct (dstep s0 e); [apply IH; exact H0 | discriminate].
Qed.

(* ---------------------------------------------------------------- theorems *)

(* a job that left its queue and has not been released is counted in curProcessing *)
Theorem covered_job_is_counted s : DReachable s -> covered (jl s) <= cur s.
Proof. intros R. apply dreachable_inv in R. rewrite (d_cur s R). lia. Qed.

(* an accepted job that has not been dispatched is counted by its queue's length *)
Theorem queued_job_is_counted s : DReachable s -> jl s = JInQ -> qj s >= 1.
Proof. intros R E. apply dreachable_inv in R. pose proof (d_q s R). rewrite E in *. cbn in *. lia. Qed.

(* once a barrier saw curProcessing = 0 on a paused / stopped worker, and until a Resume /
   Restart / start stores Running or Initiated, no worker function is executing and none can start *)
Theorem hold_blocks_everything s :
  DReachable s -> hold s = true ->
  jl s <> JRun /\ dstep s DWfEnterJ = None /\ dstep s DDeqJ = None /\ dstep s (DClaimJ true) = None /\
  okr s = 0 /\ oth s = 0.
Proof.
  intros R H. apply dreachable_inv in R. destruct (d_hold s R H) as (H1 & H2 & H3 & H4).
  dexpose s. subst. destruct jl0; cbn in *; try discriminate; repeat split; auto; try congruence.
Qed.

(* the hold lasts: it survives every step except a store of Running / Initiated *)
Theorem hold_persists s e s' :
  hold s = true -> dstep s e = Some s' ->
  hold s' = true \/ exists v, e = DStatusStore v /\ halted v = false.
Proof.
  intros H E. dexpose s. subst.
  destruct e; cbn in E; ddestr E; cbn; auto.
  destruct (halted v) eqn:Hv; [left; reflexivity | right; eauto].
Qed.

(* the worker function is entered at most once *)
Theorem starts_at_most_once s : DReachable s -> wfstarts s <= 1.
Proof. intros R. apply dreachable_inv in R. rewrite (d_starts s R). destruct (jl s); lia. Qed.

(* WaitUntilFinished is exact. [past_queue]: the job is neither unaccepted nor waiting. *)
Definition past_queue (l : jloc) : bool :=
  match l with JNotAcc | JInQ => false | _ => true end.

Definition finished (l : jloc) : bool :=
  match l with JDone | JGone => true | _ => false end.

Lemma accepted_monotone s e s' : dstep s e = Some s' -> jl s <> JNotAcc -> jl s' <> JNotAcc.
Proof.
  intros E H. dexpose s. destruct e; cbn in E; ddestr E; dbools; subst; cbn in *; try congruence;
    try (destruct jl0; cbn in *; congruence); try (destruct ok; congruence).
Qed.

Lemma past_queue_monotone s e s' : dstep s e = Some s' -> past_queue (jl s) = true -> past_queue (jl s') = true.
Proof.
  intros E H. dexpose s. destruct e; cbn in E; ddestr E; dbools; subst; cbn in *; auto; try discriminate;
    try (destruct ok; reflexivity).
  destruct jl0; cbn in *; auto.
Qed.

Lemma past_queue_run es : forall s s', drun s es = Some s' -> past_queue (jl s) = true -> past_queue (jl s') = true.
Proof.
  induction es as [|e es IH]; cbn; intros s s' H P; [now inversion H; subst|].
  destruct (dstep s e) as [s1|] eqn:E; [|discriminate]. eapply IH; eauto. eapply past_queue_monotone; eauto.
Qed.

Lemma accepted_run es : forall s s', drun s es = Some s' -> jl s <> JNotAcc -> jl s' <> JNotAcc.
Proof.
  induction es as [|e es IH]; cbn; intros s s' H P; [now inversion H; subst|].
  destruct (dstep s e) as [s1|] eqn:E; [|discriminate]. eapply IH; eauto. eapply accepted_monotone; eauto.
Qed.

(* A caller of WaitUntilFinished on a running worker evaluates  Len() > 0 || curProcessing > 0 :
   it reads the length of every bound queue (state s2: the read of j's queue returned 0) and
   later curProcessing (state s3: the read returned 0). If j had been accepted when the call
   started (state s1), then at s3 j has finished — it ran to completion and was released, or it
   was cancelled / purged and will never run. *)
Theorem wuf_exact s1 es1 s2 es2 s3 :
  DReachable s1 -> jl s1 <> JNotAcc ->
  drun s1 es1 = Some s2 -> qj s2 = 0 ->
  drun s2 es2 = Some s3 -> cur s3 = 0 ->
  finished (jl s3) = true.
Proof.
  intros R A H12 Q H23 C.
  assert (R2 : DReachable s2) by (eapply dreachable_ext; eauto).
  assert (R3 : DReachable s3) by (eapply dreachable_ext; eauto).
  pose proof (accepted_run es1 s1 s2 H12 A) as A2.
  assert (P2 : past_queue (jl s2) = true).
  { pose proof (d_q s2 (dreachable_inv s2 R2)) as B. rewrite Q in B.
    destruct (jl s2); cbn in *; auto; try congruence; lia. }
  pose proof (past_queue_run es2 s2 s3 H23 P2) as P3.
  pose proof (covered_job_is_counted s3 R3) as K. rewrite C in K.
  destruct (jl s3); cbn in *; auto; try discriminate; lia.
Qed.

(* PauseAndWait / Stop / WaitAndStop are exact: the state in which the barrier's load of
   curProcessing returns 0 has no worker function executing (for any job j) *)
Theorem barrier_exact s : DReachable s -> cur s = 0 -> jl s <> JRun /\ jl s <> JDisp /\ jl s <> JFin.
Proof.
  intros R C. pose proof (covered_job_is_counted s R) as K. rewrite C in K.
  destruct (jl s); cbn in *; repeat split; try congruence; lia.
Qed.

(* C02: the worker functions in progress (this job's and everybody else's) never exceed
   curProcessing, and a reservation that goes on leaves curProcessing within the limit it loaded *)
Theorem running_le_cur s : DReachable s -> othrun s + (match jl s with JRun => 1 | _ => 0 end) <= cur s.
Proof.
  intros R. apply dreachable_inv in R. pose proof (d_cur s R). pose proof (d_othrun s R).
  destruct (jl s); cbn in *; lia.
Qed.

Theorem reserve_within_limit s n c s' :
  dstep s (DReserve n c) = Some s' -> n <= c -> cur s' <= c /\ raw s' = S (raw s).
Proof. intros H L. dexpose s. ddestr H; dbools; cbn; try lia. apply Nat.leb_gt in E0. lia. Qed.

(* a reservation that finds curProcessing above the limit it loads can only be handed back: it is
   never re-checked, never dequeues (both need [raw] / [okr]) *)
Theorem reserve_over_limit_is_returned s n c s' :
  dstep s (DReserve n c) = Some s' -> c < n ->
  raw s' = raw s /\ okr s' = okr s /\ oth s' = oth s /\ jl s' = jl s /\ doomed s' = S (doomed s).
Proof. intros H L. dexpose s. ddestr H; dbools; cbn; auto. lia. Qed.

(* dequeuing takes a reservation whose limit check and status re-check both passed *)
Theorem dequeue_needs_passed_reservation s e s' :
  dstep s e = Some s' -> (e = DDeqJ \/ e = DDeqOtherSameQ \/ e = DDeqOtherQ) -> okr s = S (okr s').
Proof.
  intros H D. destruct D as [D|[D|D]]; subst e; dexpose s; ddestr H; cbn; reflexivity.
Qed.

Theorem cur_only_grows_at_reserve s e s' :
  dstep s e = Some s' -> cur s' <= cur s \/ exists n c, e = DReserve n c.
Proof.
  intros H. dexpose s. destruct e; cbn in H; ddestr H; cbn; try (left; lia); right; eauto.
Qed.

Theorem recheck_after_pause_doomed s v s' :
  dstep s (DRecheck v) = Some s' -> halted (wstat s) = true -> okr s' = okr s /\ doomed s' = S (doomed s).
Proof.
  intros H Hh. dexpose s. ddestr H; dbools; subst; cbn; auto.
  rewrite Hh in *. discriminate.
Qed.

Theorem status_store_frame s v s' :
  dstep s (DStatusStore v) = Some s' -> jl s' = jl s /\ qj s' = qj s /\ cur s' = cur s.
Proof. intros H. cbn in H. inversion H; subst; cbn; auto. Qed.
