(* SliceResp.v — the per-job response (helpers.Response of an error / result job): a buffered
   channel of capacity 1 plus the stored last value. Send stores the value and sends it;
   Response() receives, or — once the channel is closed and empty — returns the stored value.
   One step = one channel operation. Values are abstract (nat; 0 = the zero value).
   Definitions only; proofs in SliceRespProofs.v. *)
From Coq Require Import List Arith Bool.
Import ListNotations.

Inductive rev :=
| RSend (v : nat)            (* Response.Send: res := v; ch <- v   (the job's own outcome) *)
| RClose                     (* Response.Close by the goroutine that closed the job *)
| RRecv (ok : bool) (v : nat) (* Response(): v, ok := <-ch; if !ok then v := res *)
| RStore                     (* the plain write of the stored value (Send: before the channel send) *)
| RLoad.                     (* the plain read of the stored value (Response: after a receive on the closed channel) *)

Record rstate := mkR {
  rch : list nat;      (* buffered values *)
  rcap : nat;
  rclosed : bool;
  rres : nat;          (* the stored value (zero value initially) *)
  rsent : option nat;  (* ghost: what was sent *)
  rcloses : nat;
  rstored : bool       (* the stored value has been written *)
}.

Definition rinit : rstate := mkR [] 1 false 0 None 0 false.

Definition rstep (s : rstate) (e : rev) : option rstate :=
  match e with
  | RSend v =>
      (* the worker function runs once per job (C01): one outcome, one send; a send on a closed
         channel would panic, on a full one block *)
      match rsent s with
      | Some _ => None
      | None => (* the value is in place before it can be received, hence before any close *)
                if negb (rclosed s) && Nat.ltb (length (rch s)) (rcap s) && rstored s
                then Some (mkR (rch s ++ [v]) (rcap s) false v (Some v) (rcloses s) true)
                else None
      end
  | RClose =>
      if rclosed s then None   (* close of closed channel: panic *)
      else Some (mkR (rch s) (rcap s) true (rres s) (rsent s) (S (rcloses s)) (rstored s))
  | RRecv ok v =>
      if ok
      then match rch s with
           | x :: r => if Nat.eqb x v then Some (mkR r (rcap s) (rclosed s) (rres s) (rsent s) (rcloses s) (rstored s)) else None
           | [] => None
           end
      else if rclosed s && Nat.eqb (length (rch s)) 0 && Nat.eqb v (rres s) then Some s else None
  | RStore =>
      (* written once, by the sender, before the send: a store after the value left for a
         reader could come after the close, and a caller reading back would get the zero value *)
      match rsent s with
      | None => if rstored s then None
                else Some (mkR (rch s) (rcap s) (rclosed s) (rres s) (rsent s) (rcloses s) true)
      | Some _ => None
      end
  | RLoad => if rclosed s then Some s else None
  end.

Fixpoint rrun (s : rstate) (es : list rev) : option rstate :=
  match es with
  | [] => Some s
  | e :: r => match rstep s e with Some s' => rrun s' r | None => None end
  end.

Fixpoint rrun_idx (s : rstate) (es : list rev) (i : nat) : nat + rstate :=
  match es with
  | [] => inr s
  | e :: r => match rstep s e with Some s' => rrun_idx s' r (S i) | None => inl i end
  end.

(* ---- the three worker wrappers of main.go as a pure function of the worker function's outcome ---- *)
Inductive outcome := OValue (v : nat) | OError (e : nat) | OPanic (m : nat).

Inductive wkind := KPlain | KErr | KResult.

Record delivery := mkDel {
  sends : option (nat * bool);  (* what is sent on the job's response: (payload, is_error) *)
  offers_error : bool;          (* offered on the worker's error channel (non-blocking) *)
  failed : bool                 (* counted as Failed (else Successful) *)
}.

(* NewWorker: only a panic is a failure. NewErrWorker / NewResultWorker: error or panic. *)
Definition deliver (k : wkind) (o : outcome) : delivery :=
  match k, o with
  | KPlain, OPanic m => mkDel None true true
  | KPlain, _ => mkDel None false false
  | KErr, OValue _ => mkDel None false false
  | KErr, OError e => mkDel (Some (e, true)) true true
  | KErr, OPanic m => mkDel (Some (m, true)) true true
  | KResult, OValue v => mkDel (Some (v, false)) false false
  | KResult, OError e => mkDel (Some (e, true)) true true
  | KResult, OPanic m => mkDel (Some (m, true)) true true
  end.
