Gen/Params.vo Gen/Params.glob Gen/Params.v.beautified Gen/Params.required_vo: Gen/Params.v 
Gen/Params.vio: Gen/Params.v 
Gen/Params.vos Gen/Params.vok Gen/Params.required_vos: Gen/Params.v 
Fifo.vo Fifo.glob Fifo.v.beautified Fifo.required_vo: Fifo.v 
Fifo.vio: Fifo.v 
Fifo.vos Fifo.vok Fifo.required_vos: Fifo.v 
FifoProofs.vo FifoProofs.glob FifoProofs.v.beautified FifoProofs.required_vo: FifoProofs.v Fifo.vo
FifoProofs.vio: FifoProofs.v Fifo.vio
FifoProofs.vos FifoProofs.vok FifoProofs.required_vos: FifoProofs.v Fifo.vos
Heap.vo Heap.glob Heap.v.beautified Heap.required_vo: Heap.v 
Heap.vio: Heap.v 
Heap.vos Heap.vok Heap.required_vos: Heap.v 
HeapProofs.vo HeapProofs.glob HeapProofs.v.beautified HeapProofs.required_vo: HeapProofs.v Heap.vo
HeapProofs.vio: HeapProofs.v Heap.vio
HeapProofs.vos HeapProofs.vok HeapProofs.required_vos: HeapProofs.v Heap.vos
Properties/C04.vo Properties/C04.glob Properties/C04.v.beautified Properties/C04.required_vo: Properties/C04.v Fifo.vo FifoProofs.vo Heap.vo HeapProofs.vo Gen/Params.vo
Properties/C04.vio: Properties/C04.v Fifo.vio FifoProofs.vio Heap.vio HeapProofs.vio Gen/Params.vio
Properties/C04.vos Properties/C04.vok Properties/C04.required_vos: Properties/C04.v Fifo.vos FifoProofs.vos Heap.vos HeapProofs.vos Gen/Params.vos
Manager.vo Manager.glob Manager.v.beautified Manager.required_vo: Manager.v 
Manager.vio: Manager.v 
Manager.vos Manager.vok Manager.required_vos: Manager.v 
ManagerProofs.vo ManagerProofs.glob ManagerProofs.v.beautified ManagerProofs.required_vo: ManagerProofs.v Manager.vo
ManagerProofs.vio: ManagerProofs.v Manager.vio
ManagerProofs.vos ManagerProofs.vok ManagerProofs.required_vos: ManagerProofs.v Manager.vos
Properties/C15.vo Properties/C15.glob Properties/C15.v.beautified Properties/C15.required_vo: Properties/C15.v Manager.vo ManagerProofs.vo
Properties/C15.vio: Properties/C15.v Manager.vio ManagerProofs.vio
Properties/C15.vos Properties/C15.vok Properties/C15.required_vos: Properties/C15.v Manager.vos ManagerProofs.vos
