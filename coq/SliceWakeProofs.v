(* SliceWakeProofs.v — no lost wake-up: whenever the event loop is parked on its signal channel
   while its guard (running, below the limit, something pending) is true, a signal is buffered
   or some thread is about to send one. Hence at rest the guard is false: nothing stays pending
   below the limit on a running worker. For every event list. *)
From Coq Require Import List Arith Bool Lia.
From VQ Require Import SliceWake.
Import ListNotations.

Record KInv (s : kstate) : Prop := mkKInv {
  k_stale : kstale s = true -> ksig s = true \/ kowed s >= 1;
  k_wasfalse : kwasfalse s = true -> guard s = true -> kstale s = true;
  k_stale_open : kstale s = true -> kopen s = true;
  k_sig : ksig s = true -> kopen s = true;
  k_parked : kparked s = true -> kwasfalse s = true
}.

Lemma kinit_inv c : KInv (kinit c).
Proof. constructor; cbn; intros; try discriminate; auto. Qed.

Lemma upd_inputs_inv s st' cur' conc' pend' a n s' :
  KInv s -> upd_inputs s st' cur' conc' pend' a n = Some s' -> KInv s'.
Proof.
  intros [I1 I2 I3 I4 I5] H. unfold upd_inputs in H.
  set (g0 := guard s) in *.
  set (g1 := guard (mkK st' cur' conc' pend' (ksig s) (kopen s) (kowed s) (kparked s) (kstale s) (kwasfalse s))) in *.
  assert (Hg : forall x y z w, guard (mkK st' cur' conc' pend' x (kopen s) y (kparked s) z w) = g1) by reflexivity.
  destruct (negb g0 && g1 && negb n && negb match a with ALoop => true | AOther => false end) eqn:E1; [discriminate|].
  destruct (negb g0 && g1 && negb (kopen s)) eqn:E2; [discriminate|].
  destruct (match a with ALoop => true | AOther => false end && kparked s) eqn:E3; [discriminate|].
  inversion H; subst; clear H.
  constructor; cbn -[guard]; rewrite ?Hg; intros;
    destruct g0 eqn:G0, g1 eqn:G1, n, a, (kopen s) eqn:Eo, (kparked s) eqn:Ep, (kstale s) eqn:Es, (kwasfalse s) eqn:Ew;
    cbn in *; try discriminate; auto;
    try (destruct (I1 eq_refl) as [K|K]; [left; exact K | right; lia]);
    try (right; lia); try (apply I2; reflexivity); try (apply I3; reflexivity); try (apply I5; reflexivity).
Qed.

Ltac drop_guard H :=
  match type of H with (if ?c then None else _) = Some _ => destruct c eqn:?; [discriminate H|] end.

Lemma kstep_inv s e s' : KInv s -> kstep s e = Some s' -> KInv s'.
Proof.
  intros I H. destruct e; cbn in H.
  - drop_guard H.
    destruct delta_up; [eapply upd_inputs_inv; eauto|].
    destruct (k <=? kpend s); [eapply upd_inputs_inv; eauto | discriminate].
  - eapply upd_inputs_inv; eauto.
  - destruct up; [eapply upd_inputs_inv; eauto|].
    destruct (kcur s); [discriminate|]. destruct a; [eapply upd_inputs_inv; eauto|].
    destruct n; [eapply upd_inputs_inv; eauto | discriminate H].
  - drop_guard H. eapply upd_inputs_inv; eauto.
  - drop_guard H. eapply upd_inputs_inv; eauto.
  - destruct I as [I1 I2 I3 I4 I5]. destruct (kowed s) eqn:Eo; [discriminate|]. inversion H; subst; clear H.
    constructor; cbn; intros; auto.
    + rewrite (I3 H). left. apply orb_true_r.
    + apply orb_prop in H as [H|H]; auto.
  - destruct I as [I1 I2 I3 I4 I5]. inversion H; subst; clear H.
    constructor; cbn; intros; auto.
    + rewrite (I3 H). left. apply orb_true_r.
    + apply orb_prop in H as [H|H]; auto.
  - destruct I as [I1 I2 I3 I4 I5]. destruct (kparked s && ksig s && kopen s) eqn:E; [|discriminate]. inversion H; subst; clear H.
    constructor; cbn; intros; try discriminate; auto.
    unfold guard in *. cbn in *. apply negb_true_iff in H. congruence.
  - destruct I as [I1 I2 I3 I4 I5]. destruct (negb (kparked s) && kwasfalse s) eqn:E; [|discriminate]. inversion H; subst; clear H.
    apply andb_prop in E as [_ E]. constructor; cbn; intros; auto.
  - destruct I as [I1 I2 I3 I4 I5]. destruct (negb (guard s)) eqn:E; [|discriminate]. inversion H; subst; clear H.
    apply negb_true_iff in E. constructor; cbn; intros; try discriminate; auto.
    unfold guard in *; cbn in *. congruence.
  - destruct I as [I1 I2 I3 I4 I5]. destruct (negb (kopen s) && negb (guard s)) eqn:E; [|discriminate]. inversion H; subst; clear H.
    apply andb_prop in E as [_ E]. apply negb_true_iff in E. constructor; cbn; intros; try discriminate; auto.
    unfold guard in *; cbn in *. congruence.
Qed.

Lemma krun_inv es : forall s s', KInv s -> krun s es = Some s' -> KInv s'.
Proof.
  induction es as [|e es IH]; cbn; intros s s' I H; [now inversion H; subst|].
  destruct (kstep s e) as [s1|] eqn:E; [|discriminate]. eapply IH; [|exact H]. eapply kstep_inv; eauto.
Qed.

Definition KReachable (s : kstate) : Prop := exists c es, krun (kinit c) es = Some s.

Lemma kreachable_inv s : KReachable s -> KInv s.
Proof. intros (c & es & H). eapply krun_inv; [apply kinit_inv | exact H]. Qed.

(* no lost wake-up *)
Theorem no_lost_wakeup s :
  KReachable s -> kparked s = true -> guard s = true -> ksig s = true \/ kowed s >= 1.
Proof.
  intros R P G. apply kreachable_inv in R. destruct R as [I1 I2 I3 I4 I5].
  apply I1. apply I2; auto.
Qed.

(* at rest — the loop parked, no signal buffered, nobody about to notify — the guard is false:
   the worker is not running, or it is at its limit, or nothing is pending *)
Theorem at_rest_nothing_dispatchable s :
  KReachable s -> at_rest s = true -> guard s = false.
Proof.
  intros R A. unfold at_rest in A.
  apply andb_prop in A as [A P]. apply andb_prop in A as [O S].
  apply Nat.eqb_eq in O. apply negb_true_iff in S.
  destruct (guard s) eqn:G; [|reflexivity].
  destruct (no_lost_wakeup s R P G) as [K|K]; [congruence | lia].
Qed.

(* a buffered signal is never lost: it stays until the event loop receives it or the channel is
   closed (with the guard false) *)
Theorem signal_persists s e s' :
  ksig s = true -> kstep s e = Some s' -> ksig s' = true \/ e = KRecv \/ e = KClose \/ e = KOpen.
Proof.
  intros S H. destruct e; cbn in H; auto.
  - drop_guard H.
    destruct delta_up; [|destruct (k <=? kpend s); [|discriminate]];
      unfold upd_inputs in H;
      repeat match type of H with (if ?c then _ else _) = Some _ => destruct c; try discriminate H end;
      inversion H; subst; cbn; auto.
  - unfold upd_inputs in H;
      repeat match type of H with (if ?c then _ else _) = Some _ => destruct c; try discriminate H end;
      inversion H; subst; cbn; auto.
  - destruct up; [|destruct (kcur s); [discriminate|]; destruct a; [|destruct n; [|discriminate]]];
      unfold upd_inputs in H;
      repeat match type of H with (if ?c then _ else _) = Some _ => destruct c; try discriminate H end;
      inversion H; subst; cbn; auto.
  - drop_guard H. unfold upd_inputs in H;
      repeat match type of H with (if ?c then _ else _) = Some _ => destruct c; try discriminate H end;
      inversion H; subst; cbn; auto.
  - drop_guard H. unfold upd_inputs in H;
      repeat match type of H with (if ?c then _ else _) = Some _ => destruct c; try discriminate H end;
      inversion H; subst; cbn; auto.
  - destruct (kowed s); [discriminate|]. inversion H; subst; cbn. rewrite S. auto.
  - inversion H; subst; cbn. rewrite S. auto.
  - destruct (negb (kparked s) && kwasfalse s); [|discriminate]. inversion H; subst; cbn; auto.
Qed.
