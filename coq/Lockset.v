(* Lockset.v — one reader/writer lock (sync.RWMutex; a sync.Mutex is the same without readers)
   and the plain (non-atomic) memory it protects: internal/linkedlist (l.mx: list links and
   length), helpers.Manager (m.mx: items, round-robin cursor), the worker (w.mx: channels,
   tickers, context), the queues (q.mx), helpers.Response (mx: stored result).
   One step = lock / unlock / a plain read or write of a protected location. The access steps
   are enabled only under the discipline "write: hold the lock exclusively; read: hold it in
   either mode"; whether the code follows it is what the replay of every projected trace checks.
   Definitions only; proofs in LocksetProofs.v. *)
From Coq Require Import List Arith Bool.
Import ListNotations.

Inductive lev :=
| LLock (t : nat) | LUnlock (t : nat) | LRLock (t : nat) | LRUnlock (t : nat)
| LRead (t : nat) | LWrite (t : nat).

Record lkstate := mkLk { writer : option nat; readers : list nat }.

Definition lkinit : lkstate := mkLk None [].

Fixpoint remove_one (t : nat) (l : list nat) : option (list nat) :=
  match l with
  | [] => None
  | x :: r => if Nat.eqb x t then Some r
              else match remove_one t r with Some r' => Some (x :: r') | None => None end
  end.

Definition is_writer (s : lkstate) (t : nat) : bool :=
  match writer s with Some x => Nat.eqb x t | None => false end.

Definition is_reader (s : lkstate) (t : nat) : bool := existsb (Nat.eqb t) (readers s).

Definition lkstep (s : lkstate) (e : lev) : option lkstate :=
  match e with
  | LLock t => match writer s, readers s with
               | None, [] => Some (mkLk (Some t) [])
               | _, _ => None
               end
  | LUnlock t => if is_writer s t then Some (mkLk None (readers s)) else None
  | LRLock t =>
      (* no recursive read locking: a writer that arrives between the two RLocks waits for the
         first to be released while the second waits for the writer (sync.RWMutex: a blocked Lock
         keeps new readers out) *)
      match writer s with
      | None => if is_reader s t then None else Some (mkLk None (t :: readers s))
      | Some _ => None
      end
  | LRUnlock t => match remove_one t (readers s) with Some r => Some (mkLk (writer s) r) | None => None end
  | LRead t => if is_writer s t || is_reader s t then Some s else None
  | LWrite t => if is_writer s t then Some s else None
  end.

Fixpoint lkrun (s : lkstate) (es : list lev) : option lkstate :=
  match es with
  | [] => Some s
  | e :: r => match lkstep s e with Some s' => lkrun s' r | None => None end
  end.

Fixpoint lkrun_idx (s : lkstate) (es : list lev) (i : nat) : nat + lkstate :=
  match es with
  | [] => inr s
  | e :: r => match lkstep s e with Some s' => lkrun_idx s' r (S i) | None => inl i end
  end.

(* ---- vocabulary for the ordering theorem ---- *)
Definition acc_of (e : lev) : option (nat * bool) :=
  match e with LRead t => Some (t, false) | LWrite t => Some (t, true) | _ => None end.

(* a release / an acquisition by thread t; the flag says whether it is the exclusive mode *)
Definition release_by (t : nat) (e : lev) (excl : bool) : Prop :=
  match e with LUnlock u => u = t /\ excl = true | LRUnlock u => u = t /\ excl = false | _ => False end.
Definition acquire_by (t : nat) (e : lev) (excl : bool) : Prop :=
  match e with LLock u => u = t /\ excl = true | LRLock u => u = t /\ excl = false | _ => False end.

Definition holds (s : lkstate) (t : nat) : bool := is_writer s t || is_reader s t.
