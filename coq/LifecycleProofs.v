(* LifecycleProofs.v — the code's status logic refines the documented machine, for every call
   sequence. *)
From Coq Require Import List Arith Bool.
From VQ Require Import Lifecycle.
Import ListNotations.

(* while the user's context is alive, each call returns what the documented machine says and
   leaves the documented status *)
Theorem step_refines s c :
  ctxDead s = false -> c <> CCtxCancel ->
  wst (fst (lstep s c)) = spec_status (wst s) c /\ snd (lstep s c) = spec_result s c /\
  ctxDead (fst (lstep s c)) = false.
Proof.
  intros D N. destruct s as [w k n h d]; cbn in D; subst.
  destruct c; try congruence; destruct w; unfold lstep; cbn;
    repeat match goal with |- context [if ?b then _ else _] => destruct b eqn:?; cbn end; auto.
Qed.

(* ... hence for every sequence of calls *)
Theorem run_refines cs : forall s,
  ctxDead s = false -> ~ In CCtxCancel cs ->
  let '(s', rs) := lrun s cs in
  wst s' = fold_left spec_status cs (wst s) /\ ctxDead s' = false /\ length rs = length cs.
Proof.
  induction cs as [|c cs IH]; intros s D N; cbn; auto.
  destruct (step_refines s c D) as (H1 & H2 & H3); [intros ->; apply N; now left|].
  destruct (lstep s c) as [s1 x] eqn:E. cbn in *.
  specialize (IH s1 H3 (fun H => N (or_intror H))).
  destruct (lrun s1 cs) as [s2 xs]. destruct IH as (I1 & I2 & I3).
  rewrite H1 in I1. cbn. auto.
Qed.

(* Restart always leaves a running worker (as long as the user's context is alive) *)
Theorem restart_runs s : ctxDead s = false -> wst (fst (lstep s CRestart)) = Running.
Proof. intros D. destruct s as [w k n h d]; cbn in D; subst. destruct w; reflexivity. Qed.

(* binding another queue never changes the state of a started worker *)
Theorem bind_keeps_state s : wst s <> Initiated -> fst (lstep s CBind) = settle s /\ snd (lstep s CBind) = RNil.
Proof. destruct s as [w k n h d]. destruct w; cbn; intros H; try congruence; auto. Qed.

(* cancelling a configured context stops the worker, and it stays stopped whatever is called *)
Theorem cancel_stops s c :
  ctxDead s = true -> wst (fst (lstep s c)) <> Running /\ wst (fst (lstep s c)) <> Paused /\ ctxDead (fst (lstep s c)) = true.
Proof.
  intros D. destruct s as [w k n h d]; cbn in D; subst.
  destruct c; destruct w; unfold lstep, settle; cbn; rewrite ?orb_true_r; cbn;
    repeat match goal with |- context [if ?b then _ else _] => destruct b eqn:?; cbn end;
    repeat split; try congruence; try (destruct h; reflexivity).
Qed.

Theorem cancel_takes_effect s :
  hasCtx s = true -> wst s = Running \/ wst s = Paused -> wst (fst (lstep s CCtxCancel)) = Stopped.
Proof. destruct s as [w k n h d]; cbn. intros -> [->| ->]; reflexivity. Qed.

(* TunePool changes the concurrency exactly when it returns nil *)
Theorem tune_sets_concurrency s n np :
  ctxDead s = false ->
  match snd (lstep s (CTunePool n np)) with
  | RNil => lconc (fst (lstep s (CTunePool n np))) = (if np then ncpu s else n) /\ wst s = Running
  | _ => lconc (fst (lstep s (CTunePool n np))) = lconc s
  end.
Proof.
  intros D. destruct s as [w k c h d]; cbn in D; subst. destruct w; unfold lstep; cbn; auto.
  destruct (k =? (if np then c else n)) eqn:E; cbn; auto.
Qed.
