(* SlicePoolProofs.v — a job handed to a pool node always finds a live goroutine serving it,
   with no stop payload ahead of it; every stop payload retires exactly one goroutine; a node
   that is out of service and whose channel is empty has no goroutine left. Every event list. *)
From Coq Require Import List Arith Bool Lia.
From VQ Require Import SlicePool.
Import ListNotations.

Definition in_service (p : place) : bool :=
  match p with PFresh _ | PInList | PHeld _ | PInFlight | PSelf _ => true | _ => false end.

Record PInv (s : pstate) : Prop := mkPInv {
  p_alive : alive s = want s + stopsq s;
  p_want : want s = if in_service (pl s) then 1 else 0;
  p_cap : jobsq s + stopsq s <= 1;
  p_job : jobsq s = match pl s with PInFlight => 1 | _ => 0 end;
  p_conserve : jobs_sent s = jobs_recv s + jobsq s
}.

Lemma pinit_inv : PInv pinit.
Proof. constructor; cbn; auto; intros; discriminate. Qed.

Lemma place_eqb_true a b : place_eqb a b = true -> a = b.
Proof. destruct a, b; cbn; intros H; try discriminate; try reflexivity; apply Nat.eqb_eq in H; now subst. Qed.

Ltac pbools :=
  repeat match goal with
         | H : _ && _ = true |- _ => apply andb_prop in H; destruct H
         | H : _ || _ = true |- _ => apply orb_prop in H; destruct H
         | H : place_eqb _ _ = true |- _ => apply place_eqb_true in H
         | H : chan_empty _ = true |- _ => unfold chan_empty in H; cbn in H
         | H : Nat.eqb _ _ = true |- _ => apply Nat.eqb_eq in H
         end.

Ltac pdestr H :=
  repeat match type of H with
         | (if ?c then _ else _) = Some _ => let E := fresh "E" in destruct c eqn:E; try discriminate H
         | match ?x with _ => _ end = Some _ => let E := fresh "E" in destruct x eqn:E; try discriminate H
         end;
  try (inversion H; subst; clear H).

Lemma pstep_inv s e s' : PInv s -> pstep s e = Some s' -> PInv s'.
Proof.
  intros [A W C J K] H. destruct s as [p al wa jq sq js jr]; cbn in *.
  destruct e; cbn in H; pdestr H; pbools; subst; cbn in *;
    constructor; cbn; intros; try lia; auto;
    try (destruct p; cbn in *; try discriminate; try lia; auto);
    try solve [ left; reflexivity | right; eauto ].
Qed.

Lemma prun_inv es : forall s s', PInv s -> prun s es = Some s' -> PInv s'.
Proof.
  induction es as [|e es IH]; cbn; intros s s' I H; [now inversion H; subst|].
  destruct (pstep s e) as [s1|] eqn:E; [|discriminate]. eapply IH; [|exact H]. eapply pstep_inv; eauto.
Qed.

Definition PReachable (s : pstate) : Prop := exists es, prun pinit es = Some s.

Lemma preachable_inv s : PReachable s -> PInv s.
Proof. intros [es H]. eapply prun_inv; [apply pinit_inv | exact H]. Qed.

(* a job payload in the channel has a live server and no stop payload ahead of it *)
Theorem job_finds_a_server s : PReachable s -> jobsq s = 1 -> alive s >= 1 /\ stopsq s = 0.
Proof.
  intros R J. apply preachable_inv in R. destruct R as [A W C Jb K].
  rewrite J in *. destruct (pl s); cbn in *; try discriminate; lia.
Qed.

(* so the receive of the job is enabled: the job cannot be stranded *)
Theorem job_is_receivable s g : PReachable s -> jobsq s = 1 -> exists s', pstep s (NRecvJob g) = Some s'.
Proof.
  intros R J. destruct (job_finds_a_server s R J) as [A _]. cbn. rewrite J.
  destruct (alive s); [lia | eauto].
Qed.

(* the number of goroutines serving the node is what it should be: one while in service, plus
   one per stop payload still to be consumed — never more than two, and none once the node is
   out of service and its stop was consumed *)
Theorem servers_accounted s : PReachable s -> alive s = (if in_service (pl s) then 1 else 0) + stopsq s /\ alive s <= 2.
Proof.
  intros R. apply preachable_inv in R. destruct R as [A W C J K]. rewrite A, W. split; auto.
  destruct (in_service (pl s)); lia.
Qed.

Theorem no_goroutine_left s : PReachable s -> in_service (pl s) = false -> stopsq s = 0 -> alive s = 0.
Proof. intros R P Q. destruct (servers_accounted s R) as [A _]. rewrite P, Q in A. exact A. Qed.

(* every job sent to the node is received exactly once: sent = received + (the one in the channel) *)
Theorem jobs_conserved s : PReachable s -> jobs_sent s = jobs_recv s + jobsq s.
Proof. intros R. apply preachable_inv in R. apply (p_conserve s R). Qed.

(* an idle node (in the list) has an empty channel and exactly one server *)
Theorem idle_node_is_ready s : PReachable s -> pl s = PInList -> jobsq s = 0 /\ alive s = 1 + stopsq s.
Proof.
  intros R P. apply preachable_inv in R. destruct R as [A W C J K]. rewrite P in *. cbn in *. lia.
Qed.
