(* Heap.v — executable model of internal/queues/priority.go + heap.go + the parts of the Go
   standard library's container/heap they use (Push = append; up,  Pop = swap 0 n; down; drop).
   The array layout is part of the model: PriorityQueue.Values() exposes it and the
   differential test compares it after every operation. Definitions only. *)
From Coq Require Import List NArith ZArith Bool Arith.
Import ListNotations.

Section Heap.
  Context {A : Type}.

  Record item := mkItem { prio : Z; idx : N; val : A }.

  (* heapQueue.Less *)
  Definition less (a b : item) : bool :=
    if (prio a =? prio b)%Z then (idx a <? idx b)%N else (prio a <? prio b)%Z.

  (* [d] is the default for out-of-range reads; never hit when indices < length: push passes
     the new item, pop the head of the (non-empty) list. *)
  Section WithDefault.
  Variable d : item.

  Definition get (l : list item) (i : nat) : item := nth i l d.

  Fixpoint upd (l : list item) (i : nat) (x : item) : list item :=
    match l, i with
    | [], _ => []
    | _ :: t, O => x :: t
    | h :: t, S i' => h :: upd t i' x
    end.

  Definition swap (l : list item) (i j : nat) : list item :=
    upd (upd l i (get l j)) j (get l i).

  (* container/heap.up; parent of 0 is 0 because Go's (0-1)/2 truncates to 0 *)
  Fixpoint up (fuel : nat) (l : list item) (j : nat) : list item :=
    match fuel with
    | O => l
    | S f =>
        let i := (j - 1) / 2 in
        if (i =? j) || negb (less (get l j) (get l i)) then l
        else up f (swap l i j) i
    end.

  (* container/heap.down *)
  Fixpoint down (fuel : nat) (l : list item) (i n : nat) : list item :=
    match fuel with
    | O => l
    | S f =>
        let j1 := 2 * i + 1 in
        if n <=? j1 then l else
        let j := if (j1 + 1 <? n) && less (get l (j1 + 1)) (get l j1) then j1 + 1 else j1 in
        if negb (less (get l j) (get l i)) then l
        else down f (swap l i j) j n
    end.

  End WithDefault.

  Record pq := mkPq { items : list item; icount : N; pclosed : bool }.

  Definition new_pq : pq := mkPq [] 0 false.

  (* PriorityQueue.Enqueue *)
  Definition push (q : pq) (p : Z) (v : A) : bool * pq :=
    if pclosed q then (false, q) else
    let it := mkItem p (icount q) v in
    let l := items q ++ [it] in
    (true, mkPq (up it (length l) l (length l - 1)) (icount q + 1) (pclosed q)).

  (* PriorityQueue.Dequeue *)
  Definition pop (q : pq) : option A * pq :=
    match items q with
    | [] => (None, q)
    | h :: _ =>
        let n := length (items q) - 1 in
        let l1 := swap h (items q) 0 n in
        let l2 := down h n l1 0 n in
        (Some (val (get h l2 n)), mkPq (firstn n l2) (icount q) (pclosed q))
    end.

  Definition plen (q : pq) : nat := length (items q).
  Definition pvalues (q : pq) : list A := map val (items q).
  (* Purge does not reset insertionCount *)
  Definition ppurge (q : pq) : pq := mkPq [] (icount q) (pclosed q).
  (* PriorityQueue.PurgeValues: contents (array order) and reset under one lock *)
  Definition ppurge_values (q : pq) : list A * pq := (pvalues q, ppurge q).
  Definition pclose (q : pq) : pq := mkPq (items q) (icount q) true.

End Heap.

Arguments item : clear implicits.
Arguments pq : clear implicits.
