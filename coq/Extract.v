(* Extract.v — extraction of the executable models for the correspondence checks.
   Directives in force: those of ExtrOcamlBasic only (Extract Inductive bool, option, unit,
   list, prod, sumbool, sumor => OCaml's own types; Extract Inlined Constant andb => "(&&)",
   orb => "(||)"); nat, N, Z, positive stay the extracted inductive types. None of our own. *)
From Coq Require Import ExtrOcamlBasic.
From Coq Require Import List NArith ZArith.
From VQ Require Import Fifo Heap Manager LList SliceJob SliceBatch SliceDisp SliceBar SliceWake SliceResp SlicePool SliceBarrier Lifecycle Codec Lockset HB.

Extraction "model.ml"
  Fifo.new_queue Fifo.enqueue Fifo.dequeue Fifo.qlen Fifo.values Fifo.purge Fifo.purge_values Fifo.close Fifo.caps Fifo.qabs
  Manager.new_mgr Manager.register Manager.unregister Manager.swap_remove Manager.mlen Manager.count
  Manager.get_max Manager.get_min Manager.get_rr
  LList.ll_step
  SliceJob.trun SliceJob.jrun SliceBatch.brun_t SliceDisp.drun_from SliceBar.xrun_from SliceWake.kstep SliceWake.kinit SliceWake.guard SliceWake.at_rest SliceResp.rrun_idx SliceResp.rinit SliceResp.deliver SlicePool.prun_idx SlicePool.pinit SliceBarrier.wbstep SliceBarrier.wbinit SliceBarrier.b_at_rest Lockset.lkrun_idx Lockset.lkinit HB.race_check Lifecycle.lstep Lifecycle.linit Lifecycle.lrun
  Codec.status_string Codec.parse_status Codec.enc_string Codec.enc_bytes Codec.dec_string
  Codec.runes_of_bytes Codec.utf8_encode_all Codec.encode_env Codec.encode_env_bytes Codec.decode_env
  Codec.submit_entry
  Heap.new_pq Heap.push Heap.pop Heap.plen Heap.pvalues Heap.ppurge Heap.ppurge_values Heap.pclose
  N.of_nat N.to_nat Z.of_N Z.to_N Z.of_nat Z.opp Z.add Z.mul N.add N.mul Z.eqb N.eqb Nat.eqb.
