(* LListProofs.v — a node is in the idle list at most once; Remove answers true exactly for a
   node that is in the list, and afterwards (as after a pop) answers false for it until it is
   pushed again: the answer is an ownership transfer. *)
From Coq Require Import List Arith Bool Lia.
From VQ Require Import LList.
Import ListNotations.

Lemma ll_mem_in n l : ll_mem n l = true <-> In n l.
Proof.
  unfold ll_mem. rewrite existsb_exists. split.
  - intros (x & Hx & E). apply Nat.eqb_eq in E. now subst.
  - intros H. exists n. split; [exact H | apply Nat.eqb_refl].
Qed.

Lemma ll_mem_false n l : ll_mem n l = false <-> ~ In n l.
Proof.
  rewrite <- ll_mem_in. destruct (ll_mem n l); split; intros H.
  - discriminate.
  - exfalso. apply H. reflexivity.
  - intros C. discriminate.
  - reflexivity.
Qed.

Lemma push_nodup l n l' : NoDup l -> ll_push l n = Some l' -> NoDup l'.
Proof.
  unfold ll_push. destruct (ll_mem n l) eqn:M; [discriminate|]. intros N H. inversion H; subst.
  apply ll_mem_false in M. apply NoDup_rev in N. rewrite <- (rev_involutive (l ++ [n])).
  apply NoDup_rev. rewrite rev_app_distr. cbn. constructor; [|exact N].
  rewrite <- in_rev. exact M.
Qed.

Lemma popfront_nodup l x l' : NoDup l -> ll_popfront l = (x, l') -> NoDup l'.
Proof. destruct l; cbn; intros N H; inversion H; subst; [constructor | now inversion N]. Qed.

Lemma popback_nodup l x l' : NoDup l -> ll_popback l = (x, l') -> NoDup l'.
Proof.
  unfold ll_popback. intros N. apply NoDup_rev in N. destruct (rev l) as [|y r] eqn:E; intros H; inversion H; subst.
  - constructor.
  - apply NoDup_rev. now inversion N.
Qed.

Lemma filter_nodup (f : nat -> bool) l : NoDup l -> NoDup (filter f l).
Proof.
  induction l as [|x l IH]; cbn; intros N; [constructor|]. inversion N; subst.
  destruct (f x); [constructor; [rewrite filter_In; tauto | auto] | auto].
Qed.

Lemma remove_nodup l n b l' : NoDup l -> ll_remove l n = (b, l') -> NoDup l'.
Proof.
  unfold ll_remove. destruct (ll_mem n l); intros N H; inversion H; subst; [now apply filter_nodup | exact N].
Qed.

Lemma step_nodup l o l' : NoDup l -> ll_step l o = Some l' -> NoDup l'.
Proof.
  intros N H. destruct o; cbn in H.
  - eapply push_nodup; eauto.
  - destruct (ll_popfront l) as [x l1] eqn:E. destruct (opt_eqb x r); [|discriminate]. inversion H; subst. eapply popfront_nodup; eauto.
  - destruct (ll_popback l) as [x l1] eqn:E. destruct (opt_eqb x r); [|discriminate]. inversion H; subst. eapply popback_nodup; eauto.
  - destruct (ll_remove l n) as [b l1] eqn:E. destruct (Bool.eqb b ok); [|discriminate]. inversion H; subst. eapply remove_nodup; eauto.
  - destruct (Nat.eqb v (ll_len l)); [|discriminate]. now inversion H; subst.
  - destruct (list_eqb ids l); [|discriminate]. now inversion H; subst.
Qed.

Fixpoint ll_run (l : llist) (os : list llop) : option llist :=
  match os with
  | [] => Some l
  | o :: r => match ll_step l o with Some l' => ll_run l' r | None => None end
  end.

Definition LLReachable (l : llist) : Prop := exists os, ll_run [] os = Some l.

Lemma run_nodup os : forall l l', NoDup l -> ll_run l os = Some l' -> NoDup l'.
Proof.
  induction os as [|o os IH]; cbn; intros l l' N H; [now inversion H; subst|].
  destruct (ll_step l o) as [l1|] eqn:E; [|discriminate]. eapply IH; [|exact H]. eapply step_nodup; eauto.
Qed.

Theorem reachable_nodup l : LLReachable l -> NoDup l.
Proof. intros (os & H). eapply run_nodup; [constructor | exact H]. Qed.

(* Remove answers true exactly for a node that is in the list *)
Theorem remove_true_iff_member l n : fst (ll_remove l n) = true <-> In n l.
Proof. unfold ll_remove. rewrite <- ll_mem_in. destruct (ll_mem n l); cbn; split; auto; discriminate. Qed.

(* ... and takes it out: a second Remove of the same node answers false *)
Theorem remove_is_a_transfer l n : fst (ll_remove (snd (ll_remove l n)) n) = false.
Proof.
  unfold ll_remove at 2. destruct (ll_mem n l) eqn:M; cbn.
  - unfold ll_remove. destruct (ll_mem n (filter (fun x => negb (Nat.eqb x n)) l)) eqn:M2; [|reflexivity].
    apply ll_mem_in in M2. apply filter_In in M2. destruct M2 as [_ H]. rewrite Nat.eqb_refl in H. discriminate.
  - unfold ll_remove. now rewrite M.
Qed.

(* a node that was popped is not in the list: Remove answers false for it (the reaper's and
   Stop's Remove on a node the dispatcher has popped since their snapshot) *)
Theorem remove_after_popback_false l x l' :
  LLReachable l -> ll_popback l = (Some x, l') -> fst (ll_remove l' x) = false.
Proof.
  intros R H. apply reachable_nodup in R. unfold ll_popback in H.
  destruct (rev l) as [|y r] eqn:E; inversion H; subst.
  apply NoDup_rev in R. rewrite E in R. inversion R; subst.
  unfold ll_remove. destruct (ll_mem x (rev r)) eqn:M; [|reflexivity].
  apply ll_mem_in in M. rewrite <- in_rev in M. contradiction.
Qed.

Theorem remove_after_popfront_false l x l' :
  LLReachable l -> ll_popfront l = (Some x, l') -> fst (ll_remove l' x) = false.
Proof.
  intros R H. apply reachable_nodup in R. destruct l as [|y r]; inversion H; subst.
  inversion R; subst. unfold ll_remove. destruct (ll_mem x l') eqn:M; [|reflexivity].
  apply ll_mem_in in M. contradiction.
Qed.

(* Len is the number of nodes in the list *)
Theorem len_is_length l : ll_len l = length l.
Proof. reflexivity. Qed.
