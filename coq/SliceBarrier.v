(* SliceBarrier.v — who wakes the callers of WaitUntilFinished (and of PauseAndWait, Stop,
   WaitAndStop, Restart, which wait through it): worker.go releaseWaiters / WaitUntilFinished /
   Stop. A caller sleeps on the condition variable while its condition
        running: queues.Len() > 0 || curProcessing > 0      paused, stopped: curProcessing > 0
   holds. The question: when a step makes that condition false, is somebody on the hook to
   broadcast — the thread itself (it goes on to call releaseWaiters, or broadcasts directly as
   Stop does), or the event loop it notifies (every pass of the loop ends in releaseWaiters)?
   One step = one operation on the status word, curProcessing, a queue's length, the signal
   channel, or one step of releaseWaiters' evaluation.

   An obligation is held by a thread (or rides on the buffered signal) and is NEW while the
   condition has been false ever since it was created. The model REQUIRES (validated on every
   replayed trace): a step that turns the condition false creates an obligation or is taken by a
   thread that already holds one; a holder may walk away without broadcasting (releaseWaiters
   found work in flight / pending on a running worker) only if its obligation is old; closing the
   signal channel, which drops a buffered signal, is done by a thread that takes an obligation.
   Definitions only; proofs in SliceBarrierProofs.v. *)
From Coq Require Import List Arith Bool.
Import ListNotations.

Inductive okind := ONone | OEval | ONotify | OBcast.
(* what the thread taking a step goes on to do for the waiters: nothing; call releaseWaiters;
   notify the event loop; broadcast itself *)

Record obl := mkO { otid : nat; onew : bool }.

Record wbstate := mkWB {
  bst : nat;            (* worker status: 0 initiated 1 running 2 paused 3 stopped *)
  bcur : nat;
  blen : nat;           (* sum of the queue lengths *)
  bobs : list obl;      (* obligations held by threads *)
  bsig : bool;          (* a signal is buffered for the event loop *)
  bsignew : bool;       (* ... and it carries a new obligation *)
  bopen : bool;         (* the signal channel exists *)
  bstale : bool         (* ghost: the condition turned false and nobody has broadcast since *)
}.

Definition wbinit (c : nat) : wbstate := mkWB 0 0 0 [] false false true false.

Definition wcond_of (st cur len : nat) : bool :=
  match st with
  | 1 => Nat.ltb 0 len || Nat.ltb 0 cur
  | 2 | 3 => Nat.ltb 0 cur
  | _ => false
  end.
Definition wcond (s : wbstate) : bool := wcond_of (bst s) (bcur s) (blen s).

Definition holds_obl (t : nat) (l : list obl) : bool := existsb (fun o => Nat.eqb (otid o) t) l.
Definition has_new (l : list obl) : bool := existsb onew l.
Definition all_old (l : list obl) : list obl := map (fun o => mkO (otid o) false) l.
Definition renew (t : nat) (l : list obl) : list obl :=
  map (fun o => if Nat.eqb (otid o) t then mkO t true else o) l.
Definition drop (t : nat) (l : list obl) : list obl := filter (fun o => negb (Nat.eqb (otid o) t)) l.
Definition is_old (t : nat) (l : list obl) : bool :=
  forallb (fun o => negb (Nat.eqb (otid o) t) || negb (onew o)) l.

(* thread t may walk away from what it holds: it holds nothing new, or no waiter can have been
   left behind, or somebody else is still on the hook *)
Definition can_drop (s_obs : list obl) (stale sig signew : bool) (t : nat) : bool :=
  is_old t s_obs || negb stale || has_new (drop t s_obs) || (sig && signew).

Inductive wbev :=
| WInput (t : nat) (st' cur' len' : nat) (k : okind)
    (* thread t changes the status word / curProcessing / a queue length and goes on to k *)
| WRWNoBcast (t : nat)    (* releaseWaiters returns without broadcasting: processing <> 0, or running with Len > 0 *)
| WBroadcast (t : nat)    (* waiters.Broadcast() under the worker mutex *)
| WNotify (t : nat)       (* non-blocking send on the signal channel (lost if the channel is gone) *)
| WRecv (t : nat)         (* the event loop t receives the signal: its pass ends in releaseWaiters *)
| WClose (t : nat) (k : okind)   (* closeChannels: a buffered signal is dropped *)
| WOpen.                  (* Restart: fresh channel *)

(* the obligation list and flags after the inputs changed to (st', cur', len') by t going on to k *)
Definition after_input (s : wbstate) (t : nat) (st' cur' len' : nat) (k : okind) : option wbstate :=
  let c0 := wcond s in
  let c1 := wcond_of st' cur' len' in
  let falsifying := c0 && negb c1 in
  let had := holds_obl t (bobs s) in
  let takes := match k with ONone => false | _ => true end in
  if falsifying && negb takes && negb had then None   (* made the waiters' condition false and walks away *)
  else
    let obs1 := if takes && negb had then mkO t (negb c1) :: bobs s else bobs s in
    let obs2 := if falsifying then renew t obs1 else obs1 in
    if c1
    then Some (mkWB st' cur' len' (all_old obs2) (bsig s) false (bopen s) false)
    else Some (mkWB st' cur' len' obs2 (bsig s) (bsignew s) (bopen s) (bstale s || falsifying)).

Definition wbstep (s : wbstate) (e : wbev) : option wbstate :=
  match e with
  | WInput t st' cur' len' k => after_input s t st' cur' len' k
  | WRWNoBcast t =>
      (* walking away is harmless for a thread that holds nothing or only an old obligation, and
         whenever no waiter can have been left behind (not stale) *)
      if can_drop (bobs s) (bstale s) (bsig s) (bsignew s) t
      then Some (mkWB (bst s) (bcur s) (blen s) (drop t (bobs s)) (bsig s) (bsignew s) (bopen s) (bstale s))
      else None
  | WBroadcast t =>
      (* every sleeper is woken and re-evaluates; whoever arrives later evaluates afresh *)
      Some (mkWB (bst s) (bcur s) (blen s) (drop t (bobs s)) (bsig s) (bsignew s) (bopen s) false)
  | WNotify t =>
      if holds_obl t (bobs s)
      then (if bopen s
            then Some (mkWB (bst s) (bcur s) (blen s) (drop t (bobs s)) true
                           (bsignew s || negb (is_old t (bobs s))) (bopen s) (bstale s))
            else (* nobody listens: allowed for an old obligation, or when no waiter can have been left behind *)
              if can_drop (bobs s) (bstale s) (bsig s) (bsignew s) t
              then Some (mkWB (bst s) (bcur s) (blen s) (drop t (bobs s)) (bsig s) (bsignew s) (bopen s) (bstale s))
              else (* the notify is lost and t is the only one on the hook: it stays there (Stop goes on
                      to broadcast itself after a Pause whose notify found the channel closed by a
                      concurrent Restart); if it never does, the waiters are stale at rest *)
                Some s)
      else (* a notify nobody owed *)
        Some (mkWB (bst s) (bcur s) (blen s) (bobs s) (bsig s || bopen s) (bsignew s) (bopen s) (bstale s))
  | WRecv t =>
      if bsig s && bopen s && negb (holds_obl t (bobs s))
      then Some (mkWB (bst s) (bcur s) (blen s) (mkO t (bsignew s) :: bobs s) false false (bopen s) (bstale s))
      else None
  | WClose t k =>
      match k with
      | ONone => if bsignew s && bstale s && negb (has_new (bobs s)) then None
                 else Some (mkWB (bst s) (bcur s) (blen s) (bobs s) false false false (bstale s))
      | _ => Some (mkWB (bst s) (bcur s) (blen s)
                       (if holds_obl t (bobs s) then (if bsignew s then renew t (bobs s) else bobs s)
                        else mkO t (bsignew s || negb (wcond s)) :: bobs s)
                       false false false (bstale s))
      end
  | WOpen => if bopen s then None
             else Some (mkWB (bst s) (bcur s) (blen s) (bobs s) false false true (bstale s))
  end.

Fixpoint wbrun (s : wbstate) (es : list wbev) : option wbstate :=
  match es with
  | [] => Some s
  | e :: r => match wbstep s e with Some s' => wbrun s' r | None => None end
  end.

Fixpoint wbrun_idx (s : wbstate) (es : list wbev) (i : nat) : nat + wbstate :=
  match es with
  | [] => inr s
  | e :: r => match wbstep s e with Some s' => wbrun_idx s' r (S i) | None => inl i end
  end.

(* at rest: nobody holds an obligation and no signal is buffered *)
Definition b_at_rest (s : wbstate) : bool := match bobs s with [] => negb (bsig s) | _ => false end.
