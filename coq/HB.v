(* HB.v — happens-before and data races over one recorded execution (C19).
   An execution is the list of events the controlled scheduler logged, in the order they took
   effect, each reduced to what matters for the Go memory model:
     HAcc loc w        a plain (non-atomic) read / write of a library-owned memory location
     HSync a r         a synchronising operation: it acquires from sync object a and / or
                       releases to sync object r (Lock = acquire, Unlock = release, atomic load /
                       store, channel send / receive / close, go statement / goroutine start,
                       WaitGroup, sync.Pool; the projection's table is in DESIGN.md)
     HBarrier          a scenario-level "wait until everything is at rest" of the harness
   [hb] is the declarative relation: the transitive closure of program order and of
   release-before-acquire on the same sync object. [race_check] is the executable detector
   (vector clocks, one clock per thread and per sync object); HBProofs.v proves that it
   reports a pair exactly when the execution has two conflicting accesses not ordered by [hb].
   Indices and clock entries are binary (N): the extracted code runs on traces of thousands of
   events. Definitions only. *)
From Coq Require Import List NArith Bool Arith Relations.
Import ListNotations.
Local Open Scope N_scope.

Inductive hkind :=
| HAcc (loc : N) (w : bool)
| HSync (a : option N) (r : option N)
| HBarrier.

Record hev := mkH { hth : N; hk : hkind }.

(* ---------------------------------------------------------------- declarative side *)

Definition releases (e : hev) (x : N) : Prop :=
  match hk e with HSync _ (Some y) => y = x | _ => False end.
Definition acquires (e : hev) (x : N) : Prop :=
  match hk e with HSync (Some y) _ => y = x | _ => False end.

Definition edge (tr : list hev) (k j : nat) : Prop :=
  (k < j)%nat /\ exists ek ej, nth_error tr k = Some ek /\ nth_error tr j = Some ej /\
    (hth ek = hth ej \/ (exists x, releases ek x /\ acquires ej x) \/ hk ej = HBarrier).

Definition hb (tr : list hev) : nat -> nat -> Prop := clos_trans nat (edge tr).

Definition conflict (a b : hev) : Prop :=
  hth a <> hth b /\
  match hk a, hk b with
  | HAcc l1 w1, HAcc l2 w2 => l1 = l2 /\ (w1 = true \/ w2 = true)
  | _, _ => False
  end.

(* a data race: two conflicting accesses, neither ordered before the other (the later cannot
   happen before the earlier: edges only go forward in the recorded order) *)
Definition is_race (tr : list hev) (i j : nat) : Prop :=
  (i < j)%nat /\ exists ei ej, nth_error tr i = Some ei /\ nth_error tr j = Some ej /\
    conflict ei ej /\ ~ hb tr i j.

Definition race_free (tr : list hev) : Prop := forall i j, ~ is_race tr i j.

(* ---------------------------------------------------------------- executable side *)

Definition clock := list N.   (* by thread; entry = 1 + index of the latest event of that thread
                                 known to happen before (or be) the clock's owner; missing = 0 *)

Definition cget (c : clock) (t : N) : N := nth (N.to_nat t) c 0.

Fixpoint cjoin (a b : clock) : clock :=
  match a, b with
  | [], _ => b
  | _, [] => a
  | x :: a', y :: b' => N.max x y :: cjoin a' b'
  end.

Fixpoint upd {A} (d : A) (l : list A) (n : nat) (v : A) : list A :=
  match n, l with
  | O, [] => [v]
  | O, _ :: l' => v :: l'
  | S n', [] => d :: upd d [] n' v
  | S n', x :: l' => x :: upd d l' n' v
  end.

Definition join_all (l : list clock) : clock := fold_right cjoin [] l.

Record hacc_rec := mkA { aidx : N; ath : N; aloc : N; aw : bool }.

Record hstate := mkHS {
  hidx : N;                 (* index of the next event *)
  htc : list clock;         (* by thread: clock of its latest event *)
  hsc : list clock;         (* by sync object: join of the clocks of the releases so far *)
  hacc : list hacc_rec      (* the accesses so far *)
}.

Definition hinit : hstate := mkHS 0 [] [] [].

Definition tclock (s : hstate) (t : N) : clock := nth (N.to_nat t) (htc s) [].
Definition sclock (s : hstate) (x : N) : clock := nth (N.to_nat x) (hsc s) [].

(* the clock of the event being taken *)
Definition ev_clock (s : hstate) (e : hev) : clock :=
  let c0 := tclock s (hth e) in
  let c1 := match hk e with
            | HSync (Some x) _ => cjoin c0 (sclock s x)
            | HBarrier => cjoin c0 (join_all (htc s))
            | _ => c0
            end in
  upd 0 c1 (N.to_nat (hth e)) (N.succ (hidx s)).

Definition racy_with (t : N) (l : N) (w : bool) (c : clock) (a : hacc_rec) : bool :=
  N.eqb (aloc a) l && negb (N.eqb (ath a) t) && (aw a || w) && negb (N.ltb (aidx a) (cget c (ath a))).

Definition hstep (s : hstate) (e : hev) : hstate + (N * N) :=
  let c := ev_clock s e in
  let tc' := upd [] (htc s) (N.to_nat (hth e)) c in
  match hk e with
  | HAcc l w =>
      match find (racy_with (hth e) l w c) (hacc s) with
      | Some a => inr (aidx a, hidx s)
      | None => inl (mkHS (N.succ (hidx s)) tc' (hsc s) (mkA (hidx s) (hth e) l w :: hacc s))
      end
  | HSync _ (Some y) =>
      inl (mkHS (N.succ (hidx s)) tc' (upd [] (hsc s) (N.to_nat y) (cjoin (sclock s y) c)) (hacc s))
  | _ => inl (mkHS (N.succ (hidx s)) tc' (hsc s) (hacc s))
  end.

Fixpoint hrun (s : hstate) (es : list hev) : hstate + (N * N) :=
  match es with
  | [] => inl s
  | e :: r => match hstep s e with inl s' => hrun s' r | inr p => inr p end
  end.

(* None: no data race in the execution; Some (i, j): events i < j race *)
Definition race_check (tr : list hev) : option (N * N) :=
  match hrun hinit tr with inl _ => None | inr p => Some p end.
