(* SlicePool.v — one pool node (internal/pool Node + its place in the idle list + the
   goroutines serving its channel): worker.go initPoolNode / sendToNextChannel / freePoolNode /
   stopAndRemoveAllWorkers / goRemoveIdleWorkers / TunePool, internal/linkedlist PushNode /
   PopBack / Remove, internal/pool Send / Stop / Serve. One step = one operation on the node's
   channel, on the idle list (for this node) or on the node cache.
   The point: only the thread that took the node out of the idle list (or created it, or is its
   own server) may send to it; then a job payload always finds a live server with no stop ahead
   of it, and every stop payload retires exactly one server.
   Definitions only; proofs in SlicePoolProofs.v. *)
From Coq Require Import List Arith Bool.
Import ListNotations.

Definition ptid := nat.

Inductive place :=
| PCached              (* in the sync.Pool cache, or not yet created *)
| PFresh (t : ptid)    (* taken from the cache by t (initPoolNode), not yet in the list *)
| PInList              (* idle: in the list *)
| PHeld (t : ptid)     (* taken out of the list by t (PopBack, or Remove returning true) *)
| PInFlight            (* a job payload is in its channel *)
| PSelf (g : ptid)     (* its server g is running a job and will free the node *)
| PStopped (t : ptid). (* t sent the stop payload and is about to put the node into the cache *)

Inductive pev :=
| NGetSpawn (t g : ptid) (* initPoolNode by t: Cache.Get + go Serve (server g) *)
| NPush (t : ptid)       (* PushNode *)
| NPop (t : ptid)        (* PopBack returned this node / Remove(this node) returned true *)
| NSendJob (t : ptid)
| NRecvJob (g : ptid)
| NSendStop (t : ptid)
| NRecvStop (g : ptid)   (* a server receives the stop payload and exits *)
| NPut (t : ptid).       (* Cache.Put *)

Record pstate := mkP {
  pl : place;
  alive : nat;     (* goroutines serving this node's channel that have not exited *)
  want : nat;      (* 1 while the node is in service *)
  jobsq : nat;     (* job payloads in the channel *)
  stopsq : nat;    (* stop payloads in the channel *)
  (* ghost *)
  jobs_sent : nat; jobs_recv : nat
}.

Definition pinit : pstate := mkP PCached 0 0 0 0 0 0.

Definition place_eqb (a b : place) : bool :=
  match a, b with
  | PCached, PCached | PInList, PInList | PInFlight, PInFlight => true
  | PFresh x, PFresh y | PHeld x, PHeld y | PSelf x, PSelf y | PStopped x, PStopped y => Nat.eqb x y
  | _, _ => false
  end.

Definition chan_empty (s : pstate) : bool := Nat.eqb (jobsq s + stopsq s) 0.

Definition pstep (s : pstate) (e : pev) : option pstate :=
  match e with
  | NGetSpawn t g =>
      if place_eqb (pl s) PCached
      then Some (mkP (PFresh t) (S (alive s)) 1 (jobsq s) (stopsq s) (jobs_sent s) (jobs_recv s))
      else None
  | NPush t =>
      if place_eqb (pl s) (PFresh t) || place_eqb (pl s) (PSelf t)
      then Some (mkP PInList (alive s) (want s) (jobsq s) (stopsq s) (jobs_sent s) (jobs_recv s))
      else None
  | NPop t =>
      if place_eqb (pl s) PInList
      then Some (mkP (PHeld t) (alive s) (want s) (jobsq s) (stopsq s) (jobs_sent s) (jobs_recv s))
      else None
  | NSendJob t =>
      (* capacity 1: enabled only on an empty channel *)
      if (place_eqb (pl s) (PHeld t) || place_eqb (pl s) (PFresh t)) && chan_empty s
      then Some (mkP PInFlight (alive s) (want s) 1 (stopsq s) (S (jobs_sent s)) (jobs_recv s))
      else None
  | NRecvJob g =>
      match jobsq s, alive s with
      | S _, S _ => Some (mkP (PSelf g) (alive s) (want s) 0 (stopsq s) (jobs_sent s) (S (jobs_recv s)))
      | _, _ => None
      end
  | NSendStop t =>
      if (place_eqb (pl s) (PHeld t) || place_eqb (pl s) (PSelf t)) && chan_empty s
      then Some (mkP (PStopped t) (alive s) 0 (jobsq s) 1 (jobs_sent s) (jobs_recv s))
      else None
  | NRecvStop g =>
      match stopsq s, alive s with
      | S _, S a => Some (mkP (pl s) a (want s) (jobsq s) 0 (jobs_sent s) (jobs_recv s))
      | _, _ => None
      end
  | NPut t =>
      if place_eqb (pl s) (PStopped t)
      then Some (mkP PCached (alive s) (want s) (jobsq s) (stopsq s) (jobs_sent s) (jobs_recv s))
      else None
  end.

Fixpoint prun (s : pstate) (es : list pev) : option pstate :=
  match es with
  | [] => Some s
  | e :: r => match pstep s e with Some s' => prun s' r | None => None end
  end.

Fixpoint prun_idx (s : pstate) (es : list pev) (i : nat) : nat + pstate :=
  match es with
  | [] => inr s
  | e :: r => match pstep s e with Some s' => prun_idx s' r (S i) | None => inl i end
  end.
