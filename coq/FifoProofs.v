(* FifoProofs.v — the segmented FIFO refines a plain list, for every capacity setting and
   every length (no bound on the number of segments). *)
From Coq Require Import List NArith ZArith Bool Lia.
From Coq Require Import ZifyN ZifyBool.
From VQ Require Import Fifo.
Import ListNotations.
Open Scope N_scope.

Section FifoProofs.
  Context {A : Type}.
  Notation chunk := (chunk A).
  Notation queue := (queue A).

  Definition chunk_ok (c : chunk) : Prop :=
    crd c <= cwr c /\ cwr c <= ccap c /\ N.of_nat (length (citems c)) = cwr c - crd c /\ 0 < ccap c.

  Definition cfull (c : chunk) : Prop := cwr c = ccap c.
  Definition cfresh (c : chunk) : Prop := crd c = 0 /\ 1 <= cwr c.

  Definition queue_ok (q : queue) : Prop :=
    chunk_ok (wchunk q) /\
    Forall chunk_ok (rchunks q) /\
    Forall cfull (rchunks q) /\
    match rchunks q with
    | [] => True
    | _ :: rest => Forall cfresh rest /\ cfresh (wchunk q)
    end /\
    0 < maxcap q /\
    True /\
    qsize q = Z.of_nat (length (qabs q)).

  Lemma new_queue_ok init mx : 0 < init -> 0 < mx -> queue_ok (new_queue init mx).
  Proof.
    intros Hi Hm. unfold queue_ok, new_queue, chunk_ok, qabs; cbn.
    repeat split; try constructor; try lia.
  Qed.

  Lemma chunk_push_spec c x :
    chunk_ok c ->
    match chunk_push c x with
    | Some c' => cwr c < ccap c /\ chunk_ok c' /\ citems c' = citems c ++ [x] /\
                 crd c' = crd c /\ cwr c' = cwr c + 1 /\ ccap c' = ccap c
    | None => cfull c
    end.
  Proof.
    intros (H1 & H2 & H3 & H4). unfold chunk_push.
    destruct (ccap c <=? cwr c) eqn:E.
    - unfold cfull; lia.
    - cbn. unfold chunk_ok; cbn. rewrite app_length; cbn. repeat split; try lia.
  Qed.

  Lemma chunk_pop_spec c :
    chunk_ok c ->
    match chunk_pop c with
    | Some (x, c') => citems c = x :: citems c' /\ chunk_ok c' /\ ccap c' = ccap c /\
                      cwr c' = cwr c /\ crd c' = crd c + 1
    | None => citems c = [] /\ crd c = cwr c
    end.
  Proof.
    intros (H1 & H2 & H3 & H4). unfold chunk_pop.
    destruct (cwr c <=? crd c) eqn:E.
    - assert (length (citems c) = 0%nat) by lia.
      destruct (citems c); cbn in *; [split; [reflexivity|lia] | discriminate].
    - destruct (citems c) as [|x r] eqn:Ei; cbn in *; [lia|].
      unfold chunk_ok; cbn. repeat split; try lia.
  Qed.

  (* ---------------- Enqueue ---------------- *)

  Ltac split7 := unfold queue_ok; split; [|split; [|split; [|split; [|split; [|split]]]]].

  Theorem enqueue_spec q x :
    queue_ok q ->
    let '(ok, q') := enqueue q x in
    queue_ok q' /\
    (ok = negb (qclosed q)) /\
    (qabs q' = if ok then qabs q ++ [x] else qabs q) /\
    qclosed q' = qclosed q /\ maxcap q' = maxcap q.
  Proof.
    intros Hq. pose proof Hq as (Hw & Hr & Hf & Hs & Hm & Hrc & Hc).
    unfold enqueue. destruct (qclosed q) eqn:Ecl.
    { cbn. auto. }
    pose proof (chunk_push_spec (wchunk q) x Hw) as Hp.
    destruct (chunk_push (wchunk q) x) as [w'|] eqn:Ep.
    - destruct Hp as (Hlt & Hok' & Hit & Hrd' & Hwr' & Hcap').
      cbn. split; [|split; [reflexivity|split; [|auto]]].
      + split7; cbn; auto.
        * destruct (rchunks q); auto. destruct Hs as (Hs1 & Hs2).
          split; auto. unfold cfresh in *. lia.
        * unfold qabs in *; cbn. rewrite Hit, app_assoc, app_length; cbn. lia.
      + unfold qabs; cbn. rewrite Hit. now rewrite app_assoc.
    - set (c := ccap (wchunk q)) in *.
      set (nc := N.min (c + c / 2) (maxcap q)).
      assert (Hnc : 0 < nc).
      { destruct Hw as (_ & _ & _ & Hcpos). subst nc c.
        apply N.min_glb_lt; [|assumption].
        assert (0 <= ccap (wchunk q) / 2) by apply N.le_0_l. lia. }
      assert (Hnew : chunk_ok (new_chunk nc)).
      { unfold chunk_ok, new_chunk; cbn. lia. }
      pose proof (chunk_push_spec (new_chunk nc) x Hnew) as Hp2.
      destruct (chunk_push (new_chunk nc) x) as [w'|] eqn:Ep2.
      + destruct Hp2 as (_ & Hok' & Hit & Hrd' & Hwr' & Hcap'). cbn in *.
        split; [|split; [reflexivity|split; [|auto]]].
        * split7; cbn; auto.
          -- apply Forall_app; split; auto.
          -- apply Forall_app; split; auto.
          -- destruct (rchunks q) as [|c0 rest] eqn:Er; cbn.
             ++ split; [constructor|]. unfold cfresh; lia.
             ++ destruct Hs as (Hs1 & Hs2). split; [|unfold cfresh; lia].
                apply Forall_app; split; auto.
          -- unfold qabs in *; cbn. rewrite map_app, concat_app; cbn.
             rewrite Hit; cbn. rewrite app_nil_r.
             rewrite (app_length _ [x]); cbn. lia.
        * unfold qabs; cbn. rewrite map_app, concat_app; cbn. rewrite Hit; cbn.
          now rewrite app_nil_r.
      + exfalso. unfold cfull, new_chunk in Hp2; cbn in Hp2. lia.
  Qed.

  (* ---------------- Dequeue ---------------- *)

  Theorem dequeue_spec q :
    queue_ok q ->
    let '(r, q') := dequeue q in
    queue_ok q' /\
    match r with
    | Some x => qabs q = x :: qabs q'
    | None => qabs q = [] /\ qabs q' = []
    end /\
    qclosed q' = qclosed q /\ maxcap q' = maxcap q.
  Proof.
    intros Hq. pose proof Hq as (Hw & Hr & Hf & Hs & Hm & Hrc & Hc).
    unfold dequeue.
    destruct (rchunks q) as [|c rest] eqn:Er.
    - (* read chunk is the write chunk *)
      pose proof (chunk_pop_spec _ Hw) as Hp.
      destruct (chunk_pop (wchunk q)) as [[x w']|] eqn:Ep.
      + destruct Hp as (Hit & Hok' & Hcap' & Hwr' & Hrd').
        unfold with_read; cbn. split; [|split; [|auto]].
        * split7; cbn; auto.
          unfold qabs in *; cbn in *. rewrite Er in Hc; cbn in Hc. rewrite Hit in Hc; cbn in Hc.
          lia.
        * unfold qabs; cbn. rewrite Er; cbn. now rewrite Hit.
      + destruct Hp as (Hit & _). split; [assumption|split; [|auto]].
        unfold qabs; rewrite Er; cbn. now rewrite Hit.
    - inversion Hr as [|? ? Hc_ok Hrest_ok]; subst.
      inversion Hf as [|? ? Hc_full Hrest_full]; subst.
      destruct Hs as (Hfresh_rest & Hfresh_w).
      pose proof (chunk_pop_spec _ Hc_ok) as Hp.
      destruct (chunk_pop c) as [[x c']|] eqn:Ep.
      + destruct Hp as (Hit & Hok' & Hcap' & Hwr' & Hrd').
        unfold with_read; cbn. split; [|split; [|auto]].
        * split7; cbn; auto.
          -- constructor; auto. unfold cfull in *. lia.
          -- unfold qabs in *; cbn in *. rewrite Er in Hc; cbn in Hc. rewrite Hit in Hc; cbn in Hc.
             lia.
        * unfold qabs; cbn. rewrite Er; cbn. now rewrite Hit.
      + destruct Hp as (Hit & _).
        destruct rest as [|c2 rest2].
        * (* advance to the write chunk, which is fresh hence non-empty *)
          pose proof (chunk_pop_spec _ Hw) as Hp2.
          destruct (chunk_pop (wchunk q)) as [[x w']|] eqn:Ep2.
          -- destruct Hp2 as (Hit2 & Hok2 & Hcap2 & Hwr2 & Hrd2).
             unfold with_read; cbn. split; [|split; [|auto]].
             ++ split7; cbn; auto.
                unfold qabs in *; cbn in *. rewrite Er in Hc; cbn in Hc.
                rewrite Hit, Hit2 in Hc; cbn in Hc.
                lia.
             ++ unfold qabs; cbn. rewrite Er; cbn. now rewrite Hit, Hit2.
          -- exfalso. destruct Hp2 as (_ & Heq). unfold cfresh in Hfresh_w. lia.
        * inversion Hrest_ok as [|? ? Hc2_ok Hrest2_ok]; subst.
          inversion Hrest_full as [|? ? Hc2_full Hrest2_full]; subst.
          inversion Hfresh_rest as [|? ? Hc2_fresh Hrest2_fresh]; subst.
          pose proof (chunk_pop_spec _ Hc2_ok) as Hp2.
          destruct (chunk_pop c2) as [[x c2']|] eqn:Ep2.
          -- destruct Hp2 as (Hit2 & Hok2 & Hcap2 & Hwr2 & Hrd2).
             unfold with_read; cbn. split; [|split; [|auto]].
             ++ split7; cbn; auto.
                ** constructor; auto. unfold cfull in *. lia.
                ** unfold qabs in *; cbn in *. rewrite Er in Hc; cbn in Hc.
                   rewrite Hit, Hit2 in Hc; cbn in Hc.
                   lia.
             ++ unfold qabs; cbn. rewrite Er; cbn. now rewrite Hit, Hit2.
          -- exfalso. destruct Hp2 as (_ & Heq). unfold cfresh in Hc2_fresh. lia.
  Qed.

  (* ---------------- Purge / Close / Len ---------------- *)

  Theorem purge_spec q init :
    queue_ok q -> 0 < init ->
    queue_ok (purge q init) /\ qabs (purge q init) = [] /\ qclosed (purge q init) = qclosed q.
  Proof.
    intros (Hw & Hr & Hf & Hs & Hm & Hrc & Hc) Hi.
    unfold purge, queue_ok, qabs, chunk_ok; cbn.
    repeat split; try constructor; try lia; auto.
  Qed.

  Theorem close_spec q :
    queue_ok q -> queue_ok (close q) /\ qabs (close q) = qabs q /\ qclosed (close q) = true.
  Proof.
    intros H. unfold close, queue_ok, qabs in *; cbn. tauto.
  Qed.

  (* Len is exact in every state satisfying the invariant (hence never negative) *)
  Theorem qlen_exact q : queue_ok q -> qlen q = Z.of_nat (length (qabs q)).
  Proof. intros (_ & _ & _ & _ & _ & _ & Hc). exact Hc. Qed.

  Theorem purge_values_spec q init :
    queue_ok q -> 0 < init ->
    fst (purge_values q init) = qabs q /\ queue_ok (snd (purge_values q init)) /\
    qabs (snd (purge_values q init)) = [].
  Proof. intros Hq Hi. unfold purge_values; cbn. destruct (purge_spec q init Hq Hi) as (H1 & H2 & _). auto. Qed.

  (* ---------------- every reachable queue ---------------- *)

  Inductive op := OEnq (x : A) | ODeq | OPurge (init : N) | OClose.

  Definition apply_op (q : queue) (o : op) : queue :=
    match o with
    | OEnq x => snd (enqueue q x)
    | ODeq => snd (dequeue q)
    | OPurge i => purge q i
    | OClose => close q
    end.

  Definition op_ok (o : op) : Prop := match o with OPurge i => 0 < i | _ => True end.

  (* the list specification *)
  Definition spec_op (closed_l : bool * list A) (o : op) : bool * list A :=
    let '(cl, l) := closed_l in
    match o with
    | OEnq x => if cl then (cl, l) else (cl, l ++ [x])
    | ODeq => (cl, tl l)
    | OPurge _ => (cl, [])
    | OClose => (true, l)
    end.

  Theorem run_refines init mx ops :
    0 < init -> 0 < mx -> Forall op_ok ops ->
    let q := fold_left apply_op ops (new_queue init mx) in
    queue_ok q /\
    (qclosed q, qabs q) = fold_left spec_op ops (false, []).
  Proof.
    intros Hi Hm Hops.
    assert (G : forall ops q l,
               Forall op_ok ops -> queue_ok q -> (qclosed q, qabs q) = l ->
               queue_ok (fold_left apply_op ops q) /\
               (qclosed (fold_left apply_op ops q), qabs (fold_left apply_op ops q))
               = fold_left spec_op ops l).
    { clear. induction ops as [|o ops IH]; intros q l Hops Hq Hl; cbn; [split; assumption|].
      inversion Hops as [|? ? Ho Hops']; subst.
      apply IH; [assumption| |].
      - destruct o; cbn.
        + pose proof (enqueue_spec q x Hq) as S. destruct (enqueue q x). cbn. tauto.
        + pose proof (dequeue_spec q Hq) as S. destruct (dequeue q). cbn. tauto.
        + apply purge_spec; assumption.
        + apply close_spec; assumption.
      - destruct o; cbn.
        + pose proof (enqueue_spec q x Hq) as S. destruct (enqueue q x) as [ok q']. cbn.
          destruct S as (_ & Hok & Hab & Hcl & _). rewrite Hcl, Hab, Hok.
          destruct (qclosed q); reflexivity.
        + pose proof (dequeue_spec q Hq) as S. destruct (dequeue q) as [r q']. cbn.
          destruct S as (_ & Hab & Hcl & _). rewrite Hcl.
          destruct r; [rewrite Hab; reflexivity | destruct Hab as [-> ->]; reflexivity].
        + reflexivity.
        + reflexivity. }
    cbn. apply G; auto using new_queue_ok.
  Qed.

  (* what Dequeue returns is the head of the specification list *)
  Theorem dequeue_returns_head q :
    queue_ok q -> fst (dequeue q) = hd_error (qabs q).
  Proof.
    intros Hq. pose proof (dequeue_spec q Hq) as S. destruct (dequeue q) as [r q']; cbn.
    destruct S as (_ & Hab & _). destruct r; [now rewrite Hab | now destruct Hab as [-> _]].
  Qed.

  Theorem closed_rejects (q : queue) (x : A) : qclosed q = true -> enqueue q x = (false, q).
  Proof. intros H. unfold enqueue. now rewrite H. Qed.

End FifoProofs.
