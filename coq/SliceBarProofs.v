(* SliceBarProofs.v — a barrier call that returns has established; while an established caller
   is fresh the hold is in force (so no worker function is executing and none can start,
   SliceDispProofs.hold_blocks_everything); a caller stays fresh until Running / Initiated is
   stored (Resume, Restart, start) or it calls again. *)
From Coq Require Import List Arith Bool Lia.
From VQ Require Import SliceDisp SliceDispProofs SliceBar.
Import ListNotations.

Definition XReachable (s : xstate) : Prop := exists st0 es, xrun (xinit st0) es = Some s.

Record XInv (s : xstate) : Prop := mkXInv {
  x_reach : DReachable (xd s);
  x_fresh : forall t, In t (fresh s) -> hold (xd s) = true;
  x_incl : forall t, In t (fresh s) -> In t (est s)
}.

Lemma xrem_in t u l : In u (xrem t l) -> In u l.
Proof. unfold xrem. intros H. apply filter_In in H. tauto. Qed.

Lemma dreach_step s e s' : DReachable s -> dstep s e = Some s' -> DReachable s'.
Proof. intros R H. apply (dreachable_ext s [e] s' R). cbn [drun]. rewrite H. reflexivity. Qed.

Lemma xinit_inv st0 : XInv (xinit st0).
Proof.
  constructor; cbn; try contradiction.
  exists st0, []. reflexivity.
Qed.

Lemma curload_hold s v s' :
  dstep s (DCurLoad v) = Some s' -> hold s' = hold s || (Nat.eqb v 0 && halted (wstat s)).
Proof.
  cbn. destruct (Nat.eqb v (cur s)); [|discriminate]. intros H. inversion H; subst. reflexivity.
Qed.

Lemma stload_same s v s' : dstep s (DStatusLoad v) = Some s' -> s' = s.
Proof. cbn. destruct (Nat.eqb v (wstat s)); [|discriminate]. intros H. inversion H. reflexivity. Qed.

Lemma xstep_inv s e s' : XInv s -> xstep s e = Some s' -> XInv s'.
Proof.
  intros [R F I] H. destruct e as [e|t|t v|t v|t]; cbn [xstep] in H.
  - destruct (dstep (xd s) e) as [d|] eqn:E; [|discriminate]. inversion H; subst; clear H.
    constructor; cbn.
    + eapply dreach_step; eauto.
    + destruct (resumes e) eqn:Re; intros t Ht; [destruct Ht|].
      destruct (hold_persists (xd s) e d (F t Ht) E) as [Hh|(v & -> & Hv)]; [exact Hh|].
      cbn in Re. rewrite Hv in Re. discriminate.
    + destruct (resumes e); intros t Ht; [destruct Ht|]. auto.
  - inversion H; subst; clear H. constructor; cbn.
    + exact R.
    + intros u Hu. apply (F u). eapply xrem_in; eauto.
    + intros u Hu. unfold xrem in *. apply filter_In in Hu. destruct Hu as [Hu Hn].
      apply filter_In. split; auto.
  - destruct (dstep (xd s) (DCurLoad v)) as [d|] eqn:E; [|discriminate].
    pose proof (curload_hold _ _ _ E) as Hh.
    destruct (Nat.eqb v 0 && halted (wstat (xd s))) eqn:C; inversion H; subst; clear H; constructor; cbn.
    + eapply dreach_step; eauto.
    + intros u _. rewrite Hh. apply orb_true_r.
    + intros u [->|Hu]; [left; reflexivity | right; auto].
    + eapply dreach_step; eauto.
    + intros u Hu. rewrite Hh, (F u Hu). reflexivity.
    + auto.
  - destruct (dstep (xd s) (DStatusLoad v)) as [d|] eqn:E; [|discriminate].
    pose proof (stload_same _ _ _ E) as ->.
    destruct (Nat.eqb v wStopped && hold (xd s)) eqn:C; inversion H; subst; clear H; constructor; cbn; auto.
    + intros u _. apply andb_prop in C. tauto.
    + intros u [->|Hu]; [left; reflexivity | right; auto].
  - destruct (xmem t (est s)); inversion H; subst. constructor; auto.
Qed.

Lemma xrun_inv es : forall s s', XInv s -> xrun s es = Some s' -> XInv s'.
Proof.
  induction es as [|e es IH]; cbn; intros s s' I H.
  - now inversion H; subst.
  - destruct (xstep s e) as [s1|] eqn:E; [|discriminate]. eapply IH; [|exact H]. eapply xstep_inv; eauto.
Qed.

Lemma xreachable_inv s : XReachable s -> XInv s.
Proof. intros (st0 & es & H). eapply xrun_inv; [apply xinit_inv | exact H]. Qed.

(* a barrier call returns only after its caller has established *)
Theorem return_needs_establishment s t s' : xstep s (XRet t) = Some s' -> In t (est s) /\ s' = s.
Proof.
  cbn. destruct (xmem t (est s)) eqn:E; [|discriminate]. intros H. inversion H; subst. split; [|reflexivity].
  unfold xmem in E. apply existsb_exists in E. destruct E as (x & Hx & Ex). apply Nat.eqb_eq in Ex. subst. exact Hx.
Qed.

(* establishing = reading 0 in flight on a halted worker (or Stopped under a hold): from then on
   the caller is fresh *)
Theorem establishment_is_a_hold_point s t v s' :
  xstep s (XCurLoad t v) = Some s' -> In t (est s') -> ~ In t (est s) ->
  v = 0 /\ halted (wstat (xd s)) = true /\ hold (xd s') = true /\ In t (fresh s').
Proof.
  cbn [xstep]. destruct (dstep (xd s) (DCurLoad v)) as [d|] eqn:E; [|discriminate].
  pose proof (curload_hold _ _ _ E) as Hh.
  destruct (Nat.eqb v 0 && halted (wstat (xd s))) eqn:C; intros H; inversion H; subst; clear H; cbn; intros Hi Hn.
  - apply andb_prop in C. destruct C as [C1 C2]. apply Nat.eqb_eq in C1. repeat split; auto.
    + rewrite Hh. apply orb_true_r.
  - contradiction.
Qed.

(* while a caller is fresh the hold is in force: nothing runs, nothing can start *)
Theorem fresh_caller_holds s t :
  XReachable s -> In t (fresh s) ->
  hold (xd s) = true /\ jl (xd s) <> JRun /\ dstep (xd s) DWfEnterJ = None /\ dstep (xd s) DDeqJ = None /\
  okr (xd s) = 0 /\ oth (xd s) = 0.
Proof.
  intros R Ht. apply xreachable_inv in R. destruct R as [R F I].
  pose proof (F t Ht) as Hh. destruct (hold_blocks_everything (xd s) R Hh) as (A & B & C & _ & D & E).
  repeat split; auto.
Qed.

(* a caller stays fresh until Running / Initiated is stored, or it calls again *)
Theorem fresh_until_resume s e s' t :
  xstep s e = Some s' -> In t (fresh s) ->
  In t (fresh s') \/ (exists d, e = XD d /\ resumes d = true) \/ e = XCall t.
Proof.
  intros H Ht. destruct e as [e|u|u v|u v|u]; cbn [xstep] in H.
  - destruct (dstep (xd s) e) as [d|]; [|discriminate]. inversion H; subst; cbn.
    destruct (resumes e) eqn:Re; [right; left; eauto | left; exact Ht].
  - inversion H; subst; cbn. destruct (Nat.eq_dec u t) as [->|Hne]; [right; right; reflexivity|].
    left. unfold xrem. apply filter_In. split; [exact Ht|]. apply negb_true_iff, Nat.eqb_neq. congruence.
  - destruct (dstep (xd s) (DCurLoad v)) as [d|]; [|discriminate].
    destruct (Nat.eqb v 0 && halted (wstat (xd s))); inversion H; subst; cbn; auto.
  - destruct (dstep (xd s) (DStatusLoad v)) as [d|]; [|discriminate].
    destruct (Nat.eqb v wStopped && hold (xd s)); inversion H; subst; cbn; auto.
  - destruct (xmem u (est s)); inversion H; subst; auto.
Qed.
