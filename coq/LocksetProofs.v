(* LocksetProofs.v — under the lock discipline no two threads can be about to perform
   conflicting accesses to a protected location (the adjacent-conflict characterisation of a
   data race under sequentially consistent interleavings), for every event list. *)
From Coq Require Import List Arith Bool Lia.
From VQ Require Import Lockset.
Import ListNotations.

Definition LkInv (s : lkstate) : Prop := forall t, writer s = Some t -> readers s = [].

Lemma lkinit_inv : LkInv lkinit.
Proof. intros t H; discriminate. Qed.

Lemma lkstep_inv s e s' : LkInv s -> lkstep s e = Some s' -> LkInv s'.
Proof.
  intros I H. destruct s as [w r]. unfold LkInv in *; cbn in *. destruct e; cbn in H.
  - destruct w; [discriminate|]. destruct r; [|discriminate]. inversion H; subst; cbn; auto.
  - unfold is_writer in H; cbn in H. destruct w; [|discriminate]. destruct (Nat.eqb n t); [|discriminate].
    inversion H; subst; cbn. intros; discriminate.
  - destruct w; [discriminate|]. inversion H; subst; cbn. intros; discriminate.
  - destruct (remove_one t r) eqn:E; [|discriminate]. inversion H; subst; cbn. intros t0 Hw.
    rewrite (I t0 Hw) in E. discriminate.
  - destruct (_ || _); [|discriminate]. inversion H; subst; auto.
  - destruct (is_writer _ _); [|discriminate]. inversion H; subst; auto.
Qed.

Lemma lkrun_inv es : forall s s', LkInv s -> lkrun s es = Some s' -> LkInv s'.
Proof.
  induction es as [|e es IH]; cbn; intros s s' I H; [now inversion H; subst|].
  destruct (lkstep s e) as [s1|] eqn:E; [|discriminate]. eapply IH; [|exact H]. eapply lkstep_inv; eauto.
Qed.

Definition LkReachable (s : lkstate) : Prop := exists es, lkrun lkinit es = Some s.

(* no adjacent conflict: if a write by t1 is enabled, no access by another thread is *)
Theorem no_adjacent_conflict s t1 t2 :
  LkReachable s ->
  lkstep s (LWrite t1) <> None ->
  (lkstep s (LWrite t2) <> None \/ lkstep s (LRead t2) <> None) ->
  t1 = t2.
Proof.
  intros [es R] H1 H2. assert (I : LkInv s) by (eapply lkrun_inv; [apply lkinit_inv | exact R]).
  destruct s as [w r]. unfold LkInv in I. cbn in *. unfold is_writer, is_reader in *; cbn in *.
  destruct w as [x|]; [|congruence].
  destruct (Nat.eqb_spec x t1); [subst|congruence].
  rewrite (I t1 eq_refl) in *. cbn in *.
  destruct (Nat.eqb_spec t1 t2); auto.
  destruct H2 as [H2|H2]; rewrite ?orb_false_r in H2; congruence.
Qed.

(* the lock itself is exclusive: a writer excludes every other holder *)
Theorem writer_excludes s t : LkReachable s -> writer s = Some t -> readers s = [].
Proof. intros [es R] H. assert (I : LkInv s) by (eapply lkrun_inv; [apply lkinit_inv | exact R]). apply (I t H). Qed.
