(* LocksetProofs.v — under the lock discipline no two threads can be about to perform
   conflicting accesses to a protected location (the adjacent-conflict characterisation of a
   data race under sequentially consistent interleavings), for every event list. *)
From Coq Require Import List Arith Bool Lia.
From VQ Require Import Lockset.
Import ListNotations.

Definition LkInv (s : lkstate) : Prop := forall t, writer s = Some t -> readers s = [].

Lemma lkinit_inv : LkInv lkinit.
Proof. intros t H; discriminate. Qed.

Lemma lkstep_inv s e s' : LkInv s -> lkstep s e = Some s' -> LkInv s'.
Proof.
  intros I H. destruct s as [w r]. unfold LkInv in *; cbn in *. destruct e; cbn in H.
  - destruct w; [discriminate|]. destruct r; [|discriminate]. inversion H; subst; cbn; auto.
  - unfold is_writer in H; cbn in H. destruct w; [|discriminate]. destruct (Nat.eqb n t); [|discriminate].
    inversion H; subst; cbn. intros; discriminate.
  - destruct w; [discriminate|]. unfold is_reader in H; cbn in H. destruct (existsb _ _); [discriminate|]. inversion H; subst; cbn. intros; discriminate.
  - destruct (remove_one t r) eqn:E; [|discriminate]. inversion H; subst; cbn. intros t0 Hw.
    rewrite (I t0 Hw) in E. discriminate.
  - destruct (_ || _); [|discriminate]. inversion H; subst; auto.
  - destruct (is_writer _ _); [|discriminate]. inversion H; subst; auto.
Qed.

Lemma lkrun_inv es : forall s s', LkInv s -> lkrun s es = Some s' -> LkInv s'.
Proof.
  induction es as [|e es IH]; cbn; intros s s' I H; [now inversion H; subst|].
  destruct (lkstep s e) as [s1|] eqn:E; [|discriminate]. eapply IH; [|exact H]. eapply lkstep_inv; eauto.
Qed.

Definition LkReachable (s : lkstate) : Prop := exists es, lkrun lkinit es = Some s.

(* no adjacent conflict: if a write by t1 is enabled, no access by another thread is *)
Theorem no_adjacent_conflict s t1 t2 :
  LkReachable s ->
  lkstep s (LWrite t1) <> None ->
  (lkstep s (LWrite t2) <> None \/ lkstep s (LRead t2) <> None) ->
  t1 = t2.
Proof.
  intros [es R] H1 H2. assert (I : LkInv s) by (eapply lkrun_inv; [apply lkinit_inv | exact R]).
  destruct s as [w r]. unfold LkInv in I. cbn in *. unfold is_writer, is_reader in *; cbn in *.
  destruct w as [x|]; [|congruence].
  destruct (Nat.eqb_spec x t1); [subst|congruence].
  rewrite (I t1 eq_refl) in *. cbn in *.
  destruct (Nat.eqb_spec t1 t2); auto.
  destruct H2 as [H2|H2]; rewrite ?orb_false_r in H2; congruence.
Qed.

(* the lock itself is exclusive: a writer excludes every other holder *)
Theorem writer_excludes s t : LkReachable s -> writer s = Some t -> readers s = [].
Proof. intros [es R] H. assert (I : LkInv s) by (eapply lkrun_inv; [apply lkinit_inv | exact R]). apply (I t H). Qed.

(* ---------------------------------------------------------------- ordering through the lock
   Any two conflicting accesses by different threads in a trace that follows the discipline are
   separated by a release of the lock by the first thread and a later acquisition by the second,
   at least one of the two in exclusive mode — exactly the pairs the Go memory model orders
   (sync.Mutex / sync.RWMutex: "the n-th Unlock is synchronized before the m-th Lock returns",
   RUnlock before the next Lock, Unlock before later RLocks). So the accesses are ordered by
   happens-before in every execution that produces such a trace: no data race on a location
   whose every access follows the discipline. *)

Lemma lkrun_app a : forall s b, lkrun s (a ++ b) = match lkrun s a with Some s1 => lkrun s1 b | None => None end.
Proof.
  induction a as [|e a IH]; intros s b; cbn; [reflexivity|].
  destruct (lkstep s e); [apply IH|reflexivity].
Qed.

Lemma remove_one_keeps t t1 : forall l r, remove_one t l = Some r -> t <> t1 ->
  existsb (Nat.eqb t1) r = existsb (Nat.eqb t1) l.
Proof.
  induction l as [|x l IH]; intros r H Ne; cbn in *; [discriminate|].
  destruct (Nat.eqb_spec x t).
  - inversion H; subst. destruct (Nat.eqb_spec t1 t); [congruence|reflexivity].
  - destruct (remove_one t l) as [r'|] eqn:E; [|discriminate]. inversion H; subst. cbn.
    rewrite (IH r' eq_refl Ne). reflexivity.
Qed.

Lemma existsb_eqb_in t l : existsb (Nat.eqb t) l = true -> l <> [].
Proof. destruct l; [discriminate|discriminate]. Qed.

(* a thread that does not hold the lock in write mode and later does has taken LLock *)
Lemma becomes_writer t2 mid : forall s s',
  is_writer s t2 = false -> lkrun s mid = Some s' -> is_writer s' t2 = true ->
  exists a c, mid = a ++ LLock t2 :: c.
Proof.
  induction mid as [|e mid IH]; intros s s' Nw R W; cbn in R.
  - inversion R; subst. congruence.
  - destruct (lkstep s e) as [s1|] eqn:E; [|discriminate].
    destruct (is_writer s1 t2) eqn:W1.
    + (* e made t2 the writer *)
      destruct e; cbn in E.
      * destruct (writer s); [discriminate|]. destruct (readers s); [|discriminate]. inversion E; subst.
        unfold is_writer in W1; cbn in W1. apply Nat.eqb_eq in W1. subst. exists [], mid. reflexivity.
      * destruct (is_writer s t); [|discriminate]. inversion E; subst. discriminate.
      * destruct (writer s) eqn:Ws; [discriminate|]. destruct (is_reader s t) eqn:Ir; [discriminate|]. inversion E; subst. discriminate.
      * destruct (remove_one t (readers s)); [|discriminate]. inversion E; subst.
        unfold is_writer in *; cbn in *. congruence.
      * destruct (_ || _); [|discriminate]. inversion E; subst. congruence.
      * destruct (is_writer s t); [|discriminate]. inversion E; subst. congruence.
    + destruct (IH s1 s' W1 R W) as [a [c H]]. exists (e :: a), c. now rewrite H.
Qed.

(* a thread that does not hold the lock and later does has acquired it *)
Lemma becomes_holder t2 mid : forall s s',
  holds s t2 = false -> lkrun s mid = Some s' -> holds s' t2 = true ->
  exists a q c x, mid = a ++ q :: c /\ acquire_by t2 q x.
Proof.
  induction mid as [|e mid IH]; intros s s' Nh R H; cbn in R.
  - inversion R; subst. congruence.
  - destruct (lkstep s e) as [s1|] eqn:E; [|discriminate].
    destruct (holds s1 t2) eqn:H1.
    + unfold holds in Nh. apply orb_false_iff in Nh. destruct Nh as [Nw Nr].
      destruct e; cbn in E.
      * destruct (writer s); [discriminate|]. destruct (readers s); [|discriminate]. inversion E; subst.
        unfold holds, is_writer, is_reader in H1; cbn in H1. rewrite orb_false_r in H1. apply Nat.eqb_eq in H1. subst.
        exists [], (LLock t2), mid, true. split; [reflexivity|cbn; auto].
      * destruct (is_writer s t); [|discriminate]. inversion E; subst.
        unfold holds, is_writer, is_reader in *; cbn in *. congruence.
      * destruct (writer s) eqn:Ws; [discriminate|]. destruct (is_reader s t) eqn:Ir; [discriminate|]. inversion E; subst.
        unfold holds, is_writer, is_reader in *; cbn in *. rewrite Ws in *. cbn in H1.
        rewrite Nr, orb_false_r in H1. apply Nat.eqb_eq in H1. subst.
        exists [], (LRLock t), mid, false. split; [reflexivity|cbn; auto].
      * destruct (remove_one t (readers s)) as [r|] eqn:Rm; [|discriminate]. inversion E; subst.
        unfold holds, is_writer, is_reader in *; cbn in *. rewrite Nw in H1. cbn in H1.
        destruct (Nat.eq_dec t t2) as [->|Ne].
        -- (* t2 released a read lock it did not hold: impossible *)
           exfalso. clear -Rm Nr. revert r Rm. induction (readers s) as [|x l IHl]; intros r Rm; cbn in *; [discriminate|].
           apply orb_false_iff in Nr. destruct Nr as [Nx Nl].
           destruct (Nat.eqb_spec x t2); [subst; rewrite Nat.eqb_refl in Nx; discriminate|].
           destruct (remove_one t2 l); [|discriminate]. eapply IHl; eauto.
        -- rewrite (remove_one_keeps t t2 _ _ Rm Ne) in H1. congruence.
      * destruct (_ || _); [|discriminate]. inversion E; subst. unfold holds in H1. rewrite Nw, Nr in H1. discriminate.
      * destruct (is_writer s t); [|discriminate]. inversion E; subst. unfold holds in H1. rewrite Nw, Nr in H1. discriminate.
    + destruct (IH s1 s' H1 R H) as [a [q [c [x [Hm Hq]]]]]. exists (e :: a), q, c, x. split; [now rewrite Hm|exact Hq].
Qed.

(* after a write-mode holder: it unlocks before anybody else holds the lock *)
Lemma writer_then_other t1 t2 mid : forall s s',
  LkInv s -> writer s = Some t1 -> t1 <> t2 -> lkrun s mid = Some s' -> holds s' t2 = true ->
  exists a b q c x, mid = a ++ LUnlock t1 :: b ++ q :: c /\ acquire_by t2 q x.
Proof.
  induction mid as [|e mid IH]; intros s s' I W Ne R H; cbn in R.
  - injection R as <-. exfalso. pose proof (I t1 W) as Rs.
    unfold holds, is_writer, is_reader in H. rewrite W, Rs in H. cbn in H. rewrite orb_false_r in H.
    apply Nat.eqb_eq in H. congruence.
  - destruct (lkstep s e) as [s1|] eqn:E; [|discriminate].
    pose proof (lkstep_inv s e s1 I E) as I1. pose proof (I t1 W) as Rs.
    destruct e; cbn in E.
    + rewrite W in E. discriminate.
    + unfold is_writer in E. rewrite W in E. destruct (Nat.eqb_spec t1 t); [subst t|discriminate]. inversion E; subst.
      assert (Nh : holds {| writer := None; readers := readers s |} t2 = false).
      { unfold holds, is_writer, is_reader; cbn. rewrite Rs. reflexivity. }
      destruct (becomes_holder t2 mid _ s' Nh R H) as [b [q [c [x [Hm Hq]]]]].
      exists [], b, q, c, x. split; [cbn; now rewrite Hm|exact Hq].
    + rewrite W in E. discriminate.
    + rewrite Rs in E. discriminate.
    + destruct (_ || _); [|discriminate]. inversion E; subst.
      destruct (IH s1 s' I W Ne R H) as [a [b [q [c [x [Hm Hq]]]]]]. exists (LRead t :: a), b, q, c, x. split; [now rewrite Hm|exact Hq].
    + destruct (is_writer s t); [|discriminate]. inversion E; subst.
      destruct (IH s1 s' I W Ne R H) as [a [b [q [c [x [Hm Hq]]]]]]. exists (LWrite t :: a), b, q, c, x. split; [now rewrite Hm|exact Hq].
Qed.

(* after a read-mode holder: it releases before anybody else holds the lock in write mode *)
Lemma reader_then_writer t1 t2 mid : forall s s',
  LkInv s -> is_reader s t1 = true -> t1 <> t2 -> lkrun s mid = Some s' -> is_writer s' t2 = true ->
  exists a b c, mid = a ++ LRUnlock t1 :: b ++ LLock t2 :: c.
Proof.
  induction mid as [|e mid IH]; intros s s' I Rd Ne R W; cbn in R.
  - injection R as <-. exfalso. unfold is_writer in W. destruct (writer s) as [x|] eqn:Ws; [|discriminate].
    unfold is_reader in Rd. rewrite (I x Ws) in Rd. discriminate.
  - destruct (lkstep s e) as [s1|] eqn:E; [|discriminate].
    pose proof (lkstep_inv s e s1 I E) as I1.
    assert (Wn : writer s = None).
    { destruct (writer s) as [x|] eqn:Ws; [|reflexivity]. unfold is_reader in Rd. rewrite (I x Ws) in Rd. discriminate. }
    assert (Keep : is_reader s1 t1 = true ->
              exists a b c, e :: mid = a ++ LRUnlock t1 :: b ++ LLock t2 :: c).
    { intros Rd1. destruct (IH s1 s' I1 Rd1 Ne R W) as [a [b [c Hm]]]. exists (e :: a), b, c. now rewrite Hm. }
    destruct e; cbn in E.
    + rewrite Wn in E. unfold is_reader in Rd. destruct (readers s); [discriminate|discriminate].
    + unfold is_writer in E. rewrite Wn in E. discriminate.
    + rewrite Wn in E. destruct (is_reader s t) eqn:Ir; [discriminate|]. inversion E; subst. apply Keep. unfold is_reader in *; cbn. rewrite Rd. apply orb_true_r.
    + destruct (remove_one t (readers s)) as [r|] eqn:Rm; [|discriminate]. inversion E; subst.
      destruct (Nat.eq_dec t t1) as [->|Nt].
      * destruct (is_reader {| writer := writer s; readers := r |} t1) eqn:Rd1; [now apply Keep|].
        assert (Nw : is_writer {| writer := writer s; readers := r |} t2 = false).
        { unfold is_writer; cbn. now rewrite Wn. }
        destruct (becomes_writer t2 mid _ s' Nw R W) as [b [c Hm]].
        exists [], b, c. cbn. now rewrite Hm.
      * apply Keep. unfold is_reader in *; cbn. now rewrite (remove_one_keeps t t1 _ _ Rm Nt).
    + destruct (_ || _); [|discriminate]. inversion E; subst. now apply Keep.
    + destruct (is_writer s t); [|discriminate]. inversion E; subst. now apply Keep.
Qed.

Theorem conflicting_accesses_ordered_by_lock pre a1 mid a2 s t1 w1 t2 w2 :
  lkrun lkinit (pre ++ a1 :: mid ++ [a2]) = Some s ->
  acc_of a1 = Some (t1, w1) -> acc_of a2 = Some (t2, w2) ->
  t1 <> t2 -> w1 || w2 = true ->
  exists m1 r m2 q m3 xr xq,
    mid = m1 ++ r :: m2 ++ q :: m3 /\ release_by t1 r xr /\ acquire_by t2 q xq /\ xr || xq = true.
Proof.
  intros R A1 A2 Ne Cw.
  rewrite lkrun_app in R. destruct (lkrun lkinit pre) as [s0|] eqn:R0; [|discriminate].
  assert (I0 : LkInv s0) by (eapply lkrun_inv; [apply lkinit_inv|exact R0]).
  cbn in R. destruct (lkstep s0 a1) as [s0'|] eqn:E1; [|discriminate].
  rewrite lkrun_app in R. destruct (lkrun s0' mid) as [s1|] eqn:Rm; [|discriminate].
  cbn in R. destruct (lkstep s1 a2) as [s2|] eqn:E2; [|discriminate].
  (* what the two accesses need *)
  assert (H2 : holds s1 t2 = true /\ (w2 = true -> is_writer s1 t2 = true)).
  { destruct a2; cbn in A2; try discriminate; inversion A2; subst; cbn in E2.
    - unfold holds. destruct (_ || _); [|discriminate]. split; [reflexivity|discriminate].
    - unfold holds. destruct (is_writer s1 t2); [|discriminate]. split; [reflexivity|reflexivity]. }
  destruct H2 as [H2 W2].
  assert (S0 : s0' = s0 /\ holds s0 t1 = true /\ (w1 = true -> is_writer s0 t1 = true)).
  { destruct a1; cbn in A1; try discriminate; inversion A1; subst; cbn in E1.
    - unfold holds. destruct (_ || _); [|discriminate]. inversion E1. repeat split; auto. discriminate.
    - unfold holds. destruct (is_writer s0 t1); [|discriminate]. inversion E1. repeat split; auto. }
  destruct S0 as [-> [H1 W1]].
  destruct (is_writer s0 t1) eqn:Wr.
  - (* t1 holds the lock exclusively at its access *)
    assert (Ws : writer s0 = Some t1).
    { unfold is_writer in Wr. destruct (writer s0) as [x|]; [|discriminate]. apply Nat.eqb_eq in Wr. now subst. }
    destruct (writer_then_other t1 t2 mid s0 s1 I0 Ws Ne Rm H2) as [a [b [q [c [x [Hm Hq]]]]]].
    exists a, (LUnlock t1), b, q, c, true, x. repeat split; auto.
  - (* t1 only reads, under a read lock; so the second access writes *)
    assert (w1 = false) by (destruct w1; [specialize (W1 eq_refl); discriminate|reflexivity]). subst w1.
    cbn in Cw. subst w2. specialize (W2 eq_refl).
    assert (Rd : is_reader s0 t1 = true) by (unfold holds in H1; rewrite Wr in H1; exact H1).
    destruct (reader_then_writer t1 t2 mid s0 s1 I0 Rd Ne Rm W2) as [a [b [c Hm]]].
    exists a, (LRUnlock t1), b, (LLock t2), c, false, true. repeat split; auto.
Qed.

(* a thread never takes the lock in read mode while it already holds it in read mode: with
   sync.RWMutex a writer arriving between the two acquisitions waits for the first to be released
   and keeps the second out — a deadlock that needs no second reader *)
Theorem no_recursive_read_lock s t s' : lkstep s (LRLock t) = Some s' -> is_reader s t = false /\ writer s = None.
Proof.
  cbn. destruct (writer s); [discriminate|]. destruct (is_reader s t); [discriminate|]. auto.
Qed.

