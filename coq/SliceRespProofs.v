(* SliceRespProofs.v — every Response() call on a job handle yields that job's own outcome, the
   same on every call; for every interleaving of any number of callers with the send and the
   close. *)
From Coq Require Import List Arith Bool Lia.
From VQ Require Import SliceResp.
Import ListNotations.

Record RInv (s : rstate) : Prop := mkRInv {
  r_cap : rcap s = 1;
  r_buf : match rsent s with
          | None => rch s = [] /\ rres s = 0
          | Some v => rres s = v /\ (rch s = [v] \/ rch s = [])
          end;
  r_closes : rcloses s = if rclosed s then 1 else 0
}.

Lemma rinit_inv : RInv rinit.
Proof. constructor; cbn; auto. Qed.

Lemma rstep_inv s e s' : RInv s -> rstep s e = Some s' -> RInv s'.
Proof.
  intros [C B K] H. destruct s as [ch cap cl res sent n sto]; cbn in *. subst cap.
  destruct e as [v| |ok v| |]; cbn in H.
  - destruct sent; [discriminate|]. destruct B as [B1 B2]. subst ch res. cbn in H.
    destruct cl; cbn in H; [discriminate|]. destruct sto; cbn in H; [|discriminate]. inversion H; subst; clear H.
    constructor; cbn; auto.
  - destruct cl; [discriminate|]. inversion H; subst; clear H. constructor; cbn; auto.
  - destruct ok.
    + destruct ch as [|x r]; [discriminate|]. destruct (Nat.eqb x v) eqn:E; [|discriminate].
      inversion H; subst; clear H. apply Nat.eqb_eq in E. subst.
      constructor; cbn; auto. destruct sent; cbn in *.
      * destruct B as [B1 [B2|B2]]; [inversion B2; subst; auto | discriminate].
      * destruct B; discriminate.
    + destruct (cl && (length ch =? 0) && (v =? res)) eqn:E; [|discriminate]. inversion H; subst. constructor; auto.
  - destruct sent; [discriminate|]. destruct sto; [discriminate|]. inversion H; subst; clear H. constructor; cbn; auto.
  - destruct cl; [|discriminate]. inversion H; subst. constructor; auto.
Qed.

Lemma rrun_inv es : forall s s', RInv s -> rrun s es = Some s' -> RInv s'.
Proof.
  induction es as [|e es IH]; cbn; intros s s' I H; [now inversion H; subst|].
  destruct (rstep s e) as [s1|] eqn:E; [|discriminate]. eapply IH; [|exact H]. eapply rstep_inv; eauto.
Qed.

Definition RReachable (s : rstate) : Prop := exists es, rrun rinit es = Some s.

Lemma rreachable_inv s : RReachable s -> RInv s.
Proof. intros [es H]. eapply rrun_inv; [apply rinit_inv | exact H]. Qed.

(* whatever a Response() call returns — received from the channel or read back after the
   close — is the value the job's worker function produced, if it produced one; otherwise the
   zero value. Hence all calls on one handle agree. *)
Theorem response_is_own_outcome s ok v s' :
  RReachable s -> rstep s (RRecv ok v) = Some s' ->
  match rsent s with Some x => v = x | None => v = 0 end.
Proof.
  intros R H. apply rreachable_inv in R. destruct R as [C B K].
  destruct s as [ch cap cl res sent n sto]; cbn in *. destruct ok.
  - destruct ch as [|x r]; [discriminate|]. destruct (Nat.eqb x v) eqn:E; [|discriminate].
    apply Nat.eqb_eq in E. subst. destruct sent.
    + destruct B as [_ [B|B]]; [inversion B; auto | discriminate].
    + destruct B; discriminate.
  - destruct (cl && (length ch =? 0) && (v =? res)) eqn:E; [|discriminate].
    apply andb_prop in E as [_ E]. apply Nat.eqb_eq in E. subst.
    destruct sent; [destruct B; auto | destruct B; auto].
Qed.

(* Response() is enabled only once the outcome is buffered or the response is closed: it never
   returns early *)
Theorem response_waits s ok v s' :
  rstep s (RRecv ok v) = Some s' -> rch s <> [] \/ rclosed s = true.
Proof.
  intros H. destruct s as [ch cap cl res sent n sto]; cbn in *. destruct ok.
  - destruct ch; [discriminate|]. left; discriminate.
  - destruct cl; cbn in H; [auto | discriminate].
Qed.

Theorem send_needs_store s v s' : rstep s (RSend v) = Some s' -> rstored s = true.
Proof.
  intros H. destruct s as [ch cap cl res sent n sto]; cbn in *.
  destruct sent; [discriminate|]. destruct sto; [reflexivity|].
  rewrite andb_false_r in H. discriminate.
Qed.

Theorem no_store_after_send s s' : RReachable s -> rsent s <> None -> rstep s RStore = Some s' -> False.
Proof. intros _ N H. cbn in H. destruct (rsent s) eqn:E; [discriminate|]. now apply N. Qed.

(* the response is closed at most once *)
Theorem response_closed_once s : RReachable s -> rcloses s <= 1.
Proof. intros R. apply rreachable_inv in R. rewrite (r_closes s R). destruct (rclosed s); lia. Qed.

(* the wrappers: a panic is that job's error, counted as failed and offered on the error
   channel, for every worker kind; a job counts as exactly one of Successful / Failed *)
Theorem panic_is_contained k m :
  failed (deliver k (OPanic m)) = true /\ offers_error (deliver k (OPanic m)) = true /\
  (k <> KPlain -> sends (deliver k (OPanic m)) = Some (m, true)).
Proof. destruct k; cbn; repeat split; congruence. Qed.

Theorem value_is_delivered v : sends (deliver KResult (OValue v)) = Some (v, false) /\ failed (deliver KResult (OValue v)) = false.
Proof. cbn; auto. Qed.

Theorem error_is_delivered k e : k <> KPlain -> sends (deliver k (OError e)) = Some (e, true) /\ failed (deliver k (OError e)) = true.
Proof. destruct k; cbn; intros; try congruence; auto. Qed.
