(* Manager.v — executable model of internal/helpers/manager.go (the registered-item list of a
   worker and the three queue-selection strategies). Definitions only (proofs are in
   ManagerProofs.v) so that the validator still builds when a proof breaks.

   Correspondence with the Go code (checked on every run by the differential test
   go/harness/helpers/zz_verif_manager_test.go against the extracted functions):

     mgr.mcount   = len(m.items)          items are identified by their position in m.items
     mgr.mrr      = m.roundRobinIndex
     lens         = the value item.Len() returns during the call, one per position
                    (Go int on a 64-bit platform: a Z in [-2^63, 2^63); may be negative)
     swap_remove  = what UnregisterItem does to the slice m.items itself (identity tracking)

   Go [int] arithmetic wraps: the comparator handed to slices.MaxFunc is a.Len() - b.Len(), and
   Len() adds; both are modelled with [wrap_int]. *)
From Coq Require Import List ZArith Bool Arith.
Import ListNotations.

Definition mtwo63 : Z := 9223372036854775808.
Definition mtwo64 : Z := 18446744073709551616.

(* two's-complement wrap of a mathematical integer into int64 *)
Definition wrap_int (z : Z) : Z := ((z + mtwo63) mod mtwo64 - mtwo63)%Z.

Inductive sel := Picked (pos : nat) | ErrNoItems | ErrAllEmpty.

Record mgr := mkMgr { mcount : nat; mrr : nat }.

(* CreateManager *)
Definition new_mgr : mgr := mkMgr 0 0.

(* Register: append; the cursor is not touched *)
Definition register (m : mgr) : mgr := mkMgr (S (mcount m)) (mrr m).

(* UnregisterItem for the item found at position [i] (first pointer match); [i >= mcount m]
   stands for "not found": nothing happens.
     m.items[i] = m.items[last]; m.items = m.items[:last]
     if m.roundRobinIndex >= i { m.roundRobinIndex = 0 } *)
Definition unregister (m : mgr) (i : nat) : mgr :=
  if i <? mcount m
  then mkMgr (pred (mcount m)) (if i <=? mrr m then 0 else mrr m)
  else m.

Fixpoint set_nth {A : Type} (l : list A) (i : nat) (x : A) : list A :=
  match l, i with
  | [], _ => []
  | _ :: r, O => x :: r
  | y :: r, S j => y :: set_nth r j x
  end.

(* the same removal on the slice of items itself *)
Definition swap_remove {A : Type} (l : list A) (i : nat) : list A :=
  match nth_error l (length l - 1) with
  | Some x => if i <? length l then firstn (length l - 1) (set_nth l i x) else l
  | None => l
  end.

(* Manager.Len: totalLen += item.Len(), in wrapping int arithmetic *)
Definition mlen (lens : list Z) : Z := fold_left (fun a l => wrap_int (a + l)) lens 0%Z.

(* Manager.Count *)
Definition count (m : mgr) : nat := mcount m.

(* slices.MaxFunc(items, func(a, b) int { return a.Len() - b.Len() }):
     m := x[0]; for i := 1; i < len(x); i++ { if cmp(x[i], m) > 0 { m = x[i] } }
   [best]/[bl] = position and length of the current m, [i] = position of the head of [ls]. *)
Fixpoint max_from (best : nat) (bl : Z) (i : nat) (ls : list Z) : nat * Z :=
  match ls with
  | [] => (best, bl)
  | l :: r =>
      if (0 <? wrap_int (l - bl))%Z then max_from i l (S i) r else max_from best bl (S i) r
  end.

(* GetMaxLenItem. The code tests maxItem.Len() == 0 (not <= 0): a negative maximum is
   returned as a regular pick. The [[]] branch is unreachable when length lens = mcount m. *)
Definition get_max (m : mgr) (lens : list Z) : sel :=
  match mcount m with
  | O => ErrNoItems
  | S _ =>
      match lens with
      | [] => ErrNoItems
      | l0 :: r =>
          let '(p, l) := max_from 0 l0 1 r in
          if (l =? 0)%Z then ErrAllEmpty else Picked p
      end
  end.

(* GetMinLenItem: minLen := -1; for each item: l := item.Len();
     if l > 0 && (minLen == -1 || l < minLen) { minLen = l; minItem = item } *)
Fixpoint min_from (minlen : Z) (pos : nat) (i : nat) (ls : list Z) : Z * nat :=
  match ls with
  | [] => (minlen, pos)
  | l :: r =>
      if ((0 <? l) && ((minlen =? -1) || (l <? minlen)))%Z
      then min_from l i (S i) r
      else min_from minlen pos (S i) r
  end.

Definition get_min (m : mgr) (lens : list Z) : sel :=
  match mcount m with
  | O => ErrNoItems
  | S _ =>
      let '(ml, p) := min_from (-1)%Z 0 0 lens in
      if (ml =? -1)%Z then ErrAllEmpty else Picked p
  end.

(* m.roundRobinIndex = (m.roundRobinIndex + 1) % len(m.items) *)
Definition next_idx (n i : nat) : nat := (i + 1) mod n.

(* the for-loop of GetRoundRobinItem; returns the result and the final roundRobinIndex.
   [fuel] = number of items; the fuel-exhausted branch is unreachable when start < n
   (ManagerProofs.rr_loop_spec). *)
Fixpoint rr_loop (fuel n : nat) (lens : list Z) (start idx : nat) : sel * nat :=
  match fuel with
  | O => (ErrAllEmpty, idx)
  | S f =>
      let l := nth idx lens 0%Z in
      let idx' := next_idx n idx in
      if (0 <? l)%Z then (Picked idx, idx')
      else if idx' =? start then (ErrAllEmpty, idx')
      else rr_loop f n lens start idx'
  end.

(* GetRoundRobinItem *)
Definition get_rr (m : mgr) (lens : list Z) : sel * mgr :=
  match mcount m with
  | O => (ErrNoItems, m)
  | S _ =>
      let '(s, i) := rr_loop (mcount m) (mcount m) lens (mrr m) (mrr m) in
      (s, mkMgr (mcount m) i)
  end.
