(* HeapProofs.v — the priority queue (container/heap up/down over the (Priority, Index) order)
   always pops the least pending element; ties go to the earlier insertion. For every sequence
   of pushes, pops and purges, of any length, with arbitrary (also equal, negative, extreme)
   priorities. *)
From Coq Require Import List NArith ZArith Bool Arith Lia Permutation Sorted.
From Coq Require Import ZifyN ZifyNat ZifyBool.
From VQ Require Import Heap.
Import ListNotations.
Ltac Zify.zify_post_hook ::= Z.div_mod_to_equations.

Section HeapProofs.
  Context {A : Type}.
  Notation item := (item A).
  Implicit Types (l : list item) (a b c x y : item).

  (* ---------- the order ---------- *)
  Definition le a b : Prop := less b a = false.

  Ltac order :=
    unfold le, less in *;
    repeat match goal with
           | H : context [(?x =? ?y)%Z] |- _ => destruct (Z.eqb_spec x y)
           | |- context [(?x =? ?y)%Z] => destruct (Z.eqb_spec x y)
           end; lia.

  Lemma le_refl a : le a a. Proof. order. Qed.
  Lemma le_trans a b c : le a b -> le b c -> le a c. Proof. intros; order. Qed.
  Lemma less_le a b : less a b = true -> le a b. Proof. intros; order. Qed.
  Lemma nless_le a b : less a b = false -> le b a. Proof. intros; order. Qed.
  Lemma le_antisym a b : le a b -> le b a -> prio a = prio b /\ idx a = idx b.
  Proof. intros; split; order. Qed.
  Lemma le_spec a b :
    le a b <-> (prio a < prio b)%Z \/ (prio a = prio b /\ (idx a <= idx b)%N).
  Proof. split; intros; order. Qed.

  (* ---------- arrays as lists ---------- *)
  Variable d : item.
  Notation get := (get d).
  Notation swap := (swap d).
  Notation up := (up d).
  Notation down := (down d).

  Lemma length_upd l i x : length (upd l i x) = length l.
  Proof. revert i; induction l as [|h t IH]; intros [|i]; cbn; auto. Qed.

  Lemma get_upd l i x k :
    i < length l -> get (upd l i x) k = if k =? i then x else get l k.
  Proof.
    unfold Heap.get. revert i k; induction l as [|h t IH]; intros i k Hi; cbn in *; [lia|].
    destruct i as [|i]; destruct k as [|k]; cbn; auto.
    apply IH; lia.
  Qed.

  Lemma length_swap l i j : length (swap l i j) = length l.
  Proof. unfold Heap.swap. now rewrite !length_upd. Qed.

  Lemma get_swap l i j k :
    i < length l -> j < length l ->
    get (swap l i j) k = if k =? j then get l i else if k =? i then get l j else get l k.
  Proof.
    intros Hi Hj. unfold Heap.swap.
    rewrite get_upd by (rewrite length_upd; lia).
    destruct (k =? j); auto. now rewrite get_upd by lia.
  Qed.

  Lemma perm_upd_cons l j a :
    j < length l -> Permutation (get l j :: upd l j a) (a :: l).
  Proof.
    unfold Heap.get. revert j; induction l as [|h t IH]; intros j Hj; cbn in *; [lia|].
    destruct j as [|j]; cbn.
    - apply perm_swap.
    - etransitivity; [apply perm_swap|].
      etransitivity; [apply perm_skip, IH; lia|]. apply perm_swap.
  Qed.

  Lemma perm_swap_arr l i j :
    i < length l -> j < length l -> Permutation (swap l i j) l.
  Proof.
    unfold Heap.swap, Heap.get.
    revert i j; induction l as [|h t IH]; intros i j Hi Hj; cbn in *; [lia|].
    destruct i as [|i]; destruct j as [|j]; cbn.
    - reflexivity.
    - apply (perm_upd_cons t j h). lia.
    - apply (perm_upd_cons t i h). lia.
    - apply perm_skip. apply IH; lia.
  Qed.

  (* ---------- heap order ---------- *)
  Definition parent (j : nat) : nat := (j - 1) / 2.

  Definition heap_upto l n : Prop :=
    forall j, 0 < j < n -> le (get l (parent j)) (get l j).

  Definition up_inv l k n : Prop :=
    (forall j, 0 < j < n -> j <> k -> le (get l (parent j)) (get l j)) /\
    (forall j, 0 < j < n -> parent j = k -> 0 < k -> le (get l (parent k)) (get l j)).

  Lemma up_correct fuel : forall l k,
    k < fuel -> k < length l -> up_inv l k (length l) ->
    heap_upto (up fuel l k) (length l) /\ Permutation (up fuel l k) l /\
    length (up fuel l k) = length l.
  Proof.
    induction fuel as [|f IH]; intros l k Hf Hk (H1 & H2); [lia|].
    cbn [Heap.up]. fold (parent k).
    destruct (parent k =? k) eqn:Epk; cbn [orb].
    { (* k = 0 *)
      assert (k = 0) by (unfold parent in *; lia). subst k.
      repeat split; auto. intros j Hj. apply H1; lia. }
    destruct (less (get l k) (get l (parent k))) eqn:El; cbn [negb].
    2:{ repeat split; auto. intros j Hj.
        destruct (Nat.eq_dec j k) as [->|Hne]; [now apply nless_le | now apply H1]. }
    assert (Hk0 : 0 < k) by (unfold parent in *; lia).
    assert (Hp : parent k < k) by (unfold parent; lia).
    set (i := parent k) in *.
    assert (Hlen : length (swap l i k) = length l) by apply length_swap.
    destruct (IH (swap l i k) i) as (G1 & G2 & G3); try lia.
    - rewrite Hlen. split.
      + intros j Hj Hji.
        rewrite !get_swap by lia.
        destruct (Nat.eq_dec j k) as [->|Hjk].
        * rewrite Nat.eqb_refl.
          replace (parent k =? k) with false by (symmetry; apply Nat.eqb_neq; lia).
          fold i. rewrite Nat.eqb_refl. now apply less_le.
        * replace (j =? k) with false by (symmetry; apply Nat.eqb_neq; lia).
          replace (j =? i) with false by (symmetry; apply Nat.eqb_neq; lia).
          destruct (Nat.eq_dec (parent j) k) as [Epj|Epj].
          -- rewrite Epj, Nat.eqb_refl. apply H2; auto.
          -- replace (parent j =? k) with false by (symmetry; apply Nat.eqb_neq; lia).
             destruct (Nat.eq_dec (parent j) i) as [Epi|Epi].
             ++ rewrite Epi, Nat.eqb_refl.
                apply le_trans with (get l i); [now apply less_le|].
                rewrite <- Epi. apply H1; auto.
             ++ replace (parent j =? i) with false by (symmetry; apply Nat.eqb_neq; lia).
                apply H1; auto.
      + intros j Hj Hpj Hi0.
        assert (Hppi : parent i < i) by (unfold parent; lia).
        rewrite !get_swap by lia.
        replace (parent i =? k) with false by (symmetry; apply Nat.eqb_neq; lia).
        replace (parent i =? i) with false by (symmetry; apply Nat.eqb_neq; lia).
        assert (Hij : i < j) by (unfold parent in Hpj; lia).
        destruct (Nat.eq_dec j k) as [->|Hjk].
        * rewrite Nat.eqb_refl. apply H1; lia.
        * replace (j =? k) with false by (symmetry; apply Nat.eqb_neq; lia).
          replace (j =? i) with false by (symmetry; apply Nat.eqb_neq; lia).
          apply le_trans with (get l i); [apply H1; lia|].
          rewrite <- Hpj. apply H1; lia.
    - rewrite Hlen in *. repeat split; auto.
      etransitivity; [exact G2|]. apply perm_swap_arr; lia.
  Qed.

  Definition down_inv l k n : Prop :=
    (forall j, 0 < j < n -> parent j <> k -> le (get l (parent j)) (get l j)) /\
    (0 < k -> forall j, 0 < j < n -> parent j = k -> le (get l (parent k)) (get l j)).

  Lemma down_correct fuel : forall l k n,
    n <= k + fuel -> k < n -> n <= length l -> down_inv l k n ->
    heap_upto (down fuel l k n) n /\ Permutation (down fuel l k n) l /\
    length (down fuel l k n) = length l /\
    (forall m, n <= m -> get (down fuel l k n) m = get l m).
  Proof.
    induction fuel as [|f IH]; intros l k n Hf Hk Hn (H1 & H2); [lia|].
    cbn [Heap.down].
    destruct (n <=? 2 * k + 1) eqn:En.
    { repeat split; auto. intros j Hj. apply H1; auto. unfold parent; lia. }
    set (j1 := 2 * k + 1) in *.
    set (j := if (j1 + 1 <? n) && less (get l (j1 + 1)) (get l j1) then j1 + 1 else j1).
    assert (Hj1n : j1 < n) by lia.
    assert (Hjn : j < n).
    { subst j. destruct (j1 + 1 <? n) eqn:E; cbn; [|lia]. destruct (less _ _); lia. }
    assert (Hpj : parent j = k).
    { subst j. unfold parent. destruct (_ && _); subst j1; lia. }
    assert (Hjk : k < j) by (subst j; destruct (_ && _); lia).
    (* j is the smaller child: every child c of k satisfies le (get l j) (get l c) *)
    assert (Hmin : forall ch, 0 < ch < n -> parent ch = k -> le (get l j) (get l ch)).
    { intros ch Hc Hpc.
      assert (Hcc : ch = j1 \/ ch = j1 + 1) by (unfold parent in Hpc; subst j1; lia).
      subst j. destruct (j1 + 1 <? n) eqn:E1; cbn [andb].
      - destruct (less (get l (j1 + 1)) (get l j1)) eqn:E2.
        + destruct Hcc as [->| ->]; [now apply less_le | apply le_refl].
        + destruct Hcc as [->| ->]; [apply le_refl | now apply nless_le].
      - destruct Hcc as [->| ->]; [apply le_refl | lia]. }
    destruct (less (get l j) (get l k)) eqn:El; cbn [negb].
    2:{ repeat split; auto. intros ch Hc.
        destruct (Nat.eq_dec (parent ch) k) as [Epc|Epc]; [|now apply H1].
        rewrite Epc. apply le_trans with (get l j); [now apply nless_le | now apply Hmin]. }
    assert (Hlen : length (swap l k j) = length l) by apply length_swap.
    destruct (IH (swap l k j) j n) as (G1 & G2 & G3 & G4); try lia.
    - split.
      + intros m Hm Hpm.
        rewrite !get_swap by lia.
        destruct (Nat.eq_dec m j) as [->|Hmj].
        * rewrite Nat.eqb_refl, Hpj.
          replace (k =? j) with false by (symmetry; apply Nat.eqb_neq; lia).
          rewrite Nat.eqb_refl. now apply less_le.
        * replace (m =? j) with false by (symmetry; apply Nat.eqb_neq; lia).
          replace (parent m =? j) with false by (symmetry; apply Nat.eqb_neq; lia).
          destruct (Nat.eq_dec m k) as [->|Hmk].
          -- rewrite Nat.eqb_refl.
             replace (parent k =? k) with false by (symmetry; apply Nat.eqb_neq; unfold parent; lia).
             apply H2; auto; lia.
          -- replace (m =? k) with false by (symmetry; apply Nat.eqb_neq; lia).
             destruct (Nat.eq_dec (parent m) k) as [Epm|Epm].
             ++ rewrite Epm, Nat.eqb_refl. now apply Hmin.
             ++ replace (parent m =? k) with false by (symmetry; apply Nat.eqb_neq; lia).
                now apply H1.
      + intros _ m Hm Hpm.
        assert (j < m) by (unfold parent in Hpm; lia).
        rewrite !get_swap by lia.
        rewrite Hpj.
        replace (k =? j) with false by (symmetry; apply Nat.eqb_neq; lia).
        rewrite Nat.eqb_refl.
        replace (m =? j) with false by (symmetry; apply Nat.eqb_neq; lia).
        replace (m =? k) with false by (symmetry; apply Nat.eqb_neq; lia).
        rewrite <- Hpm. apply H1; lia.
    - repeat split; auto; try lia.
      + etransitivity; [exact G2|]. apply perm_swap_arr; lia.
      + intros m Hm. rewrite G4 by lia. rewrite get_swap by lia.
        replace (m =? j) with false by (symmetry; apply Nat.eqb_neq; lia).
        replace (m =? k) with false by (symmetry; apply Nat.eqb_neq; lia).
        reflexivity.
  Qed.

  Lemma root_is_min l n :
    heap_upto l n -> forall j, j < n -> le (get l 0) (get l j).
  Proof.
    intros H j. induction j as [j IH] using lt_wf_ind. intros Hj.
    destruct j as [|j]; [apply le_refl|].
    apply le_trans with (get l (parent (S j))).
    - apply IH; unfold parent; lia.
    - apply H; lia.
  Qed.

End HeapProofs.

(* ---------- queue-level statements ---------- *)
Section PQ.
  Context {A : Type}.
  Notation item := (item A).
  Notation pq := (pq A).

  Definition is_heap (l : list item) : Prop :=
    forall d, heap_upto d l (length l).

  Definition pq_ok (q : pq) : Prop :=
    is_heap (items q) /\ NoDup (map idx (items q)) /\
    Forall (fun x => (idx x < icount q)%N) (items q).

  Lemma get_default_irrel (d d' : item) l j : j < length l -> get d l j = get d' l j.
  Proof. unfold get. apply nth_indep. Qed.

  Lemma heap_upto_default (d d' : item) l n :
    n <= length l -> heap_upto d l n -> heap_upto d' l n.
  Proof.
    intros Hn H j Hj.
    rewrite (get_default_irrel d' d l j) by lia.
    rewrite (get_default_irrel d' d l (parent j)) by (unfold parent; lia).
    now apply H.
  Qed.

  Lemma NoDup_app_one {B} (l : list B) (x : B) : NoDup l -> ~ In x l -> NoDup (l ++ [x]).
  Proof.
    intros Hl Hx. induction l as [|h t IH]; cbn; [constructor; [auto|constructor]|].
    inversion Hl; subst. constructor.
    - rewrite in_app_iff; cbn. intros [H|[H|[]]]; [auto | subst; apply Hx; now left].
    - apply IH; auto. intros H; apply Hx; now right.
  Qed.

  Lemma new_pq_ok : pq_ok (@new_pq A).
  Proof. unfold pq_ok, new_pq, is_heap, heap_upto; cbn. repeat split; try constructor. intros; lia. Qed.

  Theorem push_spec (q : pq) p v :
    pq_ok q ->
    let '(ok, q') := push q p v in
    ok = negb (pclosed q) /\ pq_ok q' /\ pclosed q' = pclosed q /\
    if ok then Permutation (items q') (mkItem p (icount q) v :: items q) /\ icount q' = (icount q + 1)%N
    else q' = q.
  Proof.
    intros (Hh & Hnd & Hlt). unfold push. destruct (pclosed q) eqn:Ecl.
    { cbn. repeat split; auto. }
    cbn [negb].
    set (x := mkItem p (icount q) v).
    set (l := items q ++ [x]).
    assert (Hlen : length l = S (length (items q))) by (subst l; rewrite app_length; cbn; lia).
    destruct (up_correct x (length l) l (length l - 1)) as (G1 & G2 & G3); try lia.
    { rewrite Hlen. replace (S (length (items q)) - 1) with (length (items q)) by lia. split.
      - intros j Hj Hne. assert (j < length (items q)) by lia.
        subst l. unfold get. rewrite !app_nth1 by (unfold parent; lia).
        apply (Hh x). lia.
      - intros j Hj Hpj. unfold parent in Hpj. lia. }
    cbn. repeat split; cbn [items icount pclosed].
    - intros d. rewrite G3. apply heap_upto_default with x; [lia|]. exact G1.
    - apply Permutation_NoDup with (map idx l).
      + apply Permutation_map, Permutation_sym, G2.
      + subst l. rewrite map_app; cbn. apply NoDup_app_one.
        * exact Hnd.
        * intros Hin. apply in_map_iff in Hin as (y & Hy1 & Hy2).
          rewrite Forall_forall in Hlt. specialize (Hlt y Hy2). cbn in *. lia.
    - apply Permutation_Forall with l; [apply Permutation_sym, G2|].
      subst l. apply Forall_app; split.
      + eapply Forall_impl; [|exact Hlt]. cbn; intros; lia.
      + constructor; [cbn; lia|constructor].
    - etransitivity; [exact G2|]. subst l. apply Permutation_sym, Permutation_cons_append.
  Qed.

  Lemma firstn_last (l : list item) n d : length l = S n -> l = firstn n l ++ [nth n l d].
  Proof.
    revert n; induction l as [|h t IH]; intros n Hl; cbn in Hl; [lia|].
    destruct n as [|n]; cbn.
    - destruct t; [reflexivity | cbn in Hl; lia].
    - f_equal. apply IH. lia.
  Qed.

  Lemma nth_firstn_lt (l : list item) n j d : j < n -> nth j (firstn n l) d = nth j l d.
  Proof.
    revert n j; induction l as [|h t IH]; intros n j Hj; destruct n; destruct j; cbn; auto; try lia.
    apply IH; lia.
  Qed.

  (* What Dequeue returns: the least element of the (Priority, Index) order, removed. *)
  Theorem pop_spec (q : pq) :
    pq_ok q ->
    match pop q with
    | (None, q') => items q = [] /\ q' = q
    | (Some v, q') =>
        exists x, v = val x /\ In x (items q) /\
                  (forall y, In y (items q) -> le x y) /\
                  Permutation (x :: items q') (items q) /\
                  pq_ok q' /\ icount q' = icount q /\ pclosed q' = pclosed q
    end.
  Proof.
    intros (Hh & Hnd & Hlt). unfold pop.
    destruct (items q) as [|h t] eqn:El; [split; auto|].
    set (l := h :: t) in *. set (n := length l - 1).
    assert (Hn : length l = S n) by (subst n l; cbn; lia).
    set (l1 := swap h l 0 n).
    assert (Hl1 : length l1 = length l) by apply length_swap.
    assert (Hmin : forall y, In y l -> le (get h l 0) y).
    { intros y Hy. destruct (In_nth l y h Hy) as (j & Hj & Hjy).
      rewrite <- Hjy. apply (root_is_min h l (length l)); [apply Hh | lia]. }
    (* facts about l2 = down ... , established separately for n = 0 and n > 0 *)
    assert (G : let l2 := down h n l1 0 n in
                heap_upto h l2 n /\ Permutation l2 l /\ length l2 = length l /\ get h l2 n = get h l 0).
    { destruct (Nat.eq_dec n 0) as [En|En].
      - assert (t = []) by (destruct t; [reflexivity|exfalso; subst n l; cbn in *; lia]). subst t.
        subst l1 l. rewrite En. cbn.
        repeat split; auto. intros j Hj; lia.
      - destruct (down_correct h n l1 0 n) as (G1 & G2 & G3 & G4); try lia.
        + split; [|intros; lia].
          intros j Hj Hpj. subst l1. rewrite !get_swap by lia.
          replace (j =? n) with false by (symmetry; apply Nat.eqb_neq; lia).
          replace (j =? 0) with false by (symmetry; apply Nat.eqb_neq; lia).
          replace (parent j =? n) with false by (symmetry; apply Nat.eqb_neq; unfold parent; lia).
          replace (parent j =? 0) with false by (symmetry; apply Nat.eqb_neq; lia).
          apply (Hh h). lia.
        + cbn zeta. repeat split; auto.
          * etransitivity; [exact G2|]. subst l1. apply perm_swap_arr; lia.
          * lia.
          * rewrite G4 by lia. subst l1. rewrite get_swap by lia.
            now rewrite Nat.eqb_refl. }
    cbn zeta in G. destruct G as (G1 & G2 & G3 & G4).
    set (l2 := down h n l1 0 n) in *.
    exists (get h l 0).
    assert (Hperm : Permutation (get h l 0 :: firstn n l2) l).
    { etransitivity; [|exact G2].
      rewrite (firstn_last l2 n h) at 2 by lia.
      fold (get h l2 n). rewrite G4. apply Permutation_cons_append. }
    split; [now rewrite G4|].
    split; [subst l; cbn; now left|].
    split; [exact Hmin|].
    split; [exact Hperm|].
    split; [|cbn; auto].
    assert (Hlen2 : length (firstn n l2) = n) by (rewrite firstn_length; lia).
    repeat split; cbn [items icount].
    - intros d j Hj. rewrite Hlen2 in Hj. unfold get.
      rewrite !nth_firstn_lt by (unfold parent; lia).
      rewrite (nth_indep l2 d h), (nth_indep l2 d h (n := j)) by (unfold parent; lia).
      apply G1. lia.
    - assert (Hnd' : NoDup (map idx (get h l 0 :: firstn n l2))).
      { apply Permutation_NoDup with (map idx l); [apply Permutation_map, Permutation_sym, Hperm | exact Hnd]. }
      cbn in Hnd'. now inversion Hnd'.
    - assert (Hf : Forall (fun x => (idx x < icount q)%N) (get h l 0 :: firstn n l2)).
      { apply Permutation_Forall with l; [apply Permutation_sym, Hperm | exact Hlt]. }
      now inversion Hf.
  Qed.

  (* the same, with the order spelled out *)
  Corollary pop_least (q : pq) :
    pq_ok q ->
    match pop q with
    | (None, q') => items q = [] /\ q' = q
    | (Some v, q') =>
        exists x, v = val x /\ In x (items q) /\
                  (forall y, In y (items q) ->
                     (prio x < prio y)%Z \/ (prio x = prio y /\ (idx x <= idx y)%N)) /\
                  Permutation (x :: items q') (items q) /\ pq_ok q'
    end.
  Proof.
    intros H. pose proof (pop_spec q H) as P. destruct (pop q) as [[v|] q']; auto.
    destruct P as (x & P1 & P2 & P3 & P4 & P5 & _). exists x.
    split; [exact P1|]. split; [exact P2|]. split; [|split; [exact P4|exact P5]].
    intros y Hy. apply le_spec. now apply P3.
  Qed.

  (* ---------- every operation sequence: the queue is a list kept sorted by (Priority, Index) ---------- *)

  Fixpoint insert (x : item) (s : list item) : list item :=
    match s with
    | [] => [x]
    | y :: t => if less x y then x :: y :: t else y :: insert x t
    end.

  Lemma insert_perm x s : Permutation (insert x s) (x :: s).
  Proof.
    induction s as [|y t IH]; cbn; [reflexivity|].
    destruct (less x y); [reflexivity|].
    etransitivity; [apply perm_skip, IH | apply perm_swap].
  Qed.

  Lemma insert_sorted x s : StronglySorted le s -> StronglySorted le (insert x s).
  Proof.
    induction 1 as [|y t Hs IH Hy]; cbn; [repeat constructor|].
    destruct (less x y) eqn:E.
    - constructor; [constructor; auto|].
      constructor; [now apply less_le|].
      eapply Forall_impl; [|exact Hy]. intros z Hz. eapply le_trans; [apply less_le, E | exact Hz].
    - constructor; [exact IH|].
      apply Permutation_Forall with (x :: t); [apply Permutation_sym, insert_perm|].
      constructor; [now apply nless_le | exact Hy].
  Qed.

  Inductive pqop := PPush (p : Z) (v : A) | PPop | PPurge | PClose.

  (* the implementation model, collecting what every Dequeue returned *)
  Definition pq_step (st : pq * list (option A)) (o : pqop) : pq * list (option A) :=
    let '(q, out) := st in
    match o with
    | PPush p v => (snd (push q p v), out)
    | PPop => let '(r, q') := pop q in (q', out ++ [r])
    | PPurge => (ppurge q, out)
    | PClose => (pclose q, out)
    end.

  (* the specification: a list sorted by (priority, acceptance number) *)
  Record spec := mkSpec { s_items : list item; s_count : N; s_closed : bool }.

  Definition spec_step (st : spec * list (option A)) (o : pqop) : spec * list (option A) :=
    let '(s, out) := st in
    match o with
    | PPush p v =>
        if s_closed s then (s, out)
        else (mkSpec (insert (mkItem p (s_count s) v) (s_items s)) (s_count s + 1) false, out)
    | PPop =>
        match s_items s with
        | [] => (s, out ++ [None])
        | x :: t => (mkSpec t (s_count s) (s_closed s), out ++ [Some (val x)])
        end
    | PPurge => (mkSpec [] (s_count s) (s_closed s), out)
    | PClose => (mkSpec (s_items s) (s_count s) true, out)
    end.

  Definition R (q : pq) (s : spec) : Prop :=
    pq_ok q /\ Permutation (items q) (s_items s) /\ StronglySorted le (s_items s) /\
    icount q = s_count s /\ pclosed q = s_closed s.

  Lemma idx_inj (l : list item) x y :
    NoDup (map idx l) -> In x l -> In y l -> idx x = idx y -> x = y.
  Proof.
    induction l as [|h t IH]; cbn; intros Hnd Hx Hy E; [tauto|].
    inversion Hnd as [|? ? Hnot Hnd']; subst.
    destruct Hx as [->|Hx], Hy as [->|Hy]; auto.
    - exfalso. apply Hnot. rewrite E. now apply in_map.
    - exfalso. apply Hnot. rewrite <- E. now apply in_map.
  Qed.

  Ltac splitR := unfold R; split; [|split; [|split; [|split]]].

  Lemma R_step q s out o :
    R q s ->
    let '(q', out1) := pq_step (q, out) o in
    let '(s', out2) := spec_step (s, out) o in
    R q' s' /\ out1 = out2.
  Proof.
    intros (Hok & Hperm & Hsort & Hcnt & Hcl).
    destruct o as [p v| | |]; cbn.
    - pose proof (push_spec q p v Hok) as P. destruct (push q p v) as [ok q'].
      destruct P as (Eok & Hok' & Hcl' & P). cbn.
      rewrite <- Hcl. destruct (pclosed q) eqn:Ec; cbn in Eok; subst ok.
      + subst q'. split; auto. splitR; auto. now rewrite Ec.
      + destruct P as (Pp & Pc). split; auto. splitR; cbn; auto.
        * etransitivity; [exact Pp|]. rewrite <- Hcnt.
          etransitivity; [|apply Permutation_sym, insert_perm]. now apply perm_skip.
        * now apply insert_sorted.
        * now rewrite Pc, Hcnt.
    - pose proof (pop_spec q Hok) as P. destruct (pop q) as [[v|] q'].
      + destruct P as (x & Ev & Hin & Hmin & Pp & Hok' & Hc' & Hcl').
        destruct (s_items s) as [|y t] eqn:Es.
        { exfalso. eapply Permutation_nil_cons; symmetry.
          etransitivity; [exact Pp | exact Hperm]. }
        assert (Hy : In y (items q)) by (eapply Permutation_in; [apply Permutation_sym, Hperm | now left]).
        assert (x = y).
        { inversion Hsort as [|? ? Hst Hall]; subst.
          assert (le y x).
          { assert (Hx : In x (y :: t)) by (eapply Permutation_in; [exact Hperm | exact Hin]).
            destruct Hx as [->|Hx]; [apply le_refl|]. rewrite Forall_forall in Hall. now apply Hall. }
          destruct Hok as (_ & Hnd & _).
          eapply idx_inj; eauto. apply le_antisym; auto. }
        subst y. split; [|now rewrite Ev].
        splitR; cbn; auto.
        * eapply Permutation_cons_inv. etransitivity; [exact Pp | exact Hperm].
        * now inversion Hsort.
        * now rewrite Hc'.
        * now rewrite Hcl'.
      + destruct P as (Hnil & ->).
        rewrite Hnil in Hperm. apply Permutation_nil in Hperm. rewrite Hperm.
        split; auto. splitR; auto. now rewrite Hnil, Hperm.
    - split; auto. destruct Hok as (H1 & H2 & H3). splitR; cbn; auto.
      + unfold pq_ok, ppurge; cbn.
        split; [|split; constructor]. intros d j Hj; cbn in Hj; lia.
      + constructor.
    - split; auto. destruct Hok as (H1 & H2 & H3). splitR; cbn; auto.
      unfold pq_ok, pclose; cbn; auto.
  Qed.

  Theorem pq_run_refines (ops : list pqop) :
    snd (fold_left pq_step ops (@new_pq A, [])) = snd (fold_left spec_step ops (mkSpec [] 0 false, [])).
  Proof.
    assert (G : forall ops q s out, R q s ->
              snd (fold_left pq_step ops (q, out)) = snd (fold_left spec_step ops (s, out))).
    { clear ops. induction ops as [|o ops IH]; intros q s out HR; cbn [fold_left]; [reflexivity|].
      pose proof (R_step q s out o HR) as S.
      destruct (pq_step (q, out) o) as [q' out1].
      destruct (spec_step (s, out) o) as [s' out2].
      destruct S as (HR' & ->). now apply IH. }
    apply G. splitR; cbn; auto using new_pq_ok; constructor.
  Qed.

  Theorem pclosed_rejects (q : pq) p v : pclosed q = true -> push q p v = (false, q).
  Proof. intros H. unfold push. now rewrite H. Qed.

End PQ.
