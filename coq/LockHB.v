(* LockHB.v — the two C19 models joined: every trace of lock operations and accesses that the
   lock discipline (Lockset.v) admits, read as an execution of HB.v (Lock = acquire W then
   acquire R; Unlock = release W; RLock = acquire W; RUnlock = release R — the Go memory model's
   rules for sync.RWMutex; the accesses go to one location), is free of data races, hence
   accepted by the detector. Definitions and proofs (this file has no executable content of
   its own). *)
From Coq Require Import List NArith Bool Arith Relations Lia.
From VQ Require Import Lockset LocksetProofs HB HBProofs.
Import ListNotations.

Definition sW : N := 1%N.
Definition sR : N := 2%N.

Definition emb (e : lev) : list hev :=
  match e with
  | LLock t => [mkH (N.of_nat t) (HSync (Some sW) None); mkH (N.of_nat t) (HSync (Some sR) None)]
  | LUnlock t => [mkH (N.of_nat t) (HSync None (Some sW))]
  | LRLock t => [mkH (N.of_nat t) (HSync (Some sW) None)]
  | LRUnlock t => [mkH (N.of_nat t) (HSync None (Some sR))]
  | LRead t => [mkH (N.of_nat t) (HAcc 0%N false)]
  | LWrite t => [mkH (N.of_nat t) (HAcc 0%N true)]
  end.

Definition embed (es : list lev) : list hev := flat_map emb es.

Lemma embed_app a b : embed (a ++ b) = embed a ++ embed b.
Proof. apply flat_map_app. Qed.

Lemma embed_cons x l : embed (x :: l) = emb x ++ embed l.
Proof. reflexivity. Qed.

Lemma nth_embed_at a x b k :
  (k < length (emb x))%nat ->
  nth_error (embed (a ++ x :: b)) (length (embed a) + k) = nth_error (emb x) k.
Proof.
  intros Hk. rewrite embed_app, embed_cons.
  rewrite nth_error_app2 by lia.
  replace (length (embed a) + k - length (embed a))%nat with k by lia.
  now rewrite nth_error_app1 by exact Hk.
Qed.

(* an access event of the embedding comes from an access step of the trace *)
Lemma embed_acc_inv es : forall i e l w,
  nth_error (embed es) i = Some e -> hk e = HAcc l w ->
  exists pre a post t, es = pre ++ a :: post /\ i = length (embed pre) /\
    acc_of a = Some (t, w) /\ hth e = N.of_nat t.
Proof.
  induction es as [|x es IH]; intros i e l w Hn Hk.
  - destruct i; discriminate.
  - rewrite embed_cons in Hn.
    destruct (lt_dec i (length (emb x))) as [Lt|Ge].
    + rewrite nth_error_app1 in Hn by exact Lt.
      destruct x; cbn in *;
        repeat (destruct i as [|i]; cbn in Hn; try discriminate; try lia);
        inversion Hn; subst e; cbn in Hk; try discriminate; inversion Hk; subst.
      * exists [], (LRead t), es, t. repeat split; reflexivity.
      * exists [], (LWrite t), es, t. repeat split; reflexivity.
    + rewrite nth_error_app2 in Hn by lia.
      destruct (IH _ _ _ _ Hn Hk) as [pre [a [post [t [E [Ei [Ha Ht]]]]]]].
      exists (x :: pre), a, post, t. repeat split; auto.
      * now rewrite E.
      * rewrite embed_cons, app_length. lia.
Qed.

Lemma lkrun_prefix a : forall s b s', lkrun s (a ++ b) = Some s' -> exists s1, lkrun s a = Some s1.
Proof.
  intros s b s' H. rewrite lkrun_app in H. destruct (lkrun s a) as [s1|]; [eauto|discriminate].
Qed.

Lemma emb_release t r x : release_by t r x ->
  emb r = [mkH (N.of_nat t) (HSync None (Some (if x then sW else sR)))].
Proof. destruct r; cbn; intros H; try contradiction; destruct H as [-> ->]; reflexivity. Qed.

Theorem discipline_implies_race_free es s :
  lkrun lkinit es = Some s -> race_free (embed es).
Proof.
  intros Run i j [Lt [ei [ej [Hi [Hj [[Nt C] NH]]]]]]. apply NH. clear NH.
  destruct (hk ei) as [l1 w1| |] eqn:Ki; try contradiction.
  destruct (hk ej) as [l2 w2| |] eqn:Kj; try contradiction.
  destruct C as [_ Cw].
  (* the second access, then the first inside the prefix before it *)
  destruct (embed_acc_inv es j ej l2 w2 Hj Kj) as [pre2 [a2 [post [t2 [E2 [Ej [A2 T2]]]]]]].
  assert (Hi' : nth_error (embed pre2) i = Some ei).
  { rewrite E2, embed_app in Hi. rewrite nth_error_app1 in Hi by lia. exact Hi. }
  destruct (embed_acc_inv pre2 i ei l1 w1 Hi' Ki) as [pre [a1 [mid [t1 [E1 [Ei [A1 T1]]]]]]].
  assert (Ne : t1 <> t2) by (intros ->; apply Nt; congruence).
  assert (Cw' : w1 || w2 = true) by (destruct Cw; subst; [reflexivity|apply orb_true_r]).
  (* the trace up to the second access is admitted *)
  assert (Run' : exists s', lkrun lkinit (pre ++ a1 :: mid ++ [a2]) = Some s').
  { apply (lkrun_prefix _ lkinit post s).
    rewrite <- Run, E2, E1. f_equal. rewrite <- !app_assoc. cbn. rewrite <- app_assoc. reflexivity. }
  destruct Run' as [s' Run'].
  destruct (conflicting_accesses_ordered_by_lock pre a1 mid a2 s' t1 w1 t2 w2 Run' A1 A2 Ne Cw')
    as [m1 [r [m2 [q [m3 [xr [xq [Em [Rr [Aq X]]]]]]]]]].
  (* the whole trace, with every piece named *)
  assert (E : es = pre ++ a1 :: m1 ++ r :: m2 ++ q :: m3 ++ a2 :: post).
  { rewrite E2, E1, Em. rewrite <- !app_assoc. cbn. rewrite <- !app_assoc. cbn. rewrite <- !app_assoc. reflexivity. }
  set (p0 := length (embed pre)) in *.
  assert (La1 : length (emb a1) = 1%nat) by (destruct a1; cbn in A1; try discriminate; reflexivity).
  pose proof (emb_release t1 r xr Rr) as Er.
  assert (Lr : length (emb r) = 1%nat) by (rewrite Er; reflexivity).
  (* index of the release *)
  set (ir := (p0 + 1 + length (embed m1))%nat).
  assert (Hr : nth_error (embed es) ir = Some (mkH (N.of_nat t1) (HSync None (Some (if xr then sW else sR))))).
  { replace es with ((pre ++ a1 :: m1) ++ r :: m2 ++ q :: m3 ++ a2 :: post)
      by (rewrite E, <- app_assoc; reflexivity).
    replace ir with (length (embed (pre ++ a1 :: m1)) + 0)%nat
      by (repeat first [rewrite embed_app | rewrite embed_cons | rewrite app_length]; rewrite La1; unfold ir, p0; lia).
    rewrite nth_embed_at by (rewrite Lr; lia). rewrite Er. reflexivity. }
  (* index of the matching acquire *)
  set (k := if xr then 0%nat else 1%nat).
  set (iq := (ir + 1 + length (embed m2) + k)%nat).
  assert (Hq : nth_error (embed es) iq = Some (mkH (N.of_nat t2) (HSync (Some (if xr then sW else sR)) None))
               /\ (k < length (emb q))%nat).
  { assert (Kq : nth_error (emb q) k = Some (mkH (N.of_nat t2) (HSync (Some (if xr then sW else sR)) None))
                 /\ (k < length (emb q))%nat).
    { unfold k. destruct q; cbn in Aq; try contradiction; destruct Aq as [Eq Ex]; subst.
      - destruct xr; cbn; (split; [reflexivity|lia]).
      - rewrite orb_false_r in X. subst xr. cbn. split; [reflexivity|lia]. }
    destruct Kq as [Kq Lk]. split; [|exact Lk].
    replace es with ((pre ++ a1 :: m1 ++ r :: m2) ++ q :: m3 ++ a2 :: post)
      by (rewrite E; rewrite <- !app_assoc; cbn; rewrite <- !app_assoc; reflexivity).
    replace iq with (length (embed (pre ++ a1 :: m1 ++ r :: m2)) + k)%nat
      by (repeat first [rewrite embed_app | rewrite embed_cons | rewrite app_length]; rewrite La1, Lr; unfold iq, ir, p0; lia).
    rewrite nth_embed_at by exact Lk. exact Kq. }
  destruct Hq as [Hq Lk].
  (* index of the second access *)
  assert (Lq : (length (emb q) <= 2)%nat) by (destruct q; cbn; lia).
  assert (Ij : (iq < j)%nat).
  { rewrite Ej, E1, Em. repeat first [rewrite embed_app | rewrite embed_cons | rewrite app_length].
    rewrite La1, Lr. unfold iq, ir, p0. lia. }
  assert (Ii : i = p0) by exact Ei.
  (* the chain: access --po--> release --sync--> acquire --po--> access *)
  apply t_trans with ir.
  - apply t_step. split; [unfold ir; lia|].
    eexists ei, _. split; [exact Hi|]. split; [exact Hr|]. left. cbn. exact T1.
  - apply t_trans with iq.
    + apply t_step. split; [unfold iq; lia|].
      eexists _, _. split; [exact Hr|]. split; [exact Hq|]. right; left.
      exists (if xr then sW else sR). split; reflexivity.
    + apply t_step. split; [exact Ij|].
      eexists _, ej. split; [exact Hq|]. split; [exact Hj|]. left. cbn. symmetry. exact T2.
Qed.

Corollary discipline_accepted_by_detector es s :
  lkrun lkinit es = Some s -> race_check (embed es) = None.
Proof. intros H. apply race_check_none_iff_race_free. eapply discipline_implies_race_free; eauto. Qed.
