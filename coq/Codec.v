(* Codec.v — executable model of the job envelope of persistent / distributed queues:
   job.go (jobView, job.Json, parseToJob, the five status strings) as used by persistent.go,
   persistent_priority.go, distributed.go, distributed_priority.go (Add) and the []byte branch of
   worker.processNextJob. Definitions only (proofs are in CodecProofs.v).

   Correspondence with the Go code (checked on every run by the differential test
   go/harness/root/zz_verif_codec_test.go against the extracted functions):

     byte / codepoint   = N (bytes are 0..255; code points are Unicode scalar values)
     status_string      = job.Status() for the five status constants
     parse_status       = the switch in parseToJob ("invalid status: ...")
     enc_bytes          = encoding/json appendString(dst, src, escapeHTML=true) of go1.24.0 on the raw
                          bytes of a Go string (what json.Marshal does with jobView.Id / jobView.Status)
     enc_string         = the same on a string given as its list of scalar values (valid UTF-8);
                          CodecProofs.enc_bytes_utf8 shows enc_bytes (utf8 s) = enc_string s
     utf8_decode        = unicode/utf8.DecodeRune (RuneError with width 1 on every malformed prefix)
     dec_string         = what json.Unmarshal does with a string literal: the scanner's string states
                          (stateInString, stateInStringEsc, stateInStringEscU..) followed by unquoteBytes;
                          the result is given as the list of runes of the decoded Go string
     encode_env         = json.Marshal(jobView[T]{Id, Status, Payload}): fields in declaration order
                          id, status, data; no whitespace; the payload's own encoding is an input
     decode_env         = json.Unmarshal into jobView[T] + the status switch, restricted to envelopes of
                          exactly the shape encode_env produces (anything else is Malformed here, while
                          encoding/json also accepts white space, other key orders, unknown / missing /
                          duplicate keys, case-folded keys and null; the validator counts those inputs as
                          outside the model). The payload is delimited by the Section variable
                          [scan_payload]: that is encoding/json's part.
     submit_entry       = the four Add methods up to the Enqueue call (newJob => status created)
*)
From Coq Require Import List NArith Bool.
Import ListNotations.
Open Scope N_scope.

Definition byte := N.
Definition codepoint := N.

(* ------------------------------------------------------------------ status *)

Inductive status := Created | Queued | Processing | Finished | Closed.

(* ASCII of "Created", "Queued", "Processing", "Finished", "Closed"
   (CodecProofs.status_string_ascii ties the numerals to the string literals) *)
Definition status_string (s : status) : list codepoint :=
  match s with
  | Created    => [67; 114; 101; 97; 116; 101; 100]
  | Queued     => [81; 117; 101; 117; 101; 100]
  | Processing => [80; 114; 111; 99; 101; 115; 115; 105; 110; 103]
  | Finished   => [70; 105; 110; 105; 115; 104; 101; 100]
  | Closed     => [67; 108; 111; 115; 101; 100]
  end.

Fixpoint list_eqb (a b : list N) : bool :=
  match a, b with
  | [], [] => true
  | x :: a', y :: b' => (x =? y) && list_eqb a' b'
  | _, _ => false
  end.

(* the switch in parseToJob; None = "invalid status: %s" *)
Definition parse_status (s : list codepoint) : option status :=
  if list_eqb s (status_string Created) then Some Created
  else if list_eqb s (status_string Queued) then Some Queued
  else if list_eqb s (status_string Processing) then Some Processing
  else if list_eqb s (status_string Finished) then Some Finished
  else if list_eqb s (status_string Closed) then Some Closed
  else None.

(* ------------------------------------------------------------------ UTF-8 *)

Definition fffd : codepoint := 65533.

(* Unicode scalar value: a code point that is not a surrogate *)
Definition is_scalar (c : codepoint) : bool :=
  (c <? 55296) || ((57344 <=? c) && (c <=? 1114111)).
Definition valid_scalar (c : codepoint) : Prop := is_scalar c = true.

(* utf8.EncodeRune / AppendRune on a scalar value *)
Definition utf8_encode (c : codepoint) : list byte :=
  if c <? 128 then [c]
  else if c <? 2048 then [192 + c / 64; 128 + c mod 64]
  else if c <? 65536 then [224 + c / 4096; 128 + (c / 64) mod 64; 128 + c mod 64]
  else [240 + c / 262144; 128 + (c / 4096) mod 64; 128 + (c / 64) mod 64; 128 + c mod 64].

Definition utf8_encode_all (s : list codepoint) : list byte := flat_map utf8_encode s.

Definition in_range (lo hi b : N) : bool := (lo <=? b) && (b <=? hi).
Definition cont (b : byte) : bool := in_range 128 191 b.

(* result of decoding one rune at the front of [b0 :: r]:
   (rune, well-formed?, the bytes consumed, the rest). Not well-formed = (RuneError, width 1). *)
Definition bad1 (b0 : byte) (r : list byte) : codepoint * bool * list byte * list byte :=
  (fffd, false, [b0], r).

(* utf8.DecodeRune: first-byte classes and the accept ranges of the second byte
   (E0: A0..BF, ED: 80..9F, F0: 90..BF, F4: 80..8F, otherwise 80..BF) *)
Definition utf8_decode (b0 : byte) (r : list byte) : codepoint * bool * list byte * list byte :=
  if b0 <? 128 then (b0, true, [b0], r)
  else if b0 <? 194 then bad1 b0 r
  else if b0 <? 224 then
    match r with
    | b1 :: r1 =>
        if cont b1 then ((b0 - 192) * 64 + (b1 - 128), true, [b0; b1], r1) else bad1 b0 r
    | _ => bad1 b0 r
    end
  else if b0 <? 240 then
    match r with
    | b1 :: b2 :: r2 =>
        if in_range (if b0 =? 224 then 160 else 128) (if b0 =? 237 then 159 else 191) b1 && cont b2
        then ((b0 - 224) * 4096 + (b1 - 128) * 64 + (b2 - 128), true, [b0; b1; b2], r2)
        else bad1 b0 r
    | _ => bad1 b0 r
    end
  else if b0 <? 245 then
    match r with
    | b1 :: b2 :: b3 :: r3 =>
        if in_range (if b0 =? 240 then 144 else 128) (if b0 =? 244 then 143 else 191) b1
           && cont b2 && cont b3
        then ((b0 - 240) * 262144 + (b1 - 128) * 4096 + (b2 - 128) * 64 + (b3 - 128), true,
              [b0; b1; b2; b3], r3)
        else bad1 b0 r
    | _ => bad1 b0 r
    end
  else bad1 b0 r.

(* []rune(s) for a Go string given by its bytes *)
Fixpoint runes_loop (fuel : nat) (bs : list byte) : list codepoint :=
  match fuel, bs with
  | S f, b :: r => let '(c, _, _, rest) := utf8_decode b r in c :: runes_loop f rest
  | _, _ => []
  end.
Definition runes_of_bytes (bs : list byte) : list codepoint := runes_loop (length bs) bs.

(* ------------------------------------------------------------------ JSON string encoding *)

(* const hex = "0123456789abcdef" *)
Definition hexdigit (n : N) : byte := if n <? 10 then 48 + n else 87 + n.

(* one byte below utf8.RuneSelf, escapeHTML = true *)
Definition enc_ascii (b : byte) : list byte :=
  if (b =? 34) || (b =? 92) then [92; b]                       (* escaped quote, backslash *)
  else if b =? 8 then [92; 98]                                  (* \b *)
  else if b =? 12 then [92; 102]                                (* \f *)
  else if b =? 10 then [92; 110]                                (* \n *)
  else if b =? 13 then [92; 114]                                (* \r *)
  else if b =? 9 then [92; 116]                                 (* \t *)
  else if (b <? 32) || (b =? 60) || (b =? 62) || (b =? 38)      (* other controls, < > & *)
       then [92; 117; 48; 48; hexdigit (b / 16); hexdigit (b mod 16)]
  else [b].

Definition is_linesep (c : codepoint) : bool := (c =? 8232) || (c =? 8233).   (* U+2028 U+2029 *)
Definition esc_linesep (c : codepoint) : list byte := [92; 117; 50; 48; 50; hexdigit (c mod 16)].
Definition esc_fffd : list byte := [92; 117; 102; 102; 102; 100].               (* backslash u f f f d *)

Definition enc_cp (c : codepoint) : list byte :=
  if c <? 128 then enc_ascii c
  else if is_linesep c then esc_linesep c
  else utf8_encode c.

(* json.Marshal of a Go string whose runes are the scalar values [s] *)
Definition enc_string (s : list codepoint) : list byte :=
  34 :: flat_map enc_cp s ++ [34].

(* appendString on the raw bytes of a Go string (malformed UTF-8 becomes the six bytes backslash-u-fffd) *)
Fixpoint enc_bytes_loop (fuel : nat) (bs : list byte) : list byte :=
  match fuel, bs with
  | S f, b :: r =>
      if b <? 128 then enc_ascii b ++ enc_bytes_loop f r
      else
        let '(c, ok, consumed, rest) := utf8_decode b r in
        (if negb ok then esc_fffd
         else if is_linesep c then esc_linesep c
         else consumed) ++ enc_bytes_loop f rest
  | _, _ => []
  end.
Definition enc_bytes (bs : list byte) : list byte :=
  34 :: enc_bytes_loop (length bs) bs ++ [34].

(* ------------------------------------------------------------------ JSON string decoding *)

Definition hexval (b : byte) : option N :=
  if in_range 48 57 b then Some (b - 48)
  else if in_range 97 102 b then Some (b - 87)
  else if in_range 65 70 b then Some (b - 55)
  else None.

(* four hex digits *)
Definition hex4 (bs : list byte) : option (N * list byte) :=
  match bs with
  | a :: b :: c :: d :: r =>
      match hexval a, hexval b, hexval c, hexval d with
      | Some a, Some b, Some c, Some d => Some (((a * 16 + b) * 16 + c) * 16 + d, r)
      | _, _, _, _ => None
      end
  | _ => None
  end.

(* getu4: a complete \uXXXX at the front *)
Definition getu4 (bs : list byte) : option (N * list byte) :=
  match bs with
  | b0 :: b1 :: r => if (b0 =? 92) && (b1 =? 117) then hex4 r else None
  | _ => None
  end.

Definition is_surrogate (u : N) : bool := (55296 <=? u) && (u <? 57344).

Inductive dstep :=
| DDone (rest : list byte)                    (* closing quote *)
| DChar (c : codepoint) (rest : list byte)    (* one rune appended *)
| DFail.                                      (* not a string literal *)

(* one iteration of the unquote loop, with the scanner's restrictions folded in:
   control characters and escapes other than quote, backslash, slash, \b \f \n \r \t \uXXXX  are rejected
   (the scanner runs first, so unquoteBytes' extra \' case is unreachable);
   \uD800..\uDBFF followed by \uDC00..\uDFFF is one rune, any other surrogate escape is U+FFFD;
   raw bytes >= 0x80 go through utf8.DecodeRune (malformed => U+FFFD, one byte consumed). *)
Definition dec_step (bs : list byte) : dstep :=
  match bs with
  | [] => DFail
  | b :: r =>
      if b =? 34 then DDone r
      else if b =? 92 then
        match r with
        | [] => DFail
        | e :: r1 =>
            if (e =? 34) || (e =? 92) || (e =? 47) then DChar e r1
            else if e =? 98 then DChar 8 r1
            else if e =? 102 then DChar 12 r1
            else if e =? 110 then DChar 10 r1
            else if e =? 114 then DChar 13 r1
            else if e =? 116 then DChar 9 r1
            else if e =? 117 then
              match hex4 r1 with
              | None => DFail
              | Some (u, r2) =>
                  if is_surrogate u then
                    match getu4 r2 with
                    | Some (u2, r3) =>
                        if (u <? 56320) && (56320 <=? u2) && (u2 <? 57344)
                        then DChar (65536 + (u - 55296) * 1024 + (u2 - 56320)) r3
                        else DChar fffd r2
                    | None => DChar fffd r2
                    end
                  else DChar u r2
              end
            else DFail
        end
      else if b <? 32 then DFail
      else let '(c, _, _, rest) := utf8_decode b r in DChar c rest
  end.

(* every iteration consumes at least one byte: [length bs + 1] iterations are enough *)
Fixpoint dec_loop (fuel : nat) (bs : list byte) (acc : list codepoint)
  : option (list codepoint * list byte) :=
  match fuel with
  | O => None
  | S f =>
      match dec_step bs with
      | DDone r => Some (rev acc, r)
      | DChar c r => dec_loop f r (c :: acc)
      | DFail => None
      end
  end.

(* a JSON string literal at the front of [bs]: its value and what follows it *)
Definition dec_string (bs : list byte) : option (list codepoint * list byte) :=
  match bs with
  | b :: r => if b =? 34 then dec_loop (S (length r)) r [] else None
  | [] => None
  end.

(* ------------------------------------------------------------------ envelope *)

Definition lit_open   : list byte := [123; 34; 105; 100; 34; 58].                        (* {"id":      *)
Definition lit_status : list byte := [44; 34; 115; 116; 97; 116; 117; 115; 34; 58].      (* ,"status":  *)
Definition lit_data   : list byte := [44; 34; 100; 97; 116; 97; 34; 58].                 (* ,"data":    *)
Definition lit_close  : byte := 125.                                                    (* }           *)

(* job.Json() = json.Marshal(jobView{Id, Status, Payload}); [payload] = the payload's own
   json.Marshal output *)
Definition encode_env (id : list codepoint) (st : status) (payload : list byte) : list byte :=
  lit_open ++ enc_string id ++ lit_status ++ enc_string (status_string st)
           ++ lit_data ++ payload ++ [lit_close].

(* the same for a Go string id given by its raw bytes (possibly malformed UTF-8) *)
Definition encode_env_bytes (id : list byte) (st : status) (payload : list byte) : list byte :=
  lit_open ++ enc_bytes id ++ lit_status ++ enc_string (status_string st)
           ++ lit_data ++ payload ++ [lit_close].

Fixpoint strip_prefix (p bs : list byte) : option (list byte) :=
  match p, bs with
  | [], _ => Some bs
  | x :: p', y :: bs' => if x =? y then strip_prefix p' bs' else None
  | _ :: _, [] => None
  end.

Inductive dec_error := Malformed | InvalidStatus.

Inductive result (A : Type) :=
| Ok (a : A)
| Err (e : dec_error).
Arguments Ok {A} a.
Arguments Err {A} e.

Section Envelope.
  (* splits one JSON value (as accepted by encoding/json for the payload type) off the front *)
  Variable scan_payload : list byte -> option (list byte * list byte).

  (* parseToJob on an envelope of the shape produced by encode_env.
     json.Unmarshal validates the whole input before the status switch runs, hence Malformed
     wins over InvalidStatus. *)
  Definition decode_env (bs : list byte) : result (list codepoint * status * list byte) :=
    match strip_prefix lit_open bs with
    | None => Err Malformed
    | Some r0 =>
    match dec_string r0 with
    | None => Err Malformed
    | Some (id, r1) =>
    match strip_prefix lit_status r1 with
    | None => Err Malformed
    | Some r2 =>
    match dec_string r2 with
    | None => Err Malformed
    | Some (sts, r3) =>
    match strip_prefix lit_data r3 with
    | None => Err Malformed
    | Some r4 =>
    match scan_payload r4 with
    | None => Err Malformed
    | Some (p, r5) =>
    match r5 with
    | [b] =>
        if b =? lit_close then
          match parse_status sts with
          | Some st => Ok (id, st, p)
          | None => Err InvalidStatus
          end
        else Err Malformed
    | _ => Err Malformed
    end end end end end end end.

  (* the worker's view of a stored sequence of entries: each entry is decoded on its own *)
  Definition consume_all (entries : list (list byte))
    : list (result (list codepoint * status * list byte)) :=
    map decode_env entries.
End Envelope.

(* persistentQueue.Add, persistentPriorityQueue.Add, distributedQueue.Add,
   distributedPriorityQueue.Add up to the Enqueue call: newJob leaves the status at created;
   [marshalled] = None when json.Marshal rejects the payload: then Add returns false and Enqueue is
   not called. Some bs = the entry handed to Enqueue. *)
Definition submit_entry (id : list codepoint) (marshalled : option (list byte)) : option (list byte) :=
  match marshalled with
  | None => None
  | Some p => Some (encode_env id Created p)
  end.
