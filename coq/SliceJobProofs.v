(* SliceJobProofs.v — inductive invariant of the per-job protocol and the theorems the job-level
   properties (C01 at-most-once / only-accepted, C05, C10, C16) rest on. Every statement is
   about every event list accepted by [jrun]: every schedule, every number of threads, every
   interleaving of Close / Wait / Status callers with dispatch and completion. *)
From Coq Require Import List Arith Bool Lia.
From VQ Require Import SliceJob.
Import ListNotations.

Lemma loc_eqb_true a b : loc_eqb a b = true -> a = b.
Proof.
  destruct a, b; cbn; intros H; try discriminate; try reflexivity;
    apply Nat.eqb_eq in H; now subst.
Qed.

Definition rank_le (a b : jstatus) : Prop := a <= b.

Definition prerun (l : loc) : bool :=
  match l with
  | LNotPub _ | LInQ | LRejected _ | LPurged _ | LDeq _ | LSkipped | LClaimed => true
  | _ => false
  end.

Definition inflight (l : loc) : bool :=
  match l with LClaimed | LRunning _ | LExited _ => true | _ => false end.

Definition is_fin (l : loc) : bool := match l with LFin _ | LAcked _ | LAckFailed _ => true | _ => false end.
Definition is_acked (l : loc) : bool := match l with LAcked _ => true | _ => false end.
Definition is_notpub (l : loc) : bool := match l with LNotPub _ => true | _ => false end.
Definition is_running (l : loc) : bool := match l with LRunning _ => true | _ => false end.
Definition is_after (l : loc) : bool := match l with LExited _ | LFin _ | LAcked _ | LAckFailed _ => true | _ => false end.
Definition waiting (l : loc) : bool :=
  match l with
  | LNotPub _ | LInQ | LRejected _ | LPurged _ | LDeq _ | LSkipped => true
  | _ => false
  end.
Definition is_some {A} (o : option A) : bool := match o with Some _ => true | None => false end.

Record Inv (s : jstate) : Prop := mkInv {
  i_inflight : inflight (where_ s) = true -> st s = sProcessing;
  i_fin : is_fin (where_ s) = true -> st s = sFinished \/ st s = sClosed;
  i_notpub : is_notpub (where_ s) = true -> (st s = sCreated \/ st s = sQueued) /\ closes s = 0;
  i_closed : closes s >= 1 -> st s = sClosed;
  i_closes_le : closes s <= 1;
  i_winner : is_some (winner s) = true -> closes s = 1 /\ signals s = 0 /\ donep s = None;
  i_donep : is_some (donep s) = true -> signals s = 1 /\ nilCloses s = 0 /\ winner s = None;
  i_nowinner : winner s = None -> signals s = closes s;
  i_nil_le : nilCloses s <= 1;
  i_nil : nilCloses s = 1 -> signals s = 1 /\ donep s = None;
  i_wg : hasWg s = true -> wg s + signals s = 1;
  i_prerun : prerun (where_ s) = true -> starts s = 0 /\ exits s = 0;
  i_running : is_running (where_ s) = true -> starts s = 1 /\ exits s = 0;
  i_after : is_after (where_ s) = true -> starts s = 1 /\ exits s = 1;
  i_cancel : cancelledBeforeStart s = true -> starts s = 0 /\ st s = sClosed /\ closes s = 1;
  i_cancel_flag : closes s = 1 -> starts s = 0 -> cancelledBeforeStart s = true;
  i_closed_done : closes s = 1 -> starts s = 0 \/ exits s = 1;
  i_handle_status : parsed s = false -> waiting (where_ s) = true ->
                    st s = sCreated \/ st s = sQueued \/ st s = sClosed;
  i_st_le : st s <= sClosed;
  i_acks : acks s = if is_acked (where_ s) then 1 else 0
}.

Lemma init_inv : Inv init_state.
Proof. constructor; cbn; intros; try discriminate; try lia; auto; unfold sCreated, sClosed; lia. Qed.

Lemma closeable_not v : closeable v = true -> v <> sProcessing /\ v <> sClosed.
Proof.
  unfold closeable. intros H. apply negb_true_iff, orb_false_iff in H as [H1 H2].
  apply Nat.eqb_neq in H1, H2. auto.
Qed.

Ltac bools :=
  repeat match goal with
         | H : _ && _ = true |- _ => apply andb_prop in H; destruct H
         | H : loc_eqb _ _ = true |- _ => apply loc_eqb_true in H
         | H : Nat.eqb _ _ = true |- _ => apply Nat.eqb_eq in H
         | H : true = Nat.eqb _ _ |- _ => symmetry in H; apply Nat.eqb_eq in H
         | H : false = Nat.eqb _ _ |- _ => symmetry in H; apply Nat.eqb_neq in H
         | H : Nat.eqb _ _ = false |- _ => apply Nat.eqb_neq in H
         | H : Nat.leb _ _ = true |- _ => apply Nat.leb_le in H
         | H : negb _ = true |- _ => apply negb_true_iff in H
         | H : Bool.eqb _ _ = true |- _ => apply Bool.eqb_prop in H
         | H : closeable _ = true |- _ => apply closeable_not in H; destruct H
         | H : opt_is ?o _ = true |- _ => destruct o; cbn in H; [apply Nat.eqb_eq in H; subst | discriminate H]
         | H : published ?l || _ = true |- _ => destruct l; cbn in H; try discriminate H
         | H : published ?l = true |- _ => destruct l; cbn in H; try discriminate H
         end.

Ltac destr_step H :=
  repeat match type of H with
         | (if ?c then _ else _) = Some _ => let E := fresh "E" in destruct c eqn:E; try discriminate H
         | match ?x with _ => _ end = Some _ => let E := fresh "E" in destruct x eqn:E; try discriminate H
         end;
  try (inversion H; subst; clear H).

(* the state is a record of finite data and counters: expose everything and let lia decide *)
Ltac expose s :=
  destruct s as [st0 loc0 wg0 hw0 win0 don0 sta0 exi0 clo0 sig0 nil0 can0 par0 ack0]; cbn in *.

Ltac decomp :=
  repeat match goal with
         | H : _ /\ _ |- _ => destruct H
         end.

(* specialise implications whose premise is decided by computation *)
Ltac spec :=
  repeat match goal with
         | H : true = true -> _ |- _ => specialize (H eq_refl)
         | H : ?a = ?a -> _ |- _ => specialize (H eq_refl)
         | H : false = true -> _ |- _ => clear H
         | H : Some _ = None -> _ |- _ => clear H
         | H : _ /\ _ |- _ => destruct H
         end.

Ltac arith_spec :=
  repeat match goal with
         | H : ?A -> _ |- _ =>
             match A with
             | _ >= _ => idtac | _ <= _ => idtac | _ = _ => idtac
             end;
             let h := fresh in
             first [ assert (h : A) by (clear H; first [assumption | lia | congruence]); specialize (H h); clear h
                   | let h2 := fresh in assert (h2 : ~ A) by (clear H; first [lia | congruence]); clear H ]
         end; spec.

Ltac solve_clause :=
  intros; spec; subst; cbn in *; bools; subst; cbn in *; unfold sCreated, sQueued, sProcessing, sFinished, sClosed in *;
  first [ assumption | discriminate | reflexivity | solve [auto] | lia | congruence
        | (arith_spec; first [ assumption | discriminate | solve [auto] | lia | congruence | tauto ]) ].

Ltac heavy :=
  intros; spec; subst; cbn in *; bools; subst; cbn in *;
  repeat match goal with x : option tid |- _ => destruct x; cbn in * end;
  repeat match goal with b : bool |- _ => destruct b; cbn in * end;
  spec; try discriminate;
  repeat match goal with
         | H : ?c <= 1 |- _ => is_var c; let E := fresh in assert (E : c = 0 \/ c = 1) by lia; clear H; destruct E; subst
         end;
  cbn in *; spec; arith_spec; bools; subst;
  first [ assumption | discriminate | solve [auto] | lia | congruence | tauto | (split; [lia | split; [congruence | lia]]) | (exfalso; lia) | (exfalso; congruence) ].

Ltac go I H s :=
  expose s; cbn in H; destr_step H; bools; subst; cbn in *;
  destruct I; cbn in *; constructor; cbn; spec.

Lemma inv_ENew s t w s' : Inv s -> jstep s (ENew t w) = Some s' -> Inv s'.
Proof. intros I H. go I H s. all: try solve_clause. all: heavy. Qed.

Lemma inv_EStoreQueued s t s' : Inv s -> jstep s (EStoreQueued t) = Some s' -> Inv s'.
Proof. intros I H. go I H s. all: try solve_clause. all: heavy. Qed.

Lemma inv_EStoreParse s t v s' : Inv s -> jstep s (EStoreParse t v) = Some s' -> Inv s'.
Proof. intros I H. go I H s. all: try solve_clause. all: heavy. Qed.

Lemma inv_EStoreFinished s g s' : Inv s -> jstep s (EStoreFinished g) = Some s' -> Inv s'.
Proof. intros I H. go I H s. all: try solve_clause. all: heavy. Qed.

Lemma inv_ELoad s t v s' : Inv s -> jstep s (ELoad t v) = Some s' -> Inv s'.
Proof. intros I H. go I H s. all: try solve_clause. all: heavy. Qed.

Lemma inv_ESkip s t s' : Inv s -> jstep s (ESkip t) = Some s' -> Inv s'.
Proof. intros I H. go I H s. all: try solve_clause. all: heavy. Qed.

Lemma inv_ECasClaim s t v ok s' : Inv s -> jstep s (ECasClaim t v ok) = Some s' -> Inv s'.
Proof. intros I H. go I H s. all: try solve_clause. all: heavy. Qed.

Lemma inv_ECasClose s t v ok s' : Inv s -> jstep s (ECasClose t v ok) = Some s' -> Inv s'.
Proof. intros I H. go I H s. all: try solve_clause. all: heavy. Qed.

Lemma inv_ESignal s t s' : Inv s -> jstep s (ESignal t) = Some s' -> Inv s'.
Proof. intros I H. go I H s. all: try solve_clause. all: heavy. Qed.

Lemma inv_EWait s t s' : Inv s -> jstep s (EWait t) = Some s' -> Inv s'.
Proof. intros I H. go I H s. all: try solve_clause. all: heavy. Qed.

Lemma inv_EEnq s t ok s' : Inv s -> jstep s (EEnq t ok) = Some s' -> Inv s'.
Proof. intros I H. go I H s. all: try solve_clause. all: heavy. Qed.

Lemma inv_EDeq s t s' : Inv s -> jstep s (EDeq t) = Some s' -> Inv s'.
Proof. intros I H. go I H s. all: try solve_clause. all: heavy. Qed.

Lemma inv_EPurged s t s' : Inv s -> jstep s (EPurged t) = Some s' -> Inv s'.
Proof. intros I H. go I H s. all: try solve_clause. all: heavy. Qed.

Lemma inv_EWfEnter s g s' : Inv s -> jstep s (EWfEnter g) = Some s' -> Inv s'.
Proof. intros I H. go I H s. all: try solve_clause. all: heavy. Qed.

Lemma inv_EWfExit s g s' : Inv s -> jstep s (EWfExit g) = Some s' -> Inv s'.
Proof. intros I H. go I H s. all: try solve_clause. all: heavy. Qed.

Lemma inv_ERetCloseNil s t s' : Inv s -> jstep s (ERetCloseNil t) = Some s' -> Inv s'.
Proof. intros I H. go I H s. all: try solve_clause. all: heavy. Qed.

Lemma inv_EAck s g ok s' : Inv s -> jstep s (EAck g ok) = Some s' -> Inv s'.
Proof. intros I H. go I H s. all: try solve_clause. all: heavy. Qed.

Lemma step_inv s e s' : Inv s -> jstep s e = Some s' -> Inv s'.
Proof.
  intros I H. destruct e.
  - eapply inv_ENew; eauto.
  - eapply inv_EStoreQueued; eauto.
  - eapply inv_EStoreParse; eauto.
  - eapply inv_EStoreFinished; eauto.
  - eapply inv_ELoad; eauto.
  - eapply inv_ESkip; eauto.
  - eapply inv_ECasClaim; eauto.
  - eapply inv_ECasClose; eauto.
  - eapply inv_ESignal; eauto.
  - eapply inv_EWait; eauto.
  - eapply inv_EEnq; eauto.
  - eapply inv_EDeq; eauto.
  - eapply inv_EPurged; eauto.
  - eapply inv_EWfEnter; eauto.
  - eapply inv_EWfExit; eauto.
  - eapply inv_ERetCloseNil; eauto.
  - eapply inv_EAck; eauto.
Qed.

Lemma run_inv es : forall s s', Inv s -> jrun s es = Some s' -> Inv s'.
Proof.
  induction es as [|e es IH]; cbn; intros s s' I H.
  - now inversion H; subst.
  - destruct (jstep s e) as [s1|] eqn:E; [|discriminate]. eapply IH; [|exact H]. eapply step_inv; eauto.
Qed.

Definition Reachable (s : jstate) : Prop := exists es, jrun init_state es = Some s.

Lemma reachable_inv s : Reachable s -> Inv s.
Proof. intros [es H]. eapply run_inv; [apply init_inv | exact H]. Qed.

Lemma run_app es1 : forall es2 s, jrun s (es1 ++ es2) = match jrun s es1 with Some s1 => jrun s1 es2 | None => None end.
Proof. induction es1 as [|e es1 IH]; cbn; intros; [reflexivity|]. destruct (jstep s e); auto. Qed.

Lemma reachable_ext s es s' : Reachable s -> jrun s es = Some s' -> Reachable s'.
Proof. intros [es0 H0] H. exists (es0 ++ es). now rewrite run_app, H0. Qed.

(* ---------------------------------------------------------------- theorems *)

Ltac unfold_st := unfold sCreated, sQueued, sProcessing, sFinished, sClosed in *.

Lemma closes_of_signal s : Inv s -> signals s = 1 -> closes s = 1.
Proof.
  intros I H. destruct (winner s) eqn:E.
  - destruct (i_winner s I) as (? & ? & ?); [now rewrite E|]. lia.
  - pose proof (i_nowinner s I E). lia.
Qed.

(* the worker function is entered at most once, and left at most as often as entered *)
Theorem at_most_once s : Reachable s -> starts s <= 1 /\ exits s <= starts s.
Proof.
  intros R. apply reachable_inv in R.
  pose proof (i_prerun s R). pose proof (i_running s R). pose proof (i_after s R).
  destruct (where_ s); cbn in *; intuition lia.
Qed.

(* jstatus never moves backwards, whoever takes the step — for every job that has a handle
   (a job rebuilt by parseToJob from a stored entry starts from whatever jstatus the entry
   carries; nobody holds a handle to it) *)
Theorem status_monotone s e s' :
  Reachable s -> parsed s = false -> jstep s e = Some s' -> rank_le (st s) (st s') \/ parsed s' = true.
Proof.
  intros R P H. apply reachable_inv in R. unfold rank_le.
  pose proof (i_inflight s R) as A1. pose proof (i_handle_status s R P) as A2. pose proof (i_notpub s R) as A3.
  pose proof (i_st_le s R) as A4.
  clear R. expose s. subst.
  destruct e; cbn in H; destr_step H; bools; subst; cbn in *; unfold_st; auto; try (left; lia).
  all: try (destruct loc0; cbn in *; try discriminate); spec; unfold_st; left; intuition lia.
Qed.

(* Processing for as long as the worker function runs *)
Theorem processing_while_running s g : Reachable s -> where_ s = LRunning g -> st s = sProcessing.
Proof.
  intros R E. apply reachable_inv in R. apply (i_inflight s R). now rewrite E.
Qed.

(* the completion signal is given at most once (no negative WaitGroup counter, no double
   release), at most one Close call ever returns nil, and a job is closed by at most one claim *)
Theorem single_close s : Reachable s -> closes s <= 1 /\ signals s <= 1 /\ nilCloses s <= 1.
Proof.
  intros R. apply reachable_inv in R.
  pose proof (i_closes_le s R). pose proof (i_nil_le s R).
  repeat split; try assumption. destruct (winner s) eqn:E.
  - destruct (i_winner s R) as (? & ? & ?); [now rewrite E|]. lia.
  - pose proof (i_nowinner s R E). lia.
Qed.

(* the branch of [jstep] that stands for "sync: negative WaitGroup counter" is unreachable *)
Theorem signal_never_underflows s t :
  Reachable s -> winner s = Some t -> hasWg s = true -> wg s >= 1.
Proof.
  intros R E Hw. apply reachable_inv in R.
  destruct (i_winner s R) as (? & ? & ?); [now rewrite E|]. pose proof (i_wg s R Hw). lia.
Qed.

(* Wait returns only when the job is closed, and a closed job has either finished its worker
   function or was never started (cancelled, purged or rejected) *)
Theorem wait_sound s t s' :
  Reachable s -> jstep s (EWait t) = Some s' ->
  st s = sClosed /\ (exits s = 1 \/ starts s = 0).
Proof.
  intros R H. apply reachable_inv in R. cbn in H.
  destruct (hasWg s && (wg s =? 0)) eqn:E; [|discriminate]. bools.
  pose proof (i_wg s R H0). assert (Hs : signals s = 1) by lia.
  pose proof (closes_of_signal s R Hs) as Hc.
  split; [apply (i_closed s R); lia|]. destruct (i_closed_done s R Hc); auto.
Qed.

(* closed is final *)
Theorem closed_is_final s e s' : Reachable s -> st s = sClosed -> jstep s e = Some s' -> st s' = sClosed.
Proof.
  intros R E H. apply reachable_inv in R.
  pose proof (i_inflight s R) as A1. pose proof (i_notpub s R) as A3.
  clear R. expose s.
  destruct e; cbn in H; destr_step H; bools; cbn in *; auto; try congruence.
  all: try (destruct loc0; cbn in *; try discriminate); spec; unfold_st; intuition (try lia; try discriminate; try congruence).
Qed.

(* a job closed before it started never starts: cancellation, purge and rejection exclude execution *)
Theorem cancelled_never_runs s es s' :
  Reachable s -> cancelledBeforeStart s = true -> jrun s es = Some s' ->
  starts s' = 0 /\ cancelledBeforeStart s' = true.
Proof.
  intros R C H.
  assert (G : forall es s s', Reachable s -> cancelledBeforeStart s = true -> jrun s es = Some s' ->
                              cancelledBeforeStart s' = true /\ Reachable s').
  { clear. induction es as [|e es IH]; cbn; intros s s' R C H.
    - inversion H; subst. auto.
    - destruct (jstep s e) as [s1|] eqn:E; [|discriminate].
      apply (IH s1 s'); auto.
      + apply (reachable_ext s [e] s1 R). cbn. now rewrite E.
      + clear IH H.
        assert (Hs : starts s = 0 /\ st s = sClosed) by (apply reachable_inv in R; destruct (i_cancel s R C) as (? & ? & ?); auto).
        destruct Hs as [Hs1 Hs2]. clear R.
        expose s. subst. destruct e; cbn in E; destr_step E; bools; subst; cbn; auto; unfold_st; try lia; try discriminate. }
  destruct (G es s s' R C H) as [C' R'].
  apply reachable_inv in R'. destruct (i_cancel s' R' C') as (? & ? & ?). auto.
Qed.

(* when a Close call returns nil while the job has not started, the job is cancelled for good *)
Theorem close_nil_before_start s t s' :
  Reachable s -> jstep s (ERetCloseNil t) = Some s' -> starts s = 0 ->
  cancelledBeforeStart s' = true.
Proof.
  intros R H S0.
  apply reachable_inv in R. cbn in H.
  destruct (opt_is (donep s) t) eqn:E; [|discriminate]. inversion H; subst; clear H. cbn.
  destruct (donep s) eqn:D; [|discriminate].
  destruct (i_donep s R) as (Hs & _ & _); [now rewrite D|].
  pose proof (closes_of_signal s R Hs) as Hc.
  apply (i_cancel_flag s R Hc S0).
Qed.

(* the worker function is entered only on a claimed job *)
Theorem only_claimed_jobs_run s g s' : jstep s (EWfEnter g) = Some s' -> where_ s = LClaimed.
Proof.
  intros H. cbn in H. destruct (loc_eqb (where_ s) LClaimed) eqn:E; [|discriminate].
  now apply loc_eqb_true.
Qed.

(* a rejected submission stays rejected: it never reaches a queue, a dispatcher or a worker *)
Lemma rejected_step s t e s1 : where_ s = LRejected t -> jstep s e = Some s1 -> where_ s1 = LRejected t.
Proof.
  intros L E. expose s. subst.
  destruct e; cbn in E; destr_step E; cbn; auto; bools; try discriminate.
Qed.

Theorem rejected_never_queued s t es s' :
  where_ s = LRejected t -> jrun s es = Some s' -> where_ s' = LRejected t.
Proof.
  revert s. induction es as [|e es IH]; cbn; intros s L H.
  - now inversion H; subst.
  - destruct (jstep s e) as [s1|] eqn:E; [|discriminate].
    eapply IH; [|exact H]. eapply rejected_step; eauto.
Qed.

(* once Wait may return it may return for ever *)
Theorem wait_stays_enabled s e s' t :
  Reachable s -> jstep s (EWait t) = Some s -> jstep s e = Some s' ->
  forall t', jstep s' (EWait t') = Some s'.
Proof.
  intros R Hw He t'. pose proof (reachable_inv s R) as I.
  cbn in Hw. destruct (hasWg s && (wg s =? 0)) eqn:E; [|discriminate]. bools.
  pose proof (i_wg s I H) as W.
  assert (Hs : signals s = 1) by lia.
  assert (Hwin : winner s = None).
  { destruct (winner s) eqn:Ew; [|reflexivity].
    destruct (i_winner s I) as (? & ? & ?); [now rewrite Ew|]. lia. }
  clear I R Hw W. expose s. subst. cbn.
  destruct e; cbn in He; destr_step He; cbn; auto; bools; try discriminate.
Qed.

(* acknowledgement: at most once, only after the worker function returned, by the finisher *)
Theorem ack_sound s : Reachable s -> acks s <= 1 /\ (acks s = 1 -> exits s = 1).
Proof.
  intros R. apply reachable_inv in R. pose proof (i_acks s R) as A. pose proof (i_after s R) as B.
  destruct (where_ s); cbn in *; split; intros; try lia; apply B; reflexivity.
Qed.

Theorem ack_enabled_only_when_finished s g ok s' :
  Reachable s -> jstep s (EAck g ok) = Some s' -> exits s = 1 /\ acks s = 0 /\ st s = sFinished.
Proof.
  intros R H. apply reachable_inv in R. cbn in H.
  destruct (loc_eqb (where_ s) (LFin g) && (st s =? sFinished)) eqn:E; [|discriminate]. bools.
  pose proof (i_acks s R) as A. pose proof (i_after s R) as B. rewrite H0 in *. cbn in *.
  repeat split; auto. apply B; reflexivity.
Qed.
