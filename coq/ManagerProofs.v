(* ManagerProofs.v — what the three selection strategies of internal/helpers/manager.go compute,
   for every number of registered items and every vector of lengths, and the starvation-freedom
   core of RoundRobin (rr_fair, rr_no_starvation). *)
From Coq Require Import List ZArith Bool Arith Lia.
From VQ Require Import Manager.
Import ListNotations.

(* ------------------------------------------------------------------------------------------ *)
(* cyclic arithmetic of the cursor, without [mod] (so that [lia] decides it)                    *)
(* ------------------------------------------------------------------------------------------ *)

(* number of steps from cursor [c] forward (cyclically, n positions) to position [p] *)
Definition cdist (n c p : nat) : nat := if c <=? p then p - c else p + n - c.
(* the position after [i] *)
Definition nxt (n i : nat) : nat := if S i =? n then 0 else S i.

Ltac cyc :=
  unfold cdist, nxt in *;
  repeat match goal with
         | |- context [Nat.leb ?a ?b] => destruct (Nat.leb_spec a b)
         | H : context [Nat.leb ?a ?b] |- _ => destruct (Nat.leb_spec a b)
         | |- context [Nat.eqb ?a ?b] => destruct (Nat.eqb_spec a b)
         | H : context [Nat.eqb ?a ?b] |- _ => destruct (Nat.eqb_spec a b)
         end;
  try lia.

(* reading aids: the two definitions are the usual modular expressions *)
Lemma next_idx_eq n i : i < n -> next_idx n i = nxt n i.
Proof.
  intros H. unfold next_idx, nxt. destruct (Nat.eqb_spec (S i) n) as [E|E].
  - replace (i + 1) with n by lia. apply Nat.mod_same. lia.
  - replace (S i) with (i + 1) by lia. apply Nat.mod_small. lia.
Qed.

Lemma nxt_mod n i : i < n -> nxt n i = (i + 1) mod n.
Proof. intros H. symmetry. apply (next_idx_eq n i H). Qed.

Lemma cdist_mod n c p : c < n -> p < n -> cdist n c p = (p + n - c) mod n.
Proof.
  intros Hc Hp. unfold cdist. destruct (Nat.leb_spec c p) as [H|H].
  - replace (p + n - c) with ((p - c) + 1 * n) by lia.
    rewrite Nat.mod_add by lia. symmetry. apply Nat.mod_small. lia.
  - symmetry. apply Nat.mod_small. lia.
Qed.

Lemma cdist_lt n c p : c < n -> p < n -> cdist n c p < n.
Proof. intros; cyc. Qed.

Lemma cdist_self n c : cdist n c c = 0.
Proof. cyc. Qed.

Lemma cdist_inj n c p q : c < n -> p < n -> q < n -> cdist n c p = cdist n c q -> p = q.
Proof. intros; cyc. Qed.

Lemma nxt_lt n i : i < n -> nxt n i < n.
Proof. intros; cyc. Qed.

Lemma cdist_step n c i : c < n -> i < n -> nxt n i <> c -> cdist n c (nxt n i) = S (cdist n c i).
Proof. intros; cyc. Qed.

Lemma cdist_wrap n c i : c < n -> i < n -> nxt n i = c -> cdist n c i = n - 1.
Proof. intros; cyc. Qed.

(* moving the cursor just past [q] shortens the way to every position that lay beyond [q] *)
Lemma cdist_after n c q p :
  c < n -> q < n -> p < n -> cdist n c q < cdist n c p ->
  cdist n (nxt n q) p = cdist n c p - cdist n c q - 1.
Proof. intros; cyc. Qed.

(* ... and puts [q] itself at the far end *)
Lemma cdist_after_self n q : q < n -> cdist n (nxt n q) q = n - 1.
Proof. intros; cyc. Qed.

(* ------------------------------------------------------------------------------------------ *)
(* state invariant                                                                             *)
(* ------------------------------------------------------------------------------------------ *)

Definition mgr_ok (m : mgr) : Prop := mrr m < mcount m \/ (mcount m = 0 /\ mrr m = 0).

Lemma new_mgr_ok : mgr_ok new_mgr.
Proof. right. split; reflexivity. Qed.

Lemma register_ok m : mgr_ok m -> mgr_ok (register m).
Proof. unfold mgr_ok, register. cbn. intros [H|[H1 H2]]; left; lia. Qed.

Lemma unregister_ok m i : mgr_ok m -> mgr_ok (unregister m i).
Proof.
  unfold mgr_ok, unregister. intros H.
  destruct (Nat.ltb_spec i (mcount m)) as [Hi|Hi]; [|exact H].
  cbn. destruct (Nat.leb_spec i (mrr m)); lia.
Qed.

Lemma unregister_count m i :
  mcount (unregister m i) = if i <? mcount m then pred (mcount m) else mcount m.
Proof. unfold unregister. destruct (Nat.ltb_spec i (mcount m)); reflexivity. Qed.

(* ------------------------------------------------------------------------------------------ *)
(* UnregisterItem on the slice itself: position i receives the last item, the rest stays        *)
(* ------------------------------------------------------------------------------------------ *)

Lemma set_nth_length {A} (l : list A) i x : length (set_nth l i x) = length l.
Proof. revert i; induction l as [|y r IH]; intros [|i]; cbn; auto. Qed.

Lemma nth_set_nth {A} (l : list A) i x j d :
  i < length l -> nth j (set_nth l i x) d = if j =? i then x else nth j l d.
Proof.
  revert i j; induction l as [|y r IH]; intros [|i] [|j] H; cbn in *; try lia; auto.
  apply IH. lia.
Qed.

Lemma nth_firstn_lt {A} (l : list A) k j d : j < k -> nth j (firstn k l) d = nth j l d.
Proof.
  revert k j; induction l as [|y r IH]; intros [|k] [|j] H; cbn; try lia; auto.
  apply IH. lia.
Qed.

Lemma swap_remove_length {A} (l : list A) i :
  length (swap_remove l i) = if i <? length l then pred (length l) else length l.
Proof.
  unfold swap_remove. destruct (Nat.ltb_spec i (length l)) as [Hi|Hi].
  - destruct (nth_error l (length l - 1)) eqn:E.
    + rewrite firstn_length, set_nth_length. lia.
    + apply nth_error_None in E. lia.
  - destruct (nth_error l (length l - 1)); reflexivity.
Qed.

Lemma swap_remove_nth {A} (l : list A) i j d :
  i < length l -> j < length l - 1 ->
  nth j (swap_remove l i) d = if j =? i then nth (length l - 1) l d else nth j l d.
Proof.
  intros Hi Hj. unfold swap_remove.
  destruct (nth_error l (length l - 1)) eqn:E.
  - destruct (Nat.ltb_spec i (length l)); [|lia].
    rewrite nth_firstn_lt by exact Hj. rewrite nth_set_nth by exact Hi.
    destruct (Nat.eqb_spec j i); [|reflexivity].
    symmetry. apply nth_error_nth. exact E.
  - apply nth_error_None in E. lia.
Qed.

(* the slice and the counter stay in step *)
Lemma swap_remove_count {A} (l : list A) m i :
  mcount m = length l -> mcount (unregister m i) = length (swap_remove l i).
Proof. intros H. rewrite unregister_count, swap_remove_length, H. reflexivity. Qed.

(* ------------------------------------------------------------------------------------------ *)
(* Len                                                                                         *)
(* ------------------------------------------------------------------------------------------ *)

Definition zsum (l : list Z) : Z := fold_right Z.add 0%Z l.

Lemma wrap_int_id z : (- mtwo63 <= z < mtwo63)%Z -> wrap_int z = z.
Proof. intros H. unfold wrap_int, mtwo63, mtwo64 in *. rewrite Z.mod_small; lia. Qed.

Lemma wrap_int_add_l a l : wrap_int (wrap_int a + l) = wrap_int (a + l).
Proof.
  unfold wrap_int. f_equal.
  replace ((a + mtwo63) mod mtwo64 - mtwo63 + l + mtwo63)%Z
    with ((a + mtwo63) mod mtwo64 + l)%Z by lia.
  rewrite Zplus_mod_idemp_l. f_equal. lia.
Qed.

Lemma mlen_gen lens : forall a,
  fold_left (fun a l => wrap_int (a + l)) lens (wrap_int a) = wrap_int (a + zsum lens).
Proof.
  unfold zsum. induction lens as [|l r IH]; intros a; cbn.
  - f_equal. lia.
  - rewrite wrap_int_add_l, IH. f_equal. lia.
Qed.

Theorem mlen_spec lens : mlen lens = wrap_int (zsum lens).
Proof. unfold mlen. change 0%Z with (wrap_int 0) at 1. rewrite mlen_gen. reflexivity. Qed.

Corollary mlen_exact lens : (- mtwo63 <= zsum lens < mtwo63)%Z -> mlen lens = zsum lens.
Proof. intros H. rewrite mlen_spec. apply wrap_int_id. exact H. Qed.

(* ------------------------------------------------------------------------------------------ *)
(* GetRoundRobinItem                                                                            *)
(* ------------------------------------------------------------------------------------------ *)

Lemma rr_loop_spec n lens start :
  start < n ->
  forall fuel idx, idx < n -> cdist n start idx + fuel = n ->
    (forall p, p < n -> cdist n start p < cdist n start idx -> (nth p lens 0 <= 0)%Z) ->
    match rr_loop fuel n lens start idx with
    | (Picked q, c') =>
        q < n /\ (0 < nth q lens 0)%Z /\ c' = nxt n q /\
        (forall p, p < n -> cdist n start p < cdist n start q -> (nth p lens 0 <= 0)%Z)
    | (ErrAllEmpty, c') => c' = start /\ (forall p, p < n -> (nth p lens 0 <= 0)%Z)
    | (ErrNoItems, _) => False
    end.
Proof.
  intros Hs. induction fuel as [|f IH]; intros idx Hi Hf Hemp.
  - pose proof (cdist_lt n start idx Hs Hi). lia.
  - cbn [rr_loop]. rewrite (next_idx_eq n idx Hi).
    destruct (Z.ltb_spec 0 (nth idx lens 0%Z)) as [Hpos|Hnp].
    + split; [exact Hi|]. split; [exact Hpos|]. split; [reflexivity|exact Hemp].
    + assert (Hrest : forall p, p < n -> cdist n start p <= cdist n start idx -> (nth p lens 0 <= 0)%Z).
      { intros p Hp Hle. destruct (Nat.eq_dec p idx) as [->|Hne]; [exact Hnp|].
        apply Hemp; [exact Hp|].
        assert (cdist n start p <> cdist n start idx)
          by (intro X; apply Hne; exact (cdist_inj n start p idx Hs Hp Hi X)).
        lia. }
      destruct (Nat.eqb_spec (nxt n idx) start) as [E|E].
      * split; [exact E|]. intros p Hp. apply Hrest; [exact Hp|].
        pose proof (cdist_wrap n start idx Hs Hi E). pose proof (cdist_lt n start p Hs Hp). lia.
      * apply IH.
        -- apply nxt_lt; exact Hi.
        -- rewrite cdist_step by assumption. lia.
        -- intros p Hp Hlt. rewrite cdist_step in Hlt by assumption.
           apply Hrest; [exact Hp|lia].
Qed.

(* rr_spec. With n = mcount m items and cursor c = mrr m:
   - n = 0: ErrNoItems, state unchanged;
   - otherwise, if some position holds a length > 0: the pick q is the first such position at
     or after the cursor in cyclic order (every position strictly nearer to the cursor is
     empty), and the cursor moves just past it: nxt n q = (q+1) mod n;
   - otherwise ErrAllEmpty, and the cursor (after a full cycle) is where it was. *)
Theorem rr_spec m lens :
  mgr_ok m ->
  match get_rr m lens with
  | (ErrNoItems, m') => mcount m = 0 /\ m' = m
  | (ErrAllEmpty, m') =>
      0 < mcount m /\ m' = m /\ forall p, p < mcount m -> (nth p lens 0 <= 0)%Z
  | (Picked q, m') =>
      q < mcount m /\ (0 < nth q lens 0)%Z /\ m' = mkMgr (mcount m) (nxt (mcount m) q) /\
      forall p, p < mcount m ->
                cdist (mcount m) (mrr m) p < cdist (mcount m) (mrr m) q -> (nth p lens 0 <= 0)%Z
  end.
Proof.
  intros Hok. unfold get_rr. destruct (mcount m) as [|k] eqn:En.
  - split; reflexivity.
  - assert (Hs : mrr m < S k) by (destruct Hok as [H|[H _]]; lia).
    pose proof (rr_loop_spec (S k) lens (mrr m) Hs (S k) (mrr m) Hs) as H.
    rewrite cdist_self in H. specialize (H eq_refl).
    assert (H0 : forall p, p < S k -> cdist (S k) (mrr m) p < 0 -> (nth p lens 0 <= 0)%Z)
      by (intros; lia).
    specialize (H H0). clear H0.
    destruct (rr_loop (S k) (S k) lens (mrr m) (mrr m)) as [s i].
    destruct s as [q| |].
    + destruct H as (Hq & Hpos & Hi & Hfirst). subst i.
      split; [exact Hq|]. split; [exact Hpos|]. split; [reflexivity|exact Hfirst].
    + destruct H.
    + destruct H as (Hi & Hall). subst i.
      split; [lia|]. split; [|exact Hall].
      destruct m as [c r]. cbn in *. subst c. reflexivity.
Qed.

Corollary rr_noitems_iff m lens :
  mgr_ok m -> (fst (get_rr m lens) = ErrNoItems <-> mcount m = 0).
Proof.
  intros Hok. pose proof (rr_spec m lens Hok) as H.
  destruct (get_rr m lens) as [[q| |] m']; cbn; split; intros X; try discriminate; try tauto; lia.
Qed.

Corollary rr_allempty_iff m lens :
  mgr_ok m ->
  (fst (get_rr m lens) = ErrAllEmpty <->
   0 < mcount m /\ forall p, p < mcount m -> (nth p lens 0 <= 0)%Z).
Proof.
  intros Hok. pose proof (rr_spec m lens Hok) as H.
  destruct (get_rr m lens) as [[q| |] m']; cbn; split; intros X; try discriminate.
  - destruct H as (Hq & Hpos & _). destruct X as (_ & X). specialize (X q Hq). lia.
  - lia.
  - destruct H as (H1 & _ & H3). split; assumption.
  - reflexivity.
Qed.

Lemma get_rr_ok m lens :
  mgr_ok m -> mgr_ok (snd (get_rr m lens)) /\ mcount (snd (get_rr m lens)) = mcount m.
Proof.
  intros Hok. pose proof (rr_spec m lens Hok) as H.
  destruct (get_rr m lens) as [[q| |] m']; cbn.
  - destruct H as (Hq & _ & -> & _). cbn. split; [|reflexivity].
    left. cbn. apply nxt_lt. exact Hq.
  - destruct H as (_ & ->). split; [exact Hok|reflexivity].
  - destruct H as (_ & -> & _). split; [exact Hok|reflexivity].
Qed.

(* every state reachable from CreateManager by Register / UnregisterItem / GetRoundRobinItem
   (GetMaxLenItem, GetMinLenItem, Len, Count do not change the state) satisfies the invariant *)
Inductive mop := OReg | OUnreg (i : nat) | ORR (lens : list Z).

Definition mstep (m : mgr) (o : mop) : mgr :=
  match o with
  | OReg => register m
  | OUnreg i => unregister m i
  | ORR l => snd (get_rr m l)
  end.

Theorem run_ok ops : mgr_ok (fold_left mstep ops new_mgr).
Proof.
  assert (G : forall ops m, mgr_ok m -> mgr_ok (fold_left mstep ops m)).
  { induction ops0 as [|o r IH]; intros m Hm; cbn; [exact Hm|].
    apply IH. destruct o; cbn.
    - apply register_ok; exact Hm.
    - apply unregister_ok; exact Hm.
    - apply get_rr_ok; exact Hm. }
  apply G. exact new_mgr_ok.
Qed.

(* ------------------------------------------------------------------------------------------ *)
(* RoundRobin fairness                                                                          *)
(* ------------------------------------------------------------------------------------------ *)

(* a sequence of GetRoundRobinItem calls; [snaps] = the lengths seen by each call (they may
   change arbitrarily between calls); no Register / UnregisterItem in between *)
Fixpoint rr_run (m : mgr) (snaps : list (list Z)) : list sel * mgr :=
  match snaps with
  | [] => ([], m)
  | l :: r =>
      let '(s, m1) := get_rr m l in
      let '(ss, m2) := rr_run m1 r in
      (s :: ss, m2)
  end.

(* how often position [a] was picked *)
Fixpoint picks (a : nat) (ss : list sel) : nat :=
  match ss with
  | [] => 0
  | Picked p :: r => (if p =? a then 1 else 0) + picks a r
  | _ :: r => picks a r
  end.

(* one call while position [a] is non-empty: something is picked, and it is at most as far
   from the cursor as any non-empty position *)
Lemma rr_step m l a :
  mgr_ok m -> a < mcount m -> (0 < nth a l 0)%Z ->
  exists q,
    get_rr m l = (Picked q, mkMgr (mcount m) (nxt (mcount m) q)) /\ q < mcount m /\
    (0 < nth q l 0)%Z /\
    (forall b, b < mcount m -> (0 < nth b l 0)%Z ->
               cdist (mcount m) (mrr m) q <= cdist (mcount m) (mrr m) b).
Proof.
  intros Hok Ha Hpos. pose proof (rr_spec m l Hok) as H.
  destruct (get_rr m l) as [[q| |] m'].
  - destruct H as (Hq & Hqp & -> & Hfirst). exists q.
    split; [reflexivity|]. split; [exact Hq|]. split; [exact Hqp|].
    intros b Hb Hbp.
    destruct (le_lt_dec (cdist (mcount m) (mrr m) q) (cdist (mcount m) (mrr m) b)) as [Hle|Hlt];
      [exact Hle|].
    specialize (Hfirst b Hb Hlt). lia.
  - lia.
  - destruct H as (_ & _ & H). specialize (H a Ha). lia.
Qed.

Lemma rr_run_cons m l r q :
  get_rr m l = (Picked q, mkMgr (mcount m) (nxt (mcount m) q)) ->
  fst (rr_run m (l :: r)) = Picked q :: fst (rr_run (mkMgr (mcount m) (nxt (mcount m) q)) r).
Proof.
  intros H. cbn [rr_run]. rewrite H.
  destruct (rr_run (mkMgr (mcount m) (nxt (mcount m) q)) r) as [ss m2]. reflexivity.
Qed.

(* The positions a and b are both non-empty at every call. If a comes before b on the way
   from the cursor, then a and b are picked alternately starting with a. *)
Lemma rr_fair_gen n : forall snaps m a b,
  mgr_ok m -> mcount m = n -> a < n -> b < n -> a <> b ->
  Forall (fun l => (0 < nth a l 0)%Z /\ (0 < nth b l 0)%Z) snaps ->
  cdist n (mrr m) a < cdist n (mrr m) b ->
  picks b (fst (rr_run m snaps)) <= picks a (fst (rr_run m snaps)) <= picks b (fst (rr_run m snaps)) + 1.
Proof.
  induction snaps as [|l r IH]; intros m a b Hok Hn Ha Hb Hab Hall Hord.
  - cbn. lia.
  - pose proof (Forall_inv Hall) as [Hla Hlb]. pose proof (Forall_inv_tail Hall) as Hr.
    assert (Hc : mrr m < n) by (destruct Hok as [H|[H _]]; lia).
    rewrite <- Hn in Ha, Hb.
    destruct (rr_step m l a Hok Ha Hla) as (q & Hg & Hq & Hqp & Hfirst).
    rewrite (rr_run_cons m l r q Hg). rewrite Hn in *.
    set (m1 := mkMgr n (nxt n q)).
    assert (Hok1 : mgr_ok m1) by (left; cbn; apply nxt_lt; exact Hq).
    assert (Hn1 : mcount m1 = n) by reflexivity.
    pose proof (Hfirst a Ha Hla) as Hqa. pose proof (Hfirst b Hb Hlb) as Hqb.
    pose proof (cdist_lt n (mrr m) a Hc Ha) as Hda.
    pose proof (cdist_lt n (mrr m) b Hc Hb) as Hdb.
    assert (Hall' : Forall (fun l => (0 < nth b l 0)%Z /\ (0 < nth a l 0)%Z) r).
    { eapply Forall_impl; [|exact Hr]. cbn. intros x [X Y]. split; assumption. }
    cbn [picks].
    destruct (Nat.eq_dec q a) as [->|Hqna].
    + (* a is picked; afterwards b comes first *)
      assert (Hord1 : cdist n (mrr m1) b < cdist n (mrr m1) a).
      { cbn [mrr m1]. rewrite (cdist_after n (mrr m) a b Hc Ha Hb Hord), (cdist_after_self n a Ha). lia. }
      pose proof (IH m1 b a Hok1 Hn1 Hb Ha (not_eq_sym Hab) Hall' Hord1) as HI.
      rewrite Nat.eqb_refl. destruct (Nat.eqb_spec a b) as [X|_]; [contradiction|]. lia.
    + destruct (Nat.eq_dec q b) as [->|Hqnb]; [lia|].
      (* some other position is picked; the order of a and b is preserved *)
      assert (Hqa' : cdist n (mrr m) q < cdist n (mrr m) a).
      { assert (cdist n (mrr m) q <> cdist n (mrr m) a)
          by (intro X; apply Hqna; exact (cdist_inj n (mrr m) q a Hc Hq Ha X)). lia. }
      assert (Hqb' : cdist n (mrr m) q < cdist n (mrr m) b) by lia.
      assert (Hord1 : cdist n (mrr m1) a < cdist n (mrr m1) b).
      { cbn [mrr m1]. rewrite (cdist_after n (mrr m) q a Hc Hq Ha Hqa'), (cdist_after n (mrr m) q b Hc Hq Hb Hqb'). lia. }
      pose proof (IH m1 a b Hok1 Hn1 Ha Hb Hab Hr Hord1) as HI.
      destruct (Nat.eqb_spec q a) as [X|_]; [contradiction|].
      destruct (Nat.eqb_spec q b) as [X|_]; [contradiction|]. lia.
Qed.

(* rr_fair: from any state satisfying the invariant (run_ok: every reachable state), over any
   sequence of GetRoundRobinItem calls, two distinct positions that are non-empty at every call
   are picked equally often, up to one. *)
Theorem rr_fair m snaps a b :
  mgr_ok m -> a < mcount m -> b < mcount m -> a <> b ->
  Forall (fun l => (0 < nth a l 0)%Z /\ (0 < nth b l 0)%Z) snaps ->
  let ss := fst (rr_run m snaps) in
  picks a ss <= picks b ss + 1 /\ picks b ss <= picks a ss + 1.
Proof.
  intros Hok Ha Hb Hab Hall ss. subst ss.
  assert (Hc : mrr m < mcount m) by (destruct Hok as [H|[H _]]; lia).
  destruct (Nat.lt_total (cdist (mcount m) (mrr m) a) (cdist (mcount m) (mrr m) b)) as [H|[H|H]].
  - pose proof (rr_fair_gen (mcount m) snaps m a b Hok eq_refl Ha Hb Hab Hall H). lia.
  - exfalso. apply Hab. exact (cdist_inj (mcount m) (mrr m) a b Hc Ha Hb H).
  - assert (Hall' : Forall (fun l => (0 < nth b l 0)%Z /\ (0 < nth a l 0)%Z) snaps).
    { eapply Forall_impl; [|exact Hall]. cbn. intros x [X Y]. split; assumption. }
    pose proof (rr_fair_gen (mcount m) snaps m b a Hok eq_refl Hb Ha (not_eq_sym Hab) Hall' H). lia.
Qed.

(* a position that stays non-empty is picked before the cursor has made a full turn *)
Lemma rr_pick_within n : forall snaps m a,
  mgr_ok m -> mcount m = n -> a < n ->
  Forall (fun l => (0 < nth a l 0)%Z) snaps ->
  cdist n (mrr m) a < length snaps ->
  1 <= picks a (fst (rr_run m snaps)).
Proof.
  induction snaps as [|l r IH]; intros m a Hok Hn Ha Hall Hd.
  - cbn in Hd. lia.
  - pose proof (Forall_inv Hall) as Hla. pose proof (Forall_inv_tail Hall) as Hr.
    assert (Hc : mrr m < n) by (destruct Hok as [H|[H _]]; lia).
    rewrite <- Hn in Ha.
    destruct (rr_step m l a Hok Ha Hla) as (q & Hg & Hq & Hqp & Hfirst).
    rewrite (rr_run_cons m l r q Hg). rewrite Hn in *.
    cbn [picks]. destruct (Nat.eqb_spec q a) as [->|Hqna]; [lia|].
    set (m1 := mkMgr n (nxt n q)).
    assert (Hok1 : mgr_ok m1) by (left; cbn; apply nxt_lt; exact Hq).
    pose proof (Hfirst a Ha Hla) as Hqa.
    assert (Hqa' : cdist n (mrr m) q < cdist n (mrr m) a).
    { assert (cdist n (mrr m) q <> cdist n (mrr m) a)
        by (intro X; apply Hqna; exact (cdist_inj n (mrr m) q a Hc Hq Ha X)). lia. }
    assert (Hd1 : cdist n (mrr m1) a < length r).
    { cbn [mrr m1]. rewrite (cdist_after n (mrr m) q a Hc Hq Ha Hqa'). cbn [length] in Hd. lia. }
    pose proof (IH m1 a Hok1 eq_refl Ha Hr Hd1). lia.
Qed.

Lemma rr_run_length m : forall s, length (fst (rr_run m s)) = length s.
Proof.
  intros s; revert m; induction s as [|l r IH]; intros m; cbn; [reflexivity|].
  destruct (get_rr m l) as [x m1]. specialize (IH m1).
  destruct (rr_run m1 r) as [ss m2]. cbn in *. lia.
Qed.

Lemma rr_run_app m x y :
  fst (rr_run m (x ++ y)) = fst (rr_run m x) ++ fst (rr_run (snd (rr_run m x)) y).
Proof.
  revert m; induction x as [|l r IH]; intros m; cbn; [reflexivity|].
  destruct (get_rr m l) as [s m1]. specialize (IH m1).
  destruct (rr_run m1 (r ++ y)) as [ss m2]. destruct (rr_run m1 r) as [ss' m2'].
  cbn in *. rewrite IH. reflexivity.
Qed.

Lemma rr_run_ok m s :
  mgr_ok m -> mgr_ok (snd (rr_run m s)) /\ mcount (snd (rr_run m s)) = mcount m.
Proof.
  revert m; induction s as [|l r IH]; intros m Hok; cbn; [split; [exact Hok|reflexivity]|].
  pose proof (get_rr_ok m l Hok) as [H1 H2].
  destruct (get_rr m l) as [x m1]. cbn in H1, H2. specialize (IH m1 H1).
  destruct (rr_run m1 r) as [ss m2]. cbn in *. destruct IH as [I1 I2]. split; [exact I1|lia].
Qed.

Lemma picks_pos_nth a ss :
  1 <= picks a ss -> exists k, k < length ss /\ nth k ss ErrNoItems = Picked a.
Proof.
  induction ss as [|s r IH]; cbn; intros H; [lia|].
  destruct s as [p| |].
  - destruct (Nat.eqb_spec p a) as [->|Hne].
    + exists 0. split; [lia|reflexivity].
    + destruct (IH ltac:(lia)) as (k & Hk & Hn). exists (S k). split; [lia|exact Hn].
  - destruct (IH H) as (k & Hk & Hn). exists (S k). split; [lia|exact Hn].
  - destruct (IH H) as (k & Hk & Hn). exists (S k). split; [lia|exact Hn].
Qed.

(* rr_no_starvation: in any run, a position that is non-empty during a window of n consecutive
   calls (n = number of registered items) is picked by one of these n calls. *)
Theorem rr_no_starvation m pre w post a :
  mgr_ok m -> a < mcount m -> length w = mcount m ->
  Forall (fun l => (0 < nth a l 0)%Z) w ->
  exists k, length pre <= k < length pre + mcount m /\
            nth k (fst (rr_run m (pre ++ w ++ post))) ErrNoItems = Picked a.
Proof.
  intros Hok Ha Hw Hall.
  destruct (rr_run_ok m pre Hok) as [Hok1 Hn1].
  set (m1 := snd (rr_run m pre)) in *.
  assert (Hc : mrr m1 < mcount m) by (destruct Hok1 as [H|[H _]]; lia).
  assert (Hp : 1 <= picks a (fst (rr_run m1 w))).
  { apply (rr_pick_within (mcount m)); auto.
    rewrite Hw. apply cdist_lt; assumption. }
  destruct (picks_pos_nth a _ Hp) as (k & Hk & Hnth). rewrite rr_run_length in Hk.
  exists (length pre + k). split; [lia|].
  rewrite rr_run_app. fold m1. rewrite app_nth2 by (rewrite rr_run_length; lia).
  rewrite rr_run_length. replace (length pre + k - length pre) with k by lia.
  rewrite rr_run_app. rewrite app_nth1 by (rewrite rr_run_length; lia). exact Hnth.
Qed.

(* The no-unregister hypothesis of rr_fair is needed: UnregisterItem resets the cursor to 0
   whenever it is at or past the removed position. Items 0,1,2 all non-empty; pick (item 0),
   unregister position 1 (slice becomes [0;2], cursor reset), pick: item 0 again, while item 2
   was non-empty throughout and has not been served. *)
Example rr_unregister_resets_turn :
  let lens := [1; 1; 1]%Z in
  let m0 := mkMgr 3 0 in
  let '(s1, m1) := get_rr m0 lens in
  let m2 := unregister m1 1 in
  let ids := swap_remove [0; 1; 2] 1 in
  let '(s2, _) := get_rr m2 [1; 1]%Z in
  s1 = Picked 0 /\ ids = [0; 2] /\ s2 = Picked 0 /\ nth 0 ids 9 = 0.
Proof. vm_compute. repeat split. Qed.

(* swap-with-last removal also changes the visiting order: after removing the first of four
   items the cyclic order is 3,1,2 — not the binding order 1,2,3. *)
Example unregister_reorders : swap_remove [0; 1; 2; 3] 0 = [3; 1; 2].
Proof. vm_compute. reflexivity. Qed.

(* ------------------------------------------------------------------------------------------ *)
(* GetMaxLenItem                                                                                *)
(* ------------------------------------------------------------------------------------------ *)

(* no comparison a.Len() - b.Len() overflows int64 *)
Definition in_range (lens : list Z) : Prop :=
  forall a b, In a lens -> In b lens -> (- mtwo63 <= a - b < mtwo63)%Z.

Lemma nonneg_in_range lens :
  (forall l, In l lens -> (0 <= l < mtwo63)%Z) -> in_range lens.
Proof. intros H a b Ha Hb. pose proof (H a Ha). pose proof (H b Hb). lia. Qed.

Lemma skipn_cons_nth {A} (L : list A) : forall i l r d,
  skipn i L = l :: r -> nth i L d = l /\ skipn (S i) L = r /\ i < length L.
Proof.
  induction L as [|x L IH]; intros [|i] l r d H; cbn in *; try discriminate.
  - inversion H; subst. split; [reflexivity|]. split; [reflexivity|lia].
  - destruct (IH i l r d H) as (H1 & H2 & H3). split; [exact H1|]. split; [|lia].
    destruct L; [destruct i; discriminate|]. exact H2.
Qed.

Lemma skipn_nil_length {A} (L : list A) i : skipn i L = [] -> length L <= i.
Proof. intros H. pose proof (skipn_length i L) as E. rewrite H in E. cbn in E. lia. Qed.

Lemma max_from_spec L :
  in_range L ->
  forall ls i best bl,
    skipn i L = ls -> best < i -> best < length L -> nth best L 0%Z = bl ->
    (forall q, q < i -> (nth q L 0 <= bl)%Z) ->
    (forall q, q < best -> (nth q L 0 < bl)%Z) ->
    let '(p, l) := max_from best bl i ls in
    p < length L /\ nth p L 0%Z = l /\
    (forall q, q < length L -> (nth q L 0 <= l)%Z) /\
    (forall q, q < p -> (nth q L 0 < l)%Z).
Proof.
  intros Hr. induction ls as [|l r IH]; intros i best bl Hsk Hbi Hbl Hnb Hmax Hfirst.
  - cbn. apply skipn_nil_length in Hsk.
    split; [exact Hbl|]. split; [exact Hnb|]. split; [|exact Hfirst].
    intros q Hq. apply Hmax. lia.
  - destruct (skipn_cons_nth L i l r 0%Z Hsk) as (Hni & Hsk' & Hil).
    cbn [max_from].
    assert (Hw : wrap_int (l - bl) = (l - bl)%Z).
    { apply wrap_int_id. apply Hr.
      - rewrite <- Hni. apply nth_In. exact Hil.
      - rewrite <- Hnb. apply nth_In. exact Hbl. }
    rewrite Hw. destruct (Z.ltb_spec 0 (l - bl)) as [Hgt|Hle].
    + apply (IH (S i) i l Hsk'); [lia|exact Hil|exact Hni| |].
      * intros q Hq. destruct (Nat.eq_dec q i) as [->|Hne]; [lia|].
        assert (Hq' : q < i) by lia. specialize (Hmax q Hq'). lia.
      * intros q Hq. specialize (Hmax q Hq). lia.
    + apply (IH (S i) best bl Hsk'); [lia|exact Hbl|exact Hnb| |exact Hfirst].
      intros q Hq. destruct (Nat.eq_dec q i) as [->|Hne]; [lia|].
      apply Hmax. lia.
Qed.

(* max_spec: what GetMaxLenItem does, for all lengths whose differences fit in int64
   (in particular all non-negative int64 lengths):
   - ErrNoItems iff nothing is registered;
   - otherwise let p be the FIRST position holding the maximal length;
     the maximal length is 0  -> ErrAllEmpty
     otherwise                -> Picked p (also when the maximum is negative!). *)
Theorem max_spec m lens :
  mcount m = length lens -> in_range lens ->
  match get_max m lens with
  | ErrNoItems => lens = []
  | ErrAllEmpty =>
      lens <> [] /\ In 0%Z lens /\ (forall q, q < length lens -> (nth q lens 0 <= 0)%Z)
  | Picked p =>
      p < length lens /\ nth p lens 0%Z <> 0%Z /\
      (forall q, q < length lens -> (nth q lens 0 <= nth p lens 0)%Z) /\
      (forall q, q < p -> (nth q lens 0 < nth p lens 0)%Z)
  end.
Proof.
  intros Hn Hr. unfold get_max. destruct lens as [|l0 r].
  - cbn in Hn. rewrite Hn. reflexivity.
  - cbn [length] in Hn. rewrite Hn.
    pose proof (max_from_spec (l0 :: r) Hr r 1 0 l0 eq_refl) as H.
    specialize (H ltac:(lia) ltac:(cbn; lia) eq_refl).
    assert (H1 : forall q, q < 1 -> (nth q (l0 :: r) 0 <= l0)%Z)
      by (intros q Hq; assert (q = 0) as -> by lia; cbn; lia).
    assert (H2 : forall q, q < 0 -> (nth q (l0 :: r) 0 < l0)%Z) by (intros; lia).
    specialize (H H1 H2). clear H1 H2.
    destruct (max_from 0 l0 1 r) as [p l].
    destruct H as (Hp & Hnp & Hmax & Hfirst).
    destruct (Z.eqb_spec l 0) as [E|E].
    + split; [discriminate|]. split.
      * rewrite <- E, <- Hnp. apply nth_In. exact Hp.
      * intros q Hq. specialize (Hmax q Hq). lia.
    + rewrite Hnp. split; [exact Hp|]. split; [exact E|]. split; assumption.
Qed.

(* for honest lengths (0 <= Len() < 2^63) this is the statement of the property: a pick is a
   first maximal, non-empty queue; ErrAllEmpty means every queue is empty *)
Corollary max_spec_nonneg m lens :
  mcount m = length lens -> (forall l, In l lens -> (0 <= l < mtwo63)%Z) ->
  match get_max m lens with
  | ErrNoItems => lens = []
  | ErrAllEmpty => lens <> [] /\ (forall q, q < length lens -> nth q lens 0%Z = 0%Z)
  | Picked p =>
      p < length lens /\ (0 < nth p lens 0)%Z /\
      (forall q, q < length lens -> (nth q lens 0 <= nth p lens 0)%Z) /\
      (forall q, q < p -> (nth q lens 0 < nth p lens 0)%Z)
  end.
Proof.
  intros Hn Hnn. pose proof (max_spec m lens Hn (nonneg_in_range lens Hnn)) as H.
  destruct (get_max m lens) as [p| |].
  - destruct H as (Hp & Hnz & Hmax & Hfirst).
    split; [exact Hp|]. split; [|split; assumption].
    pose proof (Hnn _ (nth_In lens 0%Z Hp)). lia.
  - exact H.
  - destruct H as (Hne & _ & Hall). split; [exact Hne|].
    intros q Hq. pose proof (Hnn _ (nth_In lens 0%Z Hq)). specialize (Hall q Hq). lia.
Qed.

(* Without 0 <= Len(): "ErrAllEmpty iff no queue is non-empty" fails in both directions of the
   sign test (the code compares the maximum with == 0). *)
Example max_negative_picked : get_max (mkMgr 2 0) [-1; -1]%Z = Picked 0 /\ in_range [-1; -1]%Z.
Proof.
  split; [vm_compute; reflexivity|].
  intros a b [<-|[<-|[]]] [<-|[<-|[]]]; unfold mtwo63; lia.
Qed.

(* Without in_range the wrapped comparator is not an order: MaxInt64 loses against -1. *)
Example max_overflow_witness :
  get_max (mkMgr 2 0) [-1; 9223372036854775807]%Z = Picked 0.
Proof. vm_compute. reflexivity. Qed.

(* ------------------------------------------------------------------------------------------ *)
(* GetMinLenItem                                                                                *)
(* ------------------------------------------------------------------------------------------ *)

Definition min_inv (L : list Z) (bound : nat) (ml : Z) (pos : nat) : Prop :=
  (ml = (-1)%Z /\ forall q, q < bound -> (nth q L 0 <= 0)%Z) \/
  ((0 < ml)%Z /\ pos < length L /\ nth pos L 0%Z = ml /\
   (forall q, q < bound -> (0 < nth q L 0)%Z -> (ml <= nth q L 0)%Z) /\
   (forall q, q < pos -> (0 < nth q L 0)%Z -> (ml < nth q L 0)%Z)).

Lemma min_from_spec L :
  forall ls i ml pos,
    skipn i L = ls -> (pos < i \/ ml = (-1)%Z) -> min_inv L i ml pos ->
    let '(ml', p) := min_from ml pos i ls in min_inv L (length L) ml' p.
Proof.
  induction ls as [|l r IH]; intros i ml pos Hsk Hpi Hinv.
  - cbn. apply skipn_nil_length in Hsk.
    destruct Hinv as [(E & Hall)|(Hpos & Hp & Hnp & Hmin & Hfirst)].
    + left. split; [exact E|]. intros q Hq. apply Hall. lia.
    + right. split; [exact Hpos|]. split; [exact Hp|]. split; [exact Hnp|]. split; [|exact Hfirst].
      intros q Hq. apply Hmin. lia.
  - destruct (skipn_cons_nth L i l r 0%Z Hsk) as (Hni & Hsk' & Hil).
    cbn [min_from].
    destruct (Z.ltb_spec 0 l) as [Hl|Hl]; cbn [andb].
    + destruct (Z.eqb_spec ml (-1)) as [E|E]; cbn [orb].
      * (* first non-empty item *)
        apply (IH (S i) l i Hsk'); [left; lia|]. right.
        destruct Hinv as [(_ & Hall)|(Hpos & _)]; [|lia].
        split; [exact Hl|]. split; [exact Hil|]. split; [exact Hni|]. split.
        -- intros q Hq Hqp. destruct (Nat.eq_dec q i) as [->|Hne]; [lia|].
           assert (Hq' : q < i) by lia. specialize (Hall q Hq'). lia.
        -- intros q Hq Hqp. specialize (Hall q Hq). lia.
      * destruct Hinv as [(E' & _)|(Hpos & Hp & Hnp & Hmin & Hfirst)]; [contradiction|].
        destruct Hpi as [Hpi|Hpi]; [|contradiction].
        destruct (Z.ltb_spec l ml) as [Hlt|Hge].
        -- (* strictly smaller: new minimum *)
           apply (IH (S i) l i Hsk'); [left; lia|]. right.
           split; [exact Hl|]. split; [exact Hil|]. split; [exact Hni|]. split.
           ++ intros q Hq Hqp. destruct (Nat.eq_dec q i) as [->|Hne]; [lia|].
              assert (Hq' : q < i) by lia. specialize (Hmin q Hq' Hqp). lia.
           ++ intros q Hq Hqp. specialize (Hmin q Hq Hqp). lia.
        -- apply (IH (S i) ml pos Hsk'); [left; lia|]. right.
           split; [exact Hpos|]. split; [exact Hp|]. split; [exact Hnp|]. split; [|exact Hfirst].
           intros q Hq Hqp. destruct (Nat.eq_dec q i) as [->|Hne]; [lia|].
           apply Hmin; [lia|exact Hqp].
    + (* empty (or negative) item: skipped *)
      apply (IH (S i) ml pos Hsk'); [destruct Hpi; [left; lia|right; assumption]|].
      destruct Hinv as [(E & Hall)|(Hpos & Hp & Hnp & Hmin & Hfirst)].
      * left. split; [exact E|]. intros q Hq.
        destruct (Nat.eq_dec q i) as [->|Hne]; [lia|]. apply Hall. lia.
      * right. split; [exact Hpos|]. split; [exact Hp|]. split; [exact Hnp|]. split; [|exact Hfirst].
        intros q Hq Hqp. destruct (Nat.eq_dec q i) as [->|Hne]; [lia|].
        apply Hmin; [lia|exact Hqp].
Qed.

(* min_spec: what GetMinLenItem does, for all lengths (no range condition):
   - ErrNoItems iff nothing is registered;
   - ErrAllEmpty iff no length is > 0 (negative lengths count as empty);
   - otherwise the FIRST position holding the smallest strictly positive length. *)
Theorem min_spec m lens :
  mcount m = length lens ->
  match get_min m lens with
  | ErrNoItems => lens = []
  | ErrAllEmpty => lens <> [] /\ (forall q, q < length lens -> (nth q lens 0 <= 0)%Z)
  | Picked p =>
      p < length lens /\ (0 < nth p lens 0)%Z /\
      (forall q, q < length lens -> (0 < nth q lens 0)%Z -> (nth p lens 0 <= nth q lens 0)%Z) /\
      (forall q, q < p -> (0 < nth q lens 0)%Z -> (nth p lens 0 < nth q lens 0)%Z)
  end.
Proof.
  intros Hn. unfold get_min. destruct (mcount m) as [|k] eqn:Ec.
  - destruct lens; [reflexivity|discriminate].
  - assert (Hne : lens <> []) by (intro X; subst lens; discriminate).
    pose proof (min_from_spec lens lens 0 (-1)%Z 0 eq_refl (or_intror eq_refl)) as H.
    assert (H0 : min_inv lens 0 (-1) 0) by (left; split; [reflexivity|intros; lia]).
    specialize (H H0). clear H0.
    destruct (min_from (-1) 0 0 lens) as [ml p].
    destruct H as [(E & Hall)|(Hpos & Hp & Hnp & Hmin & Hfirst)].
    + subst ml. cbn. split; assumption.
    + destruct (Z.eqb_spec ml (-1)) as [E|_]; [lia|].
      rewrite Hnp. split; [exact Hp|]. split; [exact Hpos|]. split; assumption.
Qed.

(* ------------------------------------------------------------------------------------------ *)
(* non-vacuity: the hypotheses above are satisfiable, the functions compute                     *)
(* ------------------------------------------------------------------------------------------ *)

Example rr_example :
  (* 4 items, cursor at 2, items 1 and 3 non-empty: 3 is picked, cursor wraps to 0 *)
  get_rr (mkMgr 4 2) [0; 5; 0; 7]%Z = (Picked 3, mkMgr 4 0) /\
  get_rr (mkMgr 4 0) [0; 5; 0; 7]%Z = (Picked 1, mkMgr 4 2) /\
  get_rr (mkMgr 4 2) [0; 0; -3; 0]%Z = (ErrAllEmpty, mkMgr 4 2) /\
  get_rr new_mgr [] = (ErrNoItems, new_mgr) /\
  mgr_ok (mkMgr 4 2).
Proof. vm_compute. repeat split. left. lia. Qed.

Example fair_example :
  (* 3 items; item 1 flickers, items 0 and 2 stay non-empty *)
  let snaps := [[1; 0; 1]; [2; 1; 1]; [1; 1; 3]; [1; 0; 1]; [4; 0; 1]; [1; 1; 1]; [1; 1; 1]]%Z in
  let ss := fst (rr_run (mkMgr 3 1) snaps) in
  ss = [Picked 2; Picked 0; Picked 1; Picked 2; Picked 0; Picked 1; Picked 2] /\
  picks 0 ss = 2 /\ picks 2 ss = 3 /\
  Forall (fun l => (0 < nth 0 l 0)%Z /\ (0 < nth 2 l 0)%Z) snaps.
Proof. vm_compute. repeat split; repeat constructor. Qed.

Example max_min_example :
  get_max (mkMgr 5 0) [3; 7; 0; 7; 1]%Z = Picked 1 /\
  get_min (mkMgr 5 0) [3; 7; 0; 1; 1]%Z = Picked 3 /\
  get_max (mkMgr 2 0) [0; 0]%Z = ErrAllEmpty /\
  get_min (mkMgr 2 0) [0; -4]%Z = ErrAllEmpty /\
  get_max new_mgr [] = ErrNoItems /\ get_min new_mgr [] = ErrNoItems /\
  mlen [3; 7; 0; 7; 1]%Z = 18%Z /\
  in_range [3; 7; 0; 7; 1]%Z.
Proof.
  repeat (split; [vm_compute; reflexivity|]).
  apply nonneg_in_range. intros l Hl. unfold mtwo63.
  repeat (destruct Hl as [<-|Hl]; [lia|]). destruct Hl.
Qed.
