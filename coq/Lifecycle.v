(* Lifecycle.v — the status logic of the worker's lifecycle calls (worker.go: start, Pause,
   PauseAndWait, Resume, Stop, WaitAndStop, Restart, TunePool, the context listener), for calls
   issued one after the other with the worker at rest in between. Definitions only.
   Tie to the code: family lifeseq records (call, returned error, Status()) for generated call
   sequences on the instrumented library; ocaml/v_slices.ml replays them on [lstep]. *)
From Coq Require Import List Arith Bool.
Import ListNotations.

Inductive wstatus := Initiated | Running | Paused | Stopped.

Inductive lcall :=
| CBind | CPause | CPauseAndWait | CResume | CStop | CWaitAndStop | CRestart
| CTunePool (n : nat) (nonpos : bool)   (* TunePool(n); nonpos: the argument was < 1 (means NumCPU) *)
| CCtxCancel.

Inductive lres := RNil | RErrRunning | RErrNotRunning | RErrSame.

Record lstate := mkL {
  wst : wstatus;
  lconc : nat;        (* current concurrency *)
  ncpu : nat;         (* runtime.NumCPU(), >= 1 *)
  hasCtx : bool;      (* configured WithContext *)
  ctxDead : bool      (* the user's context has been cancelled *)
}.

Definition set_st (s : lstate) (w : wstatus) : lstate := mkL w (lconc s) (ncpu s) (hasCtx s) (ctxDead s).

(* worker.start(): proceeds only from Initiated *)
Definition do_start (s : lstate) : lstate * lres :=
  match wst s with
  | Initiated => (set_st s Running, RNil)
  | _ => (s, RErrRunning)
  end.

(* worker.Pause() *)
Definition do_pause (s : lstate) : lstate * lres :=
  match wst s with
  | Running => (set_st s Paused, RNil)
  | Paused | Stopped => (s, RNil)
  | Initiated => (s, RErrNotRunning)
  end.

(* worker.Stop() *)
Definition do_stop (s : lstate) : lstate * lres :=
  match wst s with
  | Stopped => (s, RNil)
  | Running | Paused => (set_st s Stopped, RNil)
  | Initiated => (s, RErrNotRunning)
  end.

Definition code_step (s : lstate) (c : lcall) : lstate * lres :=
  match c with
  | CBind => (fst (do_start s), RNil)            (* the binder ignores start()'s error *)
  | CPause | CPauseAndWait => do_pause s
  | CResume =>
      match wst s with
      | Stopped => (s, RErrNotRunning)
      | Initiated => do_start s
      | Running => (s, RErrRunning)
      | Paused => (set_st s Running, RNil)
      end
  | CStop | CWaitAndStop => do_stop s
  | CRestart =>
      (* every branch ends with status := initiated; start() *)
      do_start (set_st s Initiated)
  | CTunePool n nonpos =>
      match wst s with
      | Running =>
          let safe := if nonpos then ncpu s else n in
          if Nat.eqb (lconc s) safe then (s, RErrSame)
          else (mkL (wst s) safe (ncpu s) (hasCtx s) (ctxDead s), RNil)
      | _ => (s, RErrNotRunning)
      end
  | CCtxCancel => (mkL (wst s) (lconc s) (ncpu s) (hasCtx s) (hasCtx s || ctxDead s), RNil)
  end.

(* what the context listener does once the system comes to rest: a started worker whose
   (current) context is cancelled gets stopped. Restart derives the new context from the
   user's, so it is cancelled too. *)
Definition settle (s : lstate) : lstate :=
  if ctxDead s
  then match wst s with Running | Paused => set_st s Stopped | _ => s end
  else s.

Definition lstep (s : lstate) (c : lcall) : lstate * lres :=
  let '(s', r) := code_step s c in (settle s', r).

Definition linit (conc0 ncpu0 : nat) (ctx : bool) : lstate := mkL Initiated conc0 ncpu0 ctx false.

(* ---- the documented machine (README / doc comments): Initiated; Running <-> Paused; Stopped;
   Restart back to Running; Bind starts a fresh worker and otherwise changes nothing;
   a cancelled context stops the worker ---- *)
Definition spec_status (w : wstatus) (c : lcall) : wstatus :=
  match c, w with
  | CBind, Initiated => Running
  | CBind, _ => w
  | (CPause | CPauseAndWait), Running => Paused
  | (CPause | CPauseAndWait), _ => w
  | CResume, (Paused | Initiated) => Running
  | CResume, _ => w
  | (CStop | CWaitAndStop), (Running | Paused) => Stopped
  | (CStop | CWaitAndStop), _ => w
  | CRestart, _ => Running
  | CTunePool _ _, _ => w
  | CCtxCancel, _ => w
  end.

Definition spec_result (s : lstate) (c : lcall) : lres :=
  match c, wst s with
  | CBind, _ => RNil
  | (CPause | CPauseAndWait), Initiated => RErrNotRunning
  | (CPause | CPauseAndWait), _ => RNil
  | CResume, Stopped => RErrNotRunning
  | CResume, Running => RErrRunning
  | CResume, _ => RNil
  | (CStop | CWaitAndStop), Initiated => RErrNotRunning
  | (CStop | CWaitAndStop), _ => RNil
  | CRestart, _ => RNil
  | CTunePool n nonpos, Running => if Nat.eqb (lconc s) (if nonpos then ncpu s else n) then RErrSame else RNil
  | CTunePool _ _, _ => RErrNotRunning
  | CCtxCancel, _ => RNil
  end.

Fixpoint lrun (s : lstate) (cs : list lcall) : lstate * list lres :=
  match cs with
  | [] => (s, [])
  | c :: r => let '(s1, x) := lstep s c in let '(s2, xs) := lrun s1 r in (s2, x :: xs)
  end.
