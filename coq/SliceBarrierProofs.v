(* SliceBarrierProofs.v — once the waiters' condition has turned false and nobody has broadcast
   since, somebody is on the hook: a thread holds a new obligation, or the buffered signal
   carries one to the event loop. Hence at rest (no obligations, no signal) no waiter has been
   left asleep across a step that ended its wait. For every event list. *)
From Coq Require Import List Arith Bool Lia.
From VQ Require Import SliceBarrier.
Import ListNotations.

Lemma has_new_cons o l : has_new (o :: l) = onew o || has_new l.
Proof. reflexivity. Qed.

Lemma has_new_renew t l : holds_obl t l = true -> has_new (renew t l) = true.
Proof.
  unfold holds_obl, has_new, renew. induction l as [|o l IH]; cbn; intros H; [discriminate|].
  destruct (Nat.eqb (otid o) t) eqn:E; cbn; [reflexivity|].
  cbn in H. apply orb_true_iff. right. apply IH. exact H.
Qed.

Lemma has_new_renew_mono t l : has_new l = true -> has_new (renew t l) = true.
Proof.
  unfold has_new, renew. induction l as [|o l IH]; cbn; intros H; [discriminate|].
  destruct (Nat.eqb (otid o) t); cbn; [reflexivity|].
  apply orb_true_iff. apply orb_prop in H as [H|H]; [left; exact H | right; apply IH; exact H].
Qed.

Lemma has_new_drop_old t l : is_old t l = true -> has_new (drop t l) = has_new l.
Proof.
  unfold is_old, has_new, drop. induction l as [|o l IH]; cbn; intros H; [reflexivity|].
  apply andb_prop in H as [H1 H2]. destruct (Nat.eqb (otid o) t) eqn:E; cbn in *.
  - rewrite (IH H2). apply negb_true_iff in H1. now rewrite H1.
  - now rewrite (IH H2).
Qed.

Lemma has_new_drop_or t l : has_new l = true -> has_new (drop t l) = true \/ is_old t l = false.
Proof.
  intros H. destruct (is_old t l) eqn:E; [left; now rewrite has_new_drop_old | right; reflexivity].
Qed.

Lemma has_new_all_old l : has_new (all_old l) = false.
Proof. unfold has_new, all_old. induction l as [|o l IH]; cbn; auto. Qed.

Lemma no_new_drop t l : has_new l = false -> has_new (drop t l) = false.
Proof.
  unfold has_new, drop. induction l as [|o l IH]; cbn; intros H; [reflexivity|].
  apply orb_false_iff in H as [H1 H2]. destruct (Nat.eqb (otid o) t); cbn; [auto|]. rewrite H1. cbn. auto.
Qed.

Lemma no_new_is_old t l : has_new l = false -> is_old t l = true.
Proof.
  unfold has_new, is_old. induction l as [|o l IH]; cbn; intros H; [reflexivity|].
  apply orb_false_iff in H as [H1 H2]. rewrite H1. cbn. rewrite orb_true_r. cbn. auto.
Qed.

Lemma can_drop_keeps l stale sig signew t :
  can_drop l stale sig signew t = true -> stale = true ->
  (has_new l = true \/ (sig = true /\ signew = true)) ->
  has_new (drop t l) = true \/ (sig = true /\ signew = true).
Proof.
  unfold can_drop. intros C St [N|N]; [|right; exact N]. subst stale. cbn in C. rewrite orb_false_r in C.
  apply orb_prop in C as [C|C]; [|right; apply andb_prop in C; exact C].
  apply orb_prop in C as [C|C]; [|left; exact C].
  left. now rewrite has_new_drop_old.
Qed.

Record BInv (s : wbstate) : Prop := mkBInv {
  b_stale : bstale s = true -> has_new (bobs s) = true \/ (bsig s = true /\ bsignew s = true);
  b_sig : bsig s = true -> bopen s = true;
  b_true : wcond s = true -> bstale s = false /\ has_new (bobs s) = false /\ bsignew s = false
}.

Lemma wbinit_inv c : BInv (wbinit c).
Proof. constructor; cbn; intros; try discriminate; auto. Qed.

Lemma holds_cons_self t b l : holds_obl t (mkO t b :: l) = true.
Proof. unfold holds_obl. cbn. now rewrite Nat.eqb_refl. Qed.

Lemma after_input_inv s t st' cur' len' k s' :
  BInv s -> after_input s t st' cur' len' k = Some s' -> BInv s'.
Proof.
  intros [I1 I2 I3] H. unfold after_input in H.
  set (c0 := wcond s) in *. set (c1 := wcond_of st' cur' len') in *.
  set (takes := match k with ONone => false | _ => true end) in *.
  destruct (holds_obl t (bobs s)) eqn:Had.
  - (* t already holds an obligation *)
    rewrite !andb_false_r in H. cbn in H.
    destruct c1 eqn:C1.
    + inversion H; subst; clear H. constructor; cbn; intros; try discriminate; auto.
      repeat split; auto. apply has_new_all_old.
    + inversion H; subst; clear H. constructor; cbn.
      * intros St. destruct c0 eqn:C0; cbn in *.
        -- left. now apply has_new_renew.
        -- rewrite orb_false_r in St. exact (I1 St).
      * exact I2.
      * unfold wcond; cbn. fold c1. rewrite C1. discriminate.
  - rewrite !andb_true_r in H.
    destruct (c0 && negb c1 && negb takes) eqn:G; [discriminate|].
    destruct c1 eqn:C1.
    + inversion H; subst; clear H. constructor; cbn; intros; try discriminate; auto.
      repeat split; auto. apply has_new_all_old.
    + inversion H; subst; clear H. constructor; cbn.
      * intros St. destruct c0 eqn:C0; cbn in *.
        -- apply negb_false_iff in G. rewrite G.
           left. apply has_new_renew. apply holds_cons_self.
        -- rewrite orb_false_r in St. destruct (I1 St) as [N|N]; [left | right; exact N].
           destruct takes; [reflexivity|exact N].
      * exact I2.
      * unfold wcond; cbn. fold c1. rewrite C1. discriminate.
Qed.

Lemma wbstep_inv s e s' : BInv s -> wbstep s e = Some s' -> BInv s'.
Proof.
  intros I H. destruct e; cbn in H.
  - eapply after_input_inv; eauto.
  - destruct I as [I1 I2 I3].
    destruct (can_drop (bobs s) (bstale s) (bsig s) (bsignew s) t) eqn:G; [|discriminate].
    inversion H; subst; clear H.
    constructor; cbn; auto.
    + intros St. exact (can_drop_keeps _ _ _ _ _ G St (I1 St)).
    + intros W. destruct (I3 W) as (A & B & C). repeat split; auto. now apply no_new_drop.
  - destruct I as [I1 I2 I3]. inversion H; subst; clear H.
    constructor; cbn; auto; try discriminate.
    intros W. destruct (I3 W) as (A & B & C). repeat split; auto.
    now apply no_new_drop.
  - destruct I as [I1 I2 I3].
    destruct (holds_obl t (bobs s)) eqn:Ho.
    + destruct (bopen s) eqn:Op.
      * inversion H; subst; clear H. constructor; cbn; auto.
        -- intros St. destruct (I1 St) as [N|[N1 N2]].
           ++ destruct (has_new_drop_or t _ N) as [D|D]; [left; exact D|].
              right. split; [reflexivity|]. rewrite D. apply orb_true_r.
           ++ right. split; [reflexivity|]. now rewrite N2.
        -- intros W. destruct (I3 W) as (A & B & C). repeat split; auto.
           ++ now apply no_new_drop.
           ++ rewrite C. cbn. now rewrite (no_new_is_old t _ B).
      * destruct (can_drop (bobs s) (bstale s) (bsig s) (bsignew s) t) eqn:Ol.
        -- inversion H; subst; clear H.
           constructor; cbn; auto.
           ++ intros St. exact (can_drop_keeps _ _ _ _ _ Ol St (I1 St)).
           ++ intros W. destruct (I3 W) as (A & B & C). repeat split; auto. now apply no_new_drop.
        -- inversion H; subst; clear H. constructor; auto. intros Sg. exfalso. specialize (I2 Sg). discriminate.
    + inversion H; subst; clear H. constructor; cbn; auto.
      * intros St. destruct (I1 St) as [N|[N1 N2]]; [left; exact N|]. right. rewrite N1. auto.
      * intros S1. apply orb_prop in S1 as [S1|S1]; auto.
  - destruct I as [I1 I2 I3].
    destruct (bsig s && bopen s && negb (holds_obl t (bobs s))) eqn:G; [|discriminate].
    inversion H; subst; clear H. unfold has_new in *. constructor; cbn; auto; try discriminate.
    + intros St. destruct (I1 St) as [N|[N1 N2]]; left; [rewrite N; apply orb_true_r | now rewrite N2].
    + intros W. destruct (I3 W) as (A & B & C). repeat split; auto. now rewrite C, B.
  - destruct I as [I1 I2 I3]. unfold has_new in *. destruct k.
    + destruct (bsignew s && bstale s && negb (existsb onew (bobs s))) eqn:Sn; [discriminate|]. inversion H; subst; clear H.
      constructor; cbn; auto; try discriminate.
      all: try (intros St; rewrite St in Sn; rewrite andb_true_r in Sn; destruct (I1 St) as [N|[N1 N2]]; [left; exact N |];
                rewrite N2 in Sn; cbn in Sn; apply negb_false_iff in Sn; left; exact Sn).
      all: try (intros W; destruct (I3 W) as (A & B & C); auto).
    + inversion H; subst; clear H. constructor; cbn; auto; try discriminate.
      * intros St. destruct (holds_obl t (bobs s)) eqn:Ho.
        -- destruct (bsignew s) eqn:Sn; [left; now apply has_new_renew|].
           destruct (I1 St) as [N|[N1 N2]]; [left; exact N | discriminate].
        -- left. cbn. destruct (I1 St) as [N|[N1 N2]]; [rewrite N; apply orb_true_r | rewrite N2; reflexivity].
      * intros W. destruct (I3 W) as (A & B & C). repeat split; auto.
        rewrite C. destruct (holds_obl t (bobs s)); [exact B|]. cbn. unfold wcond in *. cbn in W. rewrite W. cbn. exact B.
    + inversion H; subst; clear H. constructor; cbn; auto; try discriminate.
      * intros St. destruct (holds_obl t (bobs s)) eqn:Ho.
        -- destruct (bsignew s) eqn:Sn; [left; now apply has_new_renew|].
           destruct (I1 St) as [N|[N1 N2]]; [left; exact N | discriminate].
        -- left. cbn. destruct (I1 St) as [N|[N1 N2]]; [rewrite N; apply orb_true_r | rewrite N2; reflexivity].
      * intros W. destruct (I3 W) as (A & B & C). repeat split; auto.
        rewrite C. destruct (holds_obl t (bobs s)); [exact B|]. cbn. unfold wcond in *. cbn in W. rewrite W. cbn. exact B.
    + inversion H; subst; clear H. constructor; cbn; auto; try discriminate.
      * intros St. destruct (holds_obl t (bobs s)) eqn:Ho.
        -- destruct (bsignew s) eqn:Sn; [left; now apply has_new_renew|].
           destruct (I1 St) as [N|[N1 N2]]; [left; exact N | discriminate].
        -- left. cbn. destruct (I1 St) as [N|[N1 N2]]; [rewrite N; apply orb_true_r | rewrite N2; reflexivity].
      * intros W. destruct (I3 W) as (A & B & C). repeat split; auto.
        rewrite C. destruct (holds_obl t (bobs s)); [exact B|]. cbn. unfold wcond in *. cbn in W. rewrite W. cbn. exact B.
  - destruct I as [I1 I2 I3]. destruct (bopen s) eqn:Op; [discriminate|]. inversion H; subst; clear H.
    constructor; cbn; auto.
    + intros St. destruct (I1 St) as [N|[N1 N2]]; [left; exact N|]. specialize (I2 N1). discriminate.
    + intros W. destruct (I3 W) as (A & B & C). auto.
Qed.

Lemma wbrun_inv es : forall s s', BInv s -> wbrun s es = Some s' -> BInv s'.
Proof.
  induction es as [|e es IH]; cbn; intros s s' I H; [now inversion H; subst|].
  destruct (wbstep s e) as [s1|] eqn:E; [|discriminate]. eapply IH; [|exact H]. eapply wbstep_inv; eauto.
Qed.

Definition BReachable (s : wbstate) : Prop := exists c es, wbrun (wbinit c) es = Some s.

Lemma breachable_inv s : BReachable s -> BInv s.
Proof. intros (c & es & H). eapply wbrun_inv; [apply wbinit_inv | exact H]. Qed.

(* somebody is on the hook *)
Theorem stale_has_owner s :
  BReachable s -> bstale s = true ->
  has_new (bobs s) = true \/ (bsig s = true /\ bsignew s = true).
Proof. intros R St. apply breachable_inv in R. exact (b_stale s R St). Qed.

(* at rest nobody has been left asleep across a step that ended its wait *)
Theorem at_rest_not_stale s : BReachable s -> b_at_rest s = true -> bstale s = false.
Proof.
  intros R A. destruct (bstale s) eqn:St; [|reflexivity].
  destruct (stale_has_owner s R St) as [N|[N1 N2]]; unfold b_at_rest in A; destruct (bobs s); cbn in *; try discriminate.
  rewrite N1 in A. discriminate.
Qed.

(* a step that ends the wait leaves its thread holding an obligation *)
Theorem falsifying_step_takes_obligation s t st' cur' len' k s' :
  wbstep s (WInput t st' cur' len' k) = Some s' -> wcond s = true -> wcond s' = false ->
  holds_obl t (bobs s') = true /\ bstale s' = true.
Proof.
  intros H W0 W1. cbn in H. unfold after_input in H. rewrite W0 in H.
  assert (C1 : wcond_of st' cur' len' = false).
  { destruct (wcond_of st' cur' len') eqn:E; [|reflexivity]. cbn in H.
    inversion H; subst. unfold wcond in W1; cbn in W1. congruence. }
  rewrite C1 in H. cbn in H.
  destruct (negb match k with ONone => false | _ => true end && negb (holds_obl t (bobs s))) eqn:G; [discriminate|].
  inversion H; subst; clear H. cbn. split; [|apply orb_true_r].
  assert (Hh : holds_obl t (if match k with ONone => false | _ => true end && negb (holds_obl t (bobs s))
                            then mkO t true :: bobs s else bobs s) = true).
  { destruct k, (holds_obl t (bobs s)) eqn:E; cbn in *; try discriminate; auto; now rewrite Nat.eqb_refl. }
  clear -Hh. revert Hh. generalize (if match k with ONone => false | _ => true end && negb (holds_obl t (bobs s))
                            then mkO t true :: bobs s else bobs s).
  intros l. induction l as [|o l IH]; cbn; intros H; [discriminate|].
  destruct (Nat.eqb (otid o) t) eqn:E; cbn; [now rewrite Nat.eqb_refl|]. rewrite E. cbn in *. auto.
Qed.
