(* HBProofs.v — the vector-clock detector of HB.v reports a pair exactly when the recorded
   execution contains a data race (two conflicting plain accesses by different threads not
   ordered by happens-before), for every execution, of any length, with any number of
   threads, sync objects and locations. *)
From Coq Require Import List NArith Bool Arith Relations Lia.
From Coq Require Import Relation_Operators Operators_Properties.
From VQ Require Import HB.
Import ListNotations.
Local Open Scope N_scope.

(* ---------------------------------------------------------------- lists, clocks *)

Lemma nth_nil {A} n (d : A) : nth n [] d = d.
Proof. destruct n; reflexivity. Qed.

Lemma nth_upd {A} (d : A) l n v m : nth m (upd d l n v) d = if Nat.eqb n m then v else nth m l d.
Proof.
  revert l m. induction n as [|n IH]; intros l m.
  - destruct l, m; cbn; try reflexivity. now destruct m.
  - destruct l, m; cbn; rewrite ?IH; try reflexivity. rewrite nth_nil. now destruct (Nat.eqb n m).
Qed.

Lemma nth_cjoin a b n : nth n (cjoin a b) 0 = N.max (nth n a 0) (nth n b 0).
Proof.
  revert b n. induction a as [|x a IH]; intros b n.
  - change (cjoin [] b) with b. rewrite nth_nil. now rewrite N.max_0_l.
  - destruct b as [|y b].
    + change (cjoin (x :: a) []) with (x :: a). rewrite (nth_nil n 0). now rewrite N.max_0_r.
    + destruct n; cbn; [reflexivity|]. apply IH.
Qed.

Lemma cget_cjoin a b t : cget (cjoin a b) t = N.max (cget a t) (cget b t).
Proof. apply nth_cjoin. Qed.

Lemma cget_nil t : cget [] t = 0.
Proof. apply nth_nil. Qed.

Lemma cget_upd c t v u : cget (upd 0 c (N.to_nat t) v) u = if N.eqb t u then v else cget c u.
Proof.
  unfold cget. rewrite nth_upd.
  destruct (Nat.eqb_spec (N.to_nat t) (N.to_nat u)) as [E|E], (N.eqb_spec t u) as [F|F]; try reflexivity.
  - apply N2Nat.inj in E. contradiction.
  - subst. contradiction.
Qed.

Lemma join_all_lt (l : list clock) v i :
  i < cget (join_all l) v <-> exists u, i < cget (nth u l []) v.
Proof.
  induction l as [|c l IH].
  - change (join_all []) with (@nil N). rewrite cget_nil. split; [lia|]. intros [u H]. rewrite nth_nil, cget_nil in H. lia.
  - change (join_all (c :: l)) with (cjoin c (join_all l)). rewrite cget_cjoin. split.
    + intros H. destruct (N.ltb_spec i (cget c v)) as [L|L].
      * exists 0%nat. exact L.
      * assert (H' : i < cget (join_all l) v) by lia. apply IH in H'. destruct H' as [u Hu]. exists (S u). exact Hu.
    + intros [u Hu]. destruct u as [|u].
      * change (nth 0 (c :: l) []) with c in Hu. lia.
      * change (nth (S u) (c :: l) []) with (nth u l []) in Hu.
        assert (H' : i < cget (join_all l) v) by (apply IH; eauto). lia.
Qed.

Lemma join_all_le (l : list clock) v b :
  (forall u, cget (nth u l []) v <= b) -> cget (join_all l) v <= b.
Proof.
  induction l as [|c l IH]; intros H.
  - change (join_all []) with (@nil N). rewrite cget_nil. lia.
  - change (join_all (c :: l)) with (cjoin c (join_all l)). rewrite cget_cjoin.
    pose proof (H 0%nat) as H0. change (nth 0 (c :: l) []) with c in H0.
    assert (cget (join_all l) v <= b) by (apply IH; intros u; apply (H (S u))). lia.
Qed.

(* ---------------------------------------------------------------- happens-before *)

Definition hbeq (tr : list hev) (i k : nat) : Prop := i = k \/ hb tr i k.

Lemma edge_lt tr k j : edge tr k j -> (k < j)%nat.
Proof. intros [H _]; exact H. Qed.

Lemma hb_lt tr i j : hb tr i j -> (i < j)%nat.
Proof. induction 1 as [i j E|i k j _ IH1 _ IH2]; [eapply edge_lt; eauto | lia]. Qed.

Lemma hb_tn1 tr i j : hb tr i j <-> exists k, edge tr k j /\ hbeq tr i k.
Proof.
  unfold hb, hbeq. rewrite clos_trans_tn1_iff. split.
  - intros H. destruct H as [j E | k j E H].
    + exists i. auto.
    + exists k. split; [exact E|]. right. now apply clos_trans_tn1_iff.
  - intros [k [E [->|H]]].
    + now constructor.
    + econstructor 2; [exact E|]. now apply clos_trans_tn1_iff.
Qed.

Lemma hbeq_edge tr i k j : hbeq tr i k -> edge tr k j -> hb tr i j.
Proof. intros H E. apply hb_tn1. eauto. Qed.

Lemma hbeq_le tr i k : hbeq tr i k -> (i <= k)%nat.
Proof. intros [->|H]; [lia|]. apply hb_lt in H. lia. Qed.

(* ---------------------------------------------------------------- the invariant *)

Record HInv (tr : list hev) (m : nat) (s : hstate) : Prop := {
  hi_idx : hidx s = N.of_nat m;
  hi_tc : forall u i ei, nth_error tr i = Some ei -> (i < m)%nat ->
      ((exists k ek, (k < m)%nat /\ nth_error tr k = Some ek /\ hth ek = u /\ hbeq tr i k)
       <-> N.of_nat i < cget (tclock s u) (hth ei));
  hi_sc : forall x i ei, nth_error tr i = Some ei -> (i < m)%nat ->
      ((exists k ek, (k < m)%nat /\ nth_error tr k = Some ek /\ releases ek x /\ hbeq tr i k)
       <-> N.of_nat i < cget (sclock s x) (hth ei));
  hi_tb : forall u v, cget (nth u (htc s) []) v <= N.of_nat m;
  hi_sb : forall x v, cget (nth x (hsc s) []) v <= N.of_nat m;
  hi_acc : forall a, In a (hacc s) <->
      exists i, (i < m)%nat /\ aidx a = N.of_nat i /\ nth_error tr i = Some (mkH (ath a) (HAcc (aloc a) (aw a)));
  hi_free : forall i j, (j < m)%nat -> ~ is_race tr i j
}.

Lemma hinv_init tr : HInv tr 0 hinit.
Proof.
  constructor.
  - reflexivity.
  - intros; lia.
  - intros; lia.
  - intros u v. change (htc hinit) with (@nil clock). rewrite nth_nil, cget_nil. lia.
  - intros x v. change (hsc hinit) with (@nil clock). rewrite nth_nil, cget_nil. lia.
  - intros a. change (hacc hinit) with (@nil hacc_rec). split; [intros []|]. intros [i [H _]]. lia.
  - intros; lia.
Qed.

(* the clock computed for event m characterises what happens before it *)
Lemma ev_clock_spec tr m s e :
  HInv tr m s -> nth_error tr m = Some e ->
  forall i ei, nth_error tr i = Some ei -> (i <= m)%nat ->
    (hbeq tr i m <-> N.of_nat i < cget (ev_clock s e) (hth ei)).
Proof.
  intros I Hm i ei Hi Le. unfold ev_clock. rewrite cget_upd. rewrite (hi_idx _ _ _ I).
  destruct (N.eqb_spec (hth e) (hth ei)) as [E|E].
  - (* same thread *)
    split; [lia|]. intros _. destruct (Nat.eq_dec i m) as [->|Ne]; [now left|]. right.
    apply t_step. split; [lia|]. exists ei, e. auto.
  - assert (Lt : (i < m)%nat).
    { destruct (Nat.eq_dec i m) as [->|Ne]; [|lia]. rewrite Hm in Hi. inversion Hi; subst. contradiction. }
    assert (Hb : hbeq tr i m <-> exists k, edge tr k m /\ hbeq tr i k).
    { unfold hbeq at 1. rewrite hb_tn1. split; [intros [->|H]; [lia|exact H]|auto]. }
    rewrite Hb.
    pose proof (hi_tc _ _ _ I (hth e) i ei Hi Lt) as T.
    (* edges from the same thread *)
    assert (PO : forall k ek, (k < m)%nat -> nth_error tr k = Some ek -> hth ek = hth e -> edge tr k m).
    { intros k ek Hk Hek Eq. split; [exact Hk|]. exists ek, e. auto. }
    destruct (hk e) as [l w|a r|] eqn:K.
    + (* access: program order only *)
      rewrite <- T. split.
      * intros [k [[Hk [ek [ej [Hek [Hej C]]]]] H]]. rewrite Hm in Hej; inversion Hej; subst ej.
        destruct C as [C|[[x [_ C]]|C]].
        -- exists k, ek. auto.
        -- unfold acquires in C. rewrite K in C. contradiction.
        -- congruence.
      * intros [k [ek [Hk [Hek [Eq H]]]]]. exists k. split; [eapply PO; eauto|exact H].
    + destruct a as [x|].
      * (* acquire from x *)
        rewrite cget_cjoin.
        pose proof (hi_sc _ _ _ I x i ei Hi Lt) as Sx.
        split.
        -- intros [k [[Hk [ek [ej [Hek [Hej C]]]]] H]]. rewrite Hm in Hej; inversion Hej; subst ej.
           destruct C as [C|[[y [R C]]|C]].
           ++ assert (N.of_nat i < cget (tclock s (hth e)) (hth ei)) by (apply T; exists k, ek; auto). lia.
           ++ unfold acquires in C. rewrite K in C. subst y.
              assert (N.of_nat i < cget (sclock s x) (hth ei)) by (apply Sx; exists k, ek; auto). lia.
           ++ congruence.
        -- intros H. destruct (N.ltb_spec (N.of_nat i) (cget (tclock s (hth e)) (hth ei))) as [L|L].
           ++ apply T in L. destruct L as [k [ek [Hk [Hek [Eq H']]]]]. exists k. split; [eapply PO; eauto|exact H'].
           ++ assert (L' : N.of_nat i < cget (sclock s x) (hth ei)) by lia.
              apply Sx in L'. destruct L' as [k [ek [Hk [Hek [R H']]]]]. exists k. split; [|exact H'].
              split; [exact Hk|]. exists ek, e. repeat split; auto. right; left. exists x. split; [exact R|].
              unfold acquires. now rewrite K.
      * (* release only: program order *)
        rewrite <- T. split.
        -- intros [k [[Hk [ek [ej [Hek [Hej C]]]]] H]]. rewrite Hm in Hej; inversion Hej; subst ej.
           destruct C as [C|[[x [_ C]]|C]].
           ++ exists k, ek. auto.
           ++ unfold acquires in C. rewrite K in C. contradiction.
           ++ congruence.
        -- intros [k [ek [Hk [Hek [Eq H]]]]]. exists k. split; [eapply PO; eauto|exact H].
    + (* barrier: everything before *)
      rewrite cget_cjoin. split.
      * intros [k [[Hk [ek [ej [Hek [Hej _]]]]] H]].
        assert (L : N.of_nat i < cget (tclock s (hth ek)) (hth ei)).
        { apply (hi_tc _ _ _ I (hth ek) i ei Hi Lt). exists k, ek. auto. }
        assert (L' : N.of_nat i < cget (join_all (htc s)) (hth ei)).
        { apply join_all_lt. exists (N.to_nat (hth ek)). exact L. }
        lia.
      * intros H. destruct (N.ltb_spec (N.of_nat i) (cget (tclock s (hth e)) (hth ei))) as [L|L].
        -- apply T in L. destruct L as [k [ek [Hk [Hek [Eq H']]]]]. exists k. split; [eapply PO; eauto|exact H'].
        -- assert (L' : N.of_nat i < cget (join_all (htc s)) (hth ei)) by lia.
           apply join_all_lt in L'. destruct L' as [u Hu].
           assert (Hu' : N.of_nat i < cget (tclock s (N.of_nat u)) (hth ei)).
           { unfold tclock. now rewrite Nat2N.id. }
           apply (hi_tc _ _ _ I (N.of_nat u) i ei Hi Lt) in Hu'.
           destruct Hu' as [k [ek [Hk [Hek [_ H']]]]]. exists k. split; [|exact H'].
           split; [exact Hk|]. exists ek, e. auto.
Qed.

Lemma ev_clock_bound tr m s e v :
  HInv tr m s -> cget (ev_clock s e) v <= N.of_nat (S m).
Proof.
  intros I. unfold ev_clock. rewrite cget_upd, (hi_idx _ _ _ I).
  destruct (N.eqb (hth e) v); [lia|].
  pose proof (hi_tb _ _ _ I (N.to_nat (hth e)) v) as B0. fold (tclock s (hth e)) in B0.
  destruct (hk e) as [l w|[x|] r|].
  - lia.
  - rewrite cget_cjoin. pose proof (hi_sb _ _ _ I (N.to_nat x) v) as B1. fold (sclock s x) in B1. lia.
  - lia.
  - rewrite cget_cjoin.
    assert (cget (join_all (htc s)) v <= N.of_nat m) by (apply join_all_le; intros u; apply (hi_tb _ _ _ I)).
    lia.
Qed.

Lemma tclock_upd s e c u (s' : hstate) :
  htc s' = upd [] (htc s) (N.to_nat (hth e)) c ->
  tclock s' u = if N.eqb (hth e) u then c else tclock s u.
Proof.
  intros H. unfold tclock. rewrite H, nth_upd.
  destruct (Nat.eqb_spec (N.to_nat (hth e)) (N.to_nat u)) as [E|E], (N.eqb_spec (hth e) u) as [F|F]; try reflexivity.
  - apply N2Nat.inj in E. contradiction.
  - subst. contradiction.
Qed.

(* the thread clocks after event m *)
Lemma step_tc tr m s e s' :
  HInv tr m s -> nth_error tr m = Some e ->
  htc s' = upd [] (htc s) (N.to_nat (hth e)) (ev_clock s e) ->
  forall u i ei, nth_error tr i = Some ei -> (i < S m)%nat ->
    ((exists k ek, (k < S m)%nat /\ nth_error tr k = Some ek /\ hth ek = u /\ hbeq tr i k)
     <-> N.of_nat i < cget (tclock s' u) (hth ei)).
Proof.
  intros I Hm Htc u i ei Hi Lt. rewrite (tclock_upd s e _ u s' Htc).
  pose proof (ev_clock_spec tr m s e I Hm i ei Hi ltac:(lia)) as P.
  destruct (N.eqb_spec (hth e) u) as [E|E].
  - rewrite <- P. split.
    + intros [k [ek [Hk [Hek [Eq H]]]]]. destruct (Nat.eq_dec k m) as [->|Ne]; [exact H|].
      right. eapply hbeq_edge; [exact H|]. split; [lia|]. exists ek, e. repeat split; auto. left. congruence.
    + intros H. exists m, e. repeat split; auto.
  - split.
    + intros [k [ek [Hk [Hek [Eq H]]]]].
      assert (k <> m) by (intros ->; rewrite Hm in Hek; inversion Hek; subst; contradiction).
      assert (i < m)%nat by (apply hbeq_le in H; lia).
      apply (hi_tc _ _ _ I u i ei Hi); [assumption|]. exists k, ek. repeat split; auto. lia.
    + intros H. destruct (Nat.eq_dec i m) as [->|Ne].
      * pose proof (hi_tb _ _ _ I (N.to_nat u) (hth ei)) as B. fold (tclock s u) in B. lia.
      * assert (L : (i < m)%nat) by lia. apply (hi_tc _ _ _ I u i ei Hi L) in H.
        destruct H as [k [ek [Hk R]]]. exists k, ek. split; [lia|exact R].
Qed.

Lemma sclock_same s s' x : hsc s' = hsc s -> sclock s' x = sclock s x.
Proof. intros H. unfold sclock. now rewrite H. Qed.

(* sync clocks when event m releases nothing to x *)
Lemma step_sc_other tr m s e x c' :
  HInv tr m s -> nth_error tr m = Some e -> ~ releases e x ->
  (forall v, cget c' v = cget (sclock s x) v) ->
  forall i ei, nth_error tr i = Some ei -> (i < S m)%nat ->
    ((exists k ek, (k < S m)%nat /\ nth_error tr k = Some ek /\ releases ek x /\ hbeq tr i k)
     <-> N.of_nat i < cget c' (hth ei)).
Proof.
  intros I Hm NR Eq i ei Hi Lt. rewrite Eq. split.
  - intros [k [ek [Hk [Hek [R H]]]]].
    assert (k <> m) by (intros ->; rewrite Hm in Hek; inversion Hek; subst; contradiction).
    assert (i < m)%nat by (apply hbeq_le in H; lia).
    apply (hi_sc _ _ _ I x i ei Hi); [assumption|]. exists k, ek. repeat split; auto. lia.
  - intros H. destruct (Nat.eq_dec i m) as [->|Ne].
    + pose proof (hi_sb _ _ _ I (N.to_nat x) (hth ei)) as B. fold (sclock s x) in B. lia.
    + assert (L : (i < m)%nat) by lia. apply (hi_sc _ _ _ I x i ei Hi L) in H.
      destruct H as [k [ek [Hk R]]]. exists k, ek. split; [lia|exact R].
Qed.

(* sync clock of x when event m releases to x *)
Lemma step_sc_rel tr m s e x :
  HInv tr m s -> nth_error tr m = Some e -> releases e x ->
  forall i ei, nth_error tr i = Some ei -> (i < S m)%nat ->
    ((exists k ek, (k < S m)%nat /\ nth_error tr k = Some ek /\ releases ek x /\ hbeq tr i k)
     <-> N.of_nat i < cget (cjoin (sclock s x) (ev_clock s e)) (hth ei)).
Proof.
  intros I Hm R i ei Hi Lt. rewrite cget_cjoin.
  pose proof (ev_clock_spec tr m s e I Hm i ei Hi ltac:(lia)) as P.
  split.
  - intros [k [ek [Hk [Hek [Rk H]]]]]. destruct (Nat.eq_dec k m) as [->|Ne].
    + apply P in H. lia.
    + assert (L : (i < m)%nat) by (apply hbeq_le in H; lia).
      assert (N.of_nat i < cget (sclock s x) (hth ei)).
      { apply (hi_sc _ _ _ I x i ei Hi L). exists k, ek. repeat split; auto. lia. }
      lia.
  - intros H. destruct (N.ltb_spec (N.of_nat i) (cget (ev_clock s e) (hth ei))) as [L|L].
    + apply P in L. exists m, e. repeat split; auto.
    + assert (L' : N.of_nat i < cget (sclock s x) (hth ei)) by lia.
      destruct (Nat.eq_dec i m) as [->|Ne].
      * pose proof (hi_sb _ _ _ I (N.to_nat x) (hth ei)) as B. fold (sclock s x) in B. lia.
      * assert (Lm : (i < m)%nat) by lia. apply (hi_sc _ _ _ I x i ei Hi Lm) in L'.
        destruct L' as [k [ek [Hk R']]]. exists k, ek. split; [lia|exact R'].
Qed.

Lemma sclock_upd s y c x (l : list clock) :
  l = upd [] (hsc s) (N.to_nat y) c ->
  nth (N.to_nat x) l [] = if N.eqb y x then c else sclock s x.
Proof.
  intros ->. unfold sclock. rewrite nth_upd.
  destruct (Nat.eqb_spec (N.to_nat y) (N.to_nat x)) as [E|E], (N.eqb_spec y x) as [F|F]; try reflexivity.
  - apply N2Nat.inj in E. contradiction.
  - subst. contradiction.
Qed.

Lemma tb_step tr m s e u v :
  HInv tr m s ->
  cget (nth u (upd [] (htc s) (N.to_nat (hth e)) (ev_clock s e)) []) v <= N.of_nat (S m).
Proof.
  intros I. rewrite nth_upd. destruct (Nat.eqb _ u).
  - eapply ev_clock_bound; eauto.
  - pose proof (hi_tb _ _ _ I u v). unfold clock in *. lia.
Qed.

Lemma acc_other tr m s e :
  HInv tr m s -> nth_error tr m = Some e ->
  (forall l w, hk e <> HAcc l w) ->
  forall a, In a (hacc s) <->
    exists i, (i < S m)%nat /\ aidx a = N.of_nat i /\ nth_error tr i = Some (mkH (ath a) (HAcc (aloc a) (aw a))).
Proof.
  intros I Hm NA a. rewrite (hi_acc _ _ _ I a). split.
  - intros [i [L R]]. exists i. split; [lia|exact R].
  - intros [i [L [Ei Hi]]]. destruct (Nat.eq_dec i m) as [->|Ne].
    + rewrite Hm in Hi. inversion Hi as [E]. exfalso. eapply NA. rewrite E. reflexivity.
    + exists i. split; [lia|auto].
Qed.

Lemma free_other tr m s e :
  HInv tr m s -> nth_error tr m = Some e ->
  (forall l w, hk e <> HAcc l w) ->
  forall i j, (j < S m)%nat -> ~ is_race tr i j.
Proof.
  intros I Hm NA i j Lj. destruct (Nat.eq_dec j m) as [->|Ne].
  - intros [_ [ei [ej [_ [Hej [[_ C] _]]]]]]. rewrite Hm in Hej; inversion Hej; subst ej.
    destruct (hk ei); try contradiction. destruct (hk e) eqn:K; try contradiction. eapply NA; eauto.
  - apply (hi_free _ _ _ I). lia.
Qed.

Lemma hstep_inv tr m s e :
  HInv tr m s -> nth_error tr m = Some e ->
  match hstep s e with
  | inl s' => HInv tr (S m) s'
  | inr (i, j) => is_race tr (N.to_nat i) (N.to_nat j)
  end.
Proof.
  intros I Hm. unfold hstep.
  assert (IDX : N.succ (hidx s) = N.of_nat (S m)) by (rewrite (hi_idx _ _ _ I); symmetry; apply Nat2N.inj_succ).
  destruct (hk e) as [l w|a r|] eqn:K.
  - (* access *)
    destruct (find _ (hacc s)) as [a|] eqn:F.
    + apply find_some in F. destruct F as [Ha Rw].
      apply (hi_acc _ _ _ I) in Ha. destruct Ha as [i [Li [Ei Hi]]].
      unfold racy_with in Rw. repeat rewrite andb_true_iff in Rw. destruct Rw as [[[R1 R2] R3] R4].
      apply N.eqb_eq in R1. apply negb_true_iff in R2. apply N.eqb_neq in R2.
      apply negb_true_iff in R4. apply N.ltb_ge in R4.
      rewrite Ei, (hi_idx _ _ _ I), !Nat2N.id.
      split; [exact Li|]. exists (mkH (ath a) (HAcc (aloc a) (aw a))), e. repeat split; auto.
      * cbn. rewrite K. split; [exact R1|]. apply orb_true_iff in R3. destruct R3; auto.
      * intros H.
        assert (P : hbeq tr i m) by (right; exact H).
        apply (ev_clock_spec tr m s e I Hm i _ Hi ltac:(lia)) in P. cbn in P. rewrite Ei in R4. lia.
    + constructor; cbn [hidx htc hsc hacc].
      * exact IDX.
      * apply (step_tc tr m s e); auto.
      * intros x. apply (step_sc_other tr m s e x); auto. unfold releases. now rewrite K.
      * intros u v. eapply tb_step; eauto.
      * intros x v. pose proof (hi_sb _ _ _ I x v). lia.
      * intros a. cbn. rewrite (hi_acc _ _ _ I a). split.
        -- intros [<-|[i [L R]]].
           ++ exists m. cbn. rewrite (hi_idx _ _ _ I). repeat split; [lia|]. rewrite Hm. destruct e as [t k]. cbn in *. now subst.
           ++ exists i. split; [lia|exact R].
        -- intros [i [L [Ei Hi]]]. destruct (Nat.eq_dec i m) as [->|Ne].
           ++ left. rewrite Hm in Hi. inversion Hi as [E]. destruct a as [ai at_ al aw_]. cbn in *.
              rewrite E in K. cbn in K. inversion K; subst. rewrite (hi_idx _ _ _ I). reflexivity.
           ++ right. exists i. split; [lia|auto].
      * intros i j Lj. destruct (Nat.eq_dec j m) as [->|Ne]; [|apply (hi_free _ _ _ I); lia].
        intros [Li [ei [ej [Hi [Hej [[Nt C] NH]]]]]]. rewrite Hm in Hej; inversion Hej; subst ej.
        rewrite K in C. destruct (hk ei) as [l1 w1|? ?|] eqn:Ki; try contradiction. destruct C as [-> Cw].
        pose (a := mkA (N.of_nat i) (hth ei) l w1).
        assert (Ha : In a (hacc s)).
        { apply (hi_acc _ _ _ I). exists i. repeat split; auto. cbn. rewrite Hi. destruct ei as [t k]. cbn in *. now subst. }
        pose proof (find_none _ _ F a Ha) as Rw. unfold racy_with in Rw. cbn in Rw.
        rewrite N.eqb_refl in Rw. cbn in Rw.
        assert (E1 : N.eqb (hth ei) (hth e) = false) by (apply N.eqb_neq; exact Nt). rewrite E1 in Rw. cbn in Rw.
        assert (E2 : w1 || w = true) by (destruct Cw; subst; [reflexivity|apply orb_true_r]). rewrite E2 in Rw. cbn in Rw.
        apply negb_false_iff in Rw. apply N.ltb_lt in Rw.
        apply (ev_clock_spec tr m s e I Hm i ei Hi ltac:(lia)) in Rw.
        destruct Rw as [->|H]; [lia|contradiction].
  - (* sync *)
    destruct r as [y|].
    + constructor; cbn [hidx htc hsc hacc].
      * exact IDX.
      * apply (step_tc tr m s e); auto.
      * intros x i ei Hi Li. unfold sclock at 1. cbn.
        rewrite (sclock_upd s y _ x _ eq_refl).
        destruct (N.eqb_spec y x) as [E|E].
        -- subst y. apply (step_sc_rel tr m s e x); auto. unfold releases. now rewrite K.
        -- apply (step_sc_other tr m s e x); auto. unfold releases. rewrite K. exact E.
      * intros u v. eapply tb_step; eauto.
      * intros x v. rewrite nth_upd. destruct (Nat.eqb _ x).
        -- rewrite cget_cjoin. pose proof (hi_sb _ _ _ I (N.to_nat y) v) as B. fold (sclock s y) in B.
           pose proof (ev_clock_bound tr m s e v I). lia.
        -- pose proof (hi_sb _ _ _ I x v). lia.
      * apply (acc_other tr m s e); auto. intros l w. rewrite K. discriminate.
      * apply (free_other tr m s e); auto. intros l w. rewrite K. discriminate.
    + constructor; cbn [hidx htc hsc hacc].
      * exact IDX.
      * apply (step_tc tr m s e); auto.
      * intros x. apply (step_sc_other tr m s e x); auto. unfold releases. now rewrite K.
      * intros u v. eapply tb_step; eauto.
      * intros x v. pose proof (hi_sb _ _ _ I x v). lia.
      * apply (acc_other tr m s e); auto. intros l w. rewrite K. discriminate.
      * apply (free_other tr m s e); auto. intros l w. rewrite K. discriminate.
  - (* barrier *)
    constructor; cbn [hidx htc hsc hacc].
    + exact IDX.
    + apply (step_tc tr m s e); auto.
    + intros x. apply (step_sc_other tr m s e x); auto. unfold releases. now rewrite K.
    + intros u v. eapply tb_step; eauto.
    + intros x v. pose proof (hi_sb _ _ _ I x v). lia.
    + apply (acc_other tr m s e); auto. intros l w. rewrite K. discriminate.
    + apply (free_other tr m s e); auto. intros l w. rewrite K. discriminate.
Qed.

Lemma hrun_inv tr rest : forall pre s,
  tr = pre ++ rest -> HInv tr (length pre) s ->
  match hrun s rest with
  | inl s' => HInv tr (length tr) s'
  | inr (i, j) => is_race tr (N.to_nat i) (N.to_nat j)
  end.
Proof.
  induction rest as [|e r IH]; intros pre s E I; cbn.
  - rewrite app_nil_r in E. subst pre. exact I.
  - assert (Hm : nth_error tr (length pre) = Some e).
    { rewrite E, nth_error_app2 by lia. now rewrite Nat.sub_diag. }
    pose proof (hstep_inv tr (length pre) s e I Hm) as H.
    destruct (hstep s e) as [s'|[i j]]; [|exact H].
    apply (IH (pre ++ [e])).
    + rewrite <- app_assoc. exact E.
    + rewrite app_length. cbn. rewrite Nat.add_1_r. exact H.
Qed.

Theorem race_check_reports_a_race tr i j :
  race_check tr = Some (i, j) -> is_race tr (N.to_nat i) (N.to_nat j).
Proof.
  unfold race_check. intros H.
  pose proof (hrun_inv tr tr [] hinit eq_refl (hinv_init tr)) as R.
  destruct (hrun hinit tr) as [s'|[i' j']]; [discriminate|]. inversion H; subst. exact R.
Qed.

Theorem race_check_none_iff_race_free tr : race_check tr = None <-> race_free tr.
Proof.
  split.
  - unfold race_check. intros H i j Hr.
    pose proof (hrun_inv tr tr [] hinit eq_refl (hinv_init tr)) as R.
    destruct (hrun hinit tr) as [s'|p]; [|discriminate].
    assert (j < length tr)%nat.
    { destruct Hr as [_ [ei [ej [_ [Hj _]]]]]. apply nth_error_Some. congruence. }
    exact (hi_free _ _ _ R i j H0 Hr).
  - intros F. destruct (race_check tr) as [[i j]|] eqn:E; [|reflexivity].
    exfalso. apply race_check_reports_a_race in E. exact (F _ _ E).
Qed.

(* the pair reported is the first race of the execution: no race ends at an earlier event *)
Lemma hstep_fail_idx s e i j : hstep s e = inr (i, j) -> j = hidx s.
Proof.
  unfold hstep. destruct (hk e) as [l w|a r|].
  - destruct (find _ (hacc s)); intros H; inversion H; reflexivity.
  - destruct r; discriminate.
  - discriminate.
Qed.

Lemma hrun_first tr rest : forall pre s i j,
  tr = pre ++ rest -> HInv tr (length pre) s -> hrun s rest = inr (i, j) ->
  forall i' j', (j' < N.to_nat j)%nat -> ~ is_race tr i' j'.
Proof.
  induction rest as [|e r IH]; intros pre s i j E I H; cbn in H; [discriminate|].
  assert (Hm : nth_error tr (length pre) = Some e).
  { rewrite E, nth_error_app2 by lia. now rewrite Nat.sub_diag. }
  pose proof (hstep_inv tr (length pre) s e I Hm) as S.
  destruct (hstep s e) as [s'|[i0 j0]] eqn:St.
  - apply (IH (pre ++ [e]) s' i j); auto.
    + rewrite <- app_assoc. exact E.
    + rewrite app_length. cbn. rewrite Nat.add_1_r. exact S.
  - inversion H; subst i0 j0. apply hstep_fail_idx in St. subst j.
    rewrite (hi_idx _ _ _ I), Nat2N.id. intros i' j' L. apply (hi_free _ _ _ I). exact L.
Qed.

Theorem race_check_reports_the_first_race tr i j :
  race_check tr = Some (i, j) ->
  forall i' j', (j' < N.to_nat j)%nat -> ~ is_race tr i' j'.
Proof.
  unfold race_check. intros H.
  destruct (hrun hinit tr) as [s'|[i0 j0]] eqn:R; [discriminate|]. inversion H; subst.
  exact (hrun_first tr tr [] hinit i j eq_refl (hinv_init tr) R).
Qed.
