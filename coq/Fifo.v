(* Fifo.v — executable model of internal/queues/queue.go + internal/linkedbuffer/chunk.go.
   Definitions only (proofs are in FifoProofs.v) so that the validator still builds when a
   proof breaks.

   Correspondence with the Go code (checked on every run by the differential test
   go/harness/queues_diff_test.go against the extracted functions):

     chunk            = linkedbuffer.Chunk : cap(Data), NextReadIndex, NextWriteIndex and the
                        live window Data[NextReadIndex:NextWriteIndex]
     queue.rchunks    = the chain readChunk -> ... up to but excluding writeChunk
     queue.wchunk     = writeChunk (its Next is always nil)
     qsize            = the atomic.Int64 length counter (updated under the queue lock; the
                        model keeps it in Z: fewer than 2^63 items, see the trusted base)
*)
From Coq Require Import List NArith ZArith Bool.
Import ListNotations.
Open Scope N_scope.

Section Fifo.
  Context {A : Type}.

  Record chunk := mkChunk { ccap : N; crd : N; cwr : N; citems : list A }.

  Definition new_chunk (c : N) : chunk := mkChunk c 0 0 [].

  (* Chunk.Push: false when NextWriteIndex >= Cap *)
  Definition chunk_push (c : chunk) (x : A) : option chunk :=
    if ccap c <=? cwr c then None
    else Some (mkChunk (ccap c) (crd c) (cwr c + 1) (citems c ++ [x])).

  (* Chunk.Pop: false when NextReadIndex >= NextWriteIndex.
     The [[]] branch is unreachable when length citems = cwr - crd (chunk_ok). *)
  Definition chunk_pop (c : chunk) : option (A * chunk) :=
    if cwr c <=? crd c then None
    else match citems c with
         | [] => None
         | x :: r => Some (x, mkChunk (ccap c) (crd c + 1) (cwr c) r)
         end.

  Record queue := mkQueue {
    rchunks : list chunk;
    wchunk  : chunk;
    qsize   : Z;
    initcap : N;      (* package var initialBufferCapacity at NewQueue / Purge time *)
    maxcap  : N;      (* q.maxCapacity *)
    qclosed : bool
  }.

  Definition new_queue (init mx : N) : queue :=
    mkQueue [] (new_chunk init) 0%Z init mx false.

  (* Queue.Len *)
  Definition qlen (q : queue) : Z := qsize q.

  (* Queue.Enqueue (the type assertion always succeeds in the model: items are of type A) *)
  Definition enqueue (q : queue) (x : A) : bool * queue :=
    if qclosed q then (false, q) else
    match chunk_push (wchunk q) x with
    | Some w' =>
        (true, mkQueue (rchunks q) w' (qsize q + 1)%Z (initcap q) (maxcap q) (qclosed q))
    | None =>
        let c := ccap (wchunk q) in
        let nc := N.min (c + c / 2) (maxcap q) in
        match chunk_push (new_chunk nc) x with
        | Some w' =>
            (true, mkQueue (rchunks q ++ [wchunk q]) w' (qsize q + 1)%Z
                           (initcap q) (maxcap q) (qclosed q))
        | None =>
            (false, mkQueue (rchunks q ++ [wchunk q]) (new_chunk nc) (qsize q)
                            (initcap q) (maxcap q) (qclosed q))
        end
    end.

  Definition with_read (q : queue) (rs : list chunk) (w : chunk) (bump : bool) : queue :=
    mkQueue rs w (if bump then (qsize q - 1)%Z else qsize q)
            (initcap q) (maxcap q) (qclosed q).

  (* Queue.Dequeue *)
  Definition dequeue (q : queue) : option A * queue :=
    match rchunks q with
    | [] =>
        match chunk_pop (wchunk q) with
        | Some (x, w') => (Some x, with_read q [] w' true)
        | None => (None, q)                       (* readChunk.Next == nil *)
        end
    | c :: rest =>
        match chunk_pop c with
        | Some (x, c') => (Some x, with_read q (c' :: rest) (wchunk q) true)
        | None =>
            (* readChunk = readChunk.Next; try again *)
            match rest with
            | [] =>
                match chunk_pop (wchunk q) with
                | Some (x, w') => (Some x, with_read q [] w' true)
                | None => (None, with_read q [] (wchunk q) false)
                end
            | c2 :: rest2 =>
                match chunk_pop c2 with
                | Some (x, c2') => (Some x, with_read q (c2' :: rest2) (wchunk q) true)
                | None => (None, with_read q rest (wchunk q) false)
                end
            end
        end
    end.

  (* abstraction: the queue's contents, oldest first *)
  Definition qabs (q : queue) : list A :=
    concat (map citems (rchunks q)) ++ citems (wchunk q).

  (* Queue.Values *)
  Definition values (q : queue) : list A :=
    if (qlen q =? 0)%Z then [] else qabs q.

  (* Queue.Purge ([init] = current value of the package variable) *)
  Definition purge (q : queue) (init : N) : queue :=
    mkQueue [] (new_chunk init) 0%Z init (maxcap q) (qclosed q).

  (* Queue.PurgeValues: contents and reset under one lock *)
  Definition purge_values (q : queue) (init : N) : list A * queue := (qabs q, purge q init).

  Definition close (q : queue) : queue :=
    mkQueue (rchunks q) (wchunk q) (qsize q) (initcap q) (maxcap q) true.

  (* capacities of the chunks, for the differential test's structural comparison *)
  Definition caps (q : queue) : list N := map ccap (rchunks q) ++ [ccap (wchunk q)].

End Fifo.

Arguments chunk : clear implicits.
Arguments queue : clear implicits.
