(* SliceBatchProofs.v — the batch completion protocol: the stream is closed at most once, never
   sent to after the close, the wait group never goes negative, the counter is the number of
   items that have not called Done, and Wait is enabled exactly when it is zero. All event
   lists: any batch size, any number of goroutines, any interleaving of finishing items. *)
From Coq Require Import List Arith Bool Lia.
From VQ Require Import SliceBatch.
Import ListNotations.

Definition bsome {A} (o : option A) : bool := match o with Some _ => true | None => false end.

Record BInv (s : bstate) : Prop := mkBInv {
  b_fresh : created s = false -> bn s = 0 /\ bcount s = 0 /\ bwg s = 0 /\ owe_wg s = 0 /\ bdones s = 0 /\
                                 bcloses s = 0 /\ bclosed s = false /\ last s = None /\ chlen s = 0 /\ bsends s = 0 /\ brecvd s = 0;
  b_count : bcount s + bdones s = bn s;
  b_wg : bwg s + bdones s = bn s + owe_wg s;
  b_owe : owe_wg s <= bdones s;
  b_closes : bcloses s = if bclosed s then 1 else 0;
  b_last : bsome (last s) = true -> bcount s = 0 /\ bclosed s = false /\ bn s >= 1;
  b_closed : bclosed s = true -> bcount s = 0;
  b_rest : created s = true -> bcount s = 0 -> bclosed s = true \/ bsome (last s) = true \/ bn s = 0;
  b_chan : chlen s + brecvd s = bsends s;
  b_cap : bn s <= bcap s
}.

Lemma binit_inv : BInv binit.
Proof. constructor; cbn; intros; try discriminate; try lia; auto. repeat split; reflexivity. Qed.

Ltac bbools :=
  repeat match goal with
         | H : _ && _ = true |- _ => apply andb_prop in H; destruct H
         | H : Nat.eqb _ _ = true |- _ => apply Nat.eqb_eq in H
         | H : true = Nat.eqb _ _ |- _ => symmetry in H; apply Nat.eqb_eq in H
         | H : false = Nat.eqb _ _ |- _ => symmetry in H; apply Nat.eqb_neq in H
         | H : Nat.eqb _ _ = false |- _ => apply Nat.eqb_neq in H
         | H : Nat.leb _ _ = true |- _ => apply Nat.leb_le in H
         | H : Nat.ltb _ _ = true |- _ => apply Nat.ltb_lt in H
         | H : negb _ = true |- _ => apply negb_true_iff in H
         | H : negb _ = false |- _ => apply negb_false_iff in H
         | H : _ || _ = false |- _ => apply orb_false_elim in H; destruct H
         | H : Bool.eqb _ _ = true |- _ => apply Bool.eqb_prop in H
         | H : bopt_is ?o _ = true |- _ => destruct o; cbn in H; [apply Nat.eqb_eq in H; subst | discriminate H]
         end.

Ltac bdestr H :=
  repeat match type of H with
         | (if ?c then _ else _) = Some _ => let E := fresh "E" in destruct c eqn:E; try discriminate H
         | match ?x with _ => _ end = Some _ => let E := fresh "E" in destruct x eqn:E; try discriminate H
         end;
  try (inversion H; subst; clear H).

Ltac bexpose s :=
  destruct s as [n0 cr0 cnt0 wg0 owe0 ch0 cl0 last0 clo0 snd0 don0 rcv0 cap0]; cbn in *.

Ltac bspec :=
  repeat match goal with
         | H : true = true -> _ |- _ => specialize (H eq_refl)
         | H : ?a = ?a -> _ |- _ => specialize (H eq_refl)
         | H : false = true -> _ |- _ => clear H
         | H : true = false -> _ |- _ => clear H
         | H : _ /\ _ |- _ => destruct H
         end.

Lemma bstep_inv s e s' : BInv s -> bstep s e = Some s' -> BInv s'.
Proof.
  intros I H. bexpose s. destruct I; cbn in *.
  destruct e; cbn in H; bdestr H; bbools; subst; cbn in *; bspec;
    constructor; cbn; intros; bspec; subst; try discriminate;
    repeat match goal with
           | b : bool |- _ => destruct b; cbn in *; bspec; try discriminate
           | o : option btid |- _ => destruct o; cbn in *; bspec; try discriminate
           end;
    try solve [ repeat split; try reflexivity; try lia; auto
              | left; reflexivity | right; left; reflexivity | right; right; lia
              | destruct (Nat.eqb_spec v 1); subst; cbn in *; bspec; repeat split; try lia; auto; try discriminate
              | destruct v; cbn in *; [discriminate | lia] ].
Qed.

Lemma brun_inv es : forall s s', BInv s -> brun s es = Some s' -> BInv s'.
Proof.
  induction es as [|e es IH]; cbn; intros s s' I H.
  - now inversion H; subst.
  - destruct (bstep s e) as [s1|] eqn:E; [|discriminate]. eapply IH; [|exact H]. eapply bstep_inv; eauto.
Qed.

Definition BReachable (s : bstate) : Prop := exists es, brun binit es = Some s.

Lemma breachable_inv s : BReachable s -> BInv s.
Proof. intros [es H]. eapply brun_inv; [apply binit_inv | exact H]. Qed.

(* the stream is closed at most once *)
Theorem closed_at_most_once s : BReachable s -> bcloses s <= 1.
Proof. intros R. apply breachable_inv in R. rewrite (b_closes s R). destruct (bclosed s); lia. Qed.

(* whoever is about to close finds it open: "close of closed channel" is unreachable *)
Theorem close_never_on_closed s t : BReachable s -> last s = Some t -> bclosed s = false.
Proof. intros R E. apply breachable_inv in R. destruct (b_last s R) as (_ & H & _); [now rewrite E|exact H]. Qed.

(* an item that has not called Done finds the stream open: "send on closed channel" is unreachable *)
Theorem send_never_on_closed s : BReachable s -> bdones s < bn s -> bclosed s = false.
Proof.
  intros R H. apply breachable_inv in R. destruct (bclosed s) eqn:E; [|reflexivity].
  pose proof (b_closed s R E). pose proof (b_count s R). lia.
Qed.

(* the wait group never goes negative *)
Theorem wg_never_negative s : BReachable s -> owe_wg s >= 1 -> bwg s >= 1.
Proof. intros R H. apply breachable_inv in R. pose proof (b_wg s R). pose proof (b_count s R). lia. Qed.

(* NumPending = items that have not called Done; Wait is enabled exactly when it is 0 and every Done completed *)
Theorem count_is_outstanding s : BReachable s -> bcount s = bn s - bdones s /\ bdones s <= bn s.
Proof. intros R. apply breachable_inv in R. pose proof (b_count s R). lia. Qed.

Theorem wait_iff_all_done s : BReachable s -> created s = true -> (bwg s = 0 <-> (bcount s = 0 /\ owe_wg s = 0)).
Proof.
  intros R C. apply breachable_inv in R.
  pose proof (b_count s R). pose proof (b_wg s R). pose proof (b_owe s R). lia.
Qed.

(* at rest (nobody owes the close) a batch whose items are all done is closed — also the empty one
   once its constructor ran [BCloseEmpty] *)
Theorem closed_at_rest s : BReachable s -> created s = true -> bcount s = 0 -> last s = None -> bn s >= 1 -> bclosed s = true.
Proof.
  intros R C Z L N. apply breachable_inv in R. destruct (b_rest s R C Z) as [H|[H|H]]; auto.
  - rewrite L in H. discriminate.
  - lia.
Qed.

(* an item that has not sent its outcome yet finds a free slot in the stream, whether or not
   anybody reads: the stream has one slot per item (so a batch runs to completion unread) *)
Theorem send_never_blocks s : BReachable s -> bsends s < bn s -> chlen s < bcap s.
Proof. intros R H. apply breachable_inv in R. pose proof (b_chan s R). pose proof (b_cap s R). lia. Qed.

Theorem stream_has_a_slot_per_item s n c s' : bstep s (BNew n c) = Some s' -> n <= c /\ bcap s' = c /\ bn s' = n.
Proof.
  cbn. destruct (created s || negb (Nat.leb n c)) eqn:E; [discriminate|].
  apply orb_false_elim in E. destruct E as [_ E]. apply negb_false_iff, Nat.leb_le in E.
  intros H. inversion H; subst. cbn. auto.
Qed.

(* what readers receive was sent: received + buffered = sent *)
Theorem stream_conservation s : BReachable s -> chlen s + brecvd s = bsends s.
Proof. intros R. apply breachable_inv in R. apply (b_chan s R). Qed.
