"""Controlled-scheduler checks (ties 1 and 2 of DESIGN section 2 + monitors): instrument /repo's
working tree, build the harness once per source state, run scenario families under the
controlled scheduler, evaluate the monitors, validate slice traces on the extracted model."""
import glob, hashlib, json, os, re, shutil, subprocess, time
from . import common as C

HARNESS_DIR = os.path.join(C.VERIF, 'go', 'harness', 'root')
VT_DIR = os.path.join(C.VERIF, 'go', 'vt')
INSTR_SRC = os.path.join(C.VERIF, 'go', 'instr')


def tree_hash():
    h = hashlib.sha256()
    roots = [(C.REPO, lambda p: p.endswith('.go') and not p.endswith('_test.go') and '/examples/' not in p and '/mocks/' not in p),
             (os.path.join(C.VERIF, 'go'), lambda p: p.endswith('.go') or p.endswith('go.mod'))]
    for root, keep in roots:
        for d, dirs, files in sorted(os.walk(root)):
            dirs[:] = sorted(x for x in dirs if not x.startswith('.'))
            for f in sorted(files):
                p = os.path.join(d, f)
                if keep(p):
                    h.update(p.encode())
                    h.update(open(p, 'rb').read())
    for f in ('go.mod', 'go.sum'):
        p = os.path.join(C.REPO, f)
        if os.path.exists(p):
            h.update(open(p, 'rb').read())
    return h.hexdigest()[:16]


def build(ctx):
    """returns (dir, None) or (None, (kind, log)); dir contains harness.test, sites.json, overlay.json"""
    hsh = tree_hash()
    d = os.path.join(C.CACHE, 'ctl-' + hsh)
    with C.Lock('ctlbuild'):
        if os.path.exists(os.path.join(d, 'harness.test')) and os.path.exists(os.path.join(d, 'sites.json')):
            os.utime(d)
            return d, None
        instr = os.path.join(C.CACHE, 'instr')
        env = dict(C.GOENV, GOTOOLCHAIN='local')
        rc, out = C.run(['go', 'build', '-o', instr, '.'], cwd=INSTR_SRC, env=env, timeout=300)
        if rc != 0:
            return None, ('framework', 'building the rewriter failed:\n' + out[-2000:])
        tmp = d + '.tmp%d' % os.getpid()
        shutil.rmtree(tmp, ignore_errors=True)
        os.makedirs(tmp)
        args = [instr, C.REPO, tmp, VT_DIR]
        for f in sorted(glob.glob(os.path.join(HARNESS_DIR, '*_test.go'))):
            args.append('%s=%s' % (os.path.join(C.REPO, os.path.basename(f)), f))
        rc, out = C.run(args, timeout=120)
        if rc != 0:
            shutil.rmtree(tmp, ignore_errors=True)
            return None, ('instrument', 'instrumentation refused the source:\n' + out[-3000:])
        rc, out = C.run(['go', 'test', '-overlay', os.path.join(tmp, 'overlay.json'), '-vet=off', '-c', '-o',
                         os.path.join(tmp, 'harness.test'), '.'], cwd=C.REPO, env=C.GOENV, timeout=900)
        if rc != 0 and ('cannot open file' in out or 'is not in std' in out):
            time.sleep(5)   # shared Go build cache trimmed under the build: retry once
            rc, out = C.run(['go', 'test', '-overlay', os.path.join(tmp, 'overlay.json'), '-vet=off', '-c', '-o',
                             os.path.join(tmp, 'harness.test'), '.'], cwd=C.REPO, env=C.GOENV, timeout=900)
        if rc != 0:
            shutil.rmtree(tmp, ignore_errors=True)
            return None, ('harness-build', 'instrumented library + harness failed to compile:\n' + out[-4000:])
        # overlay paths point into tmp; rewrite them to the final directory
        ov = open(os.path.join(tmp, 'overlay.json')).read().replace(tmp, d)
        open(os.path.join(tmp, 'overlay.json'), 'w').write(ov)
        shutil.rmtree(d, ignore_errors=True)
        os.rename(tmp, d)
        # prune: keep the three most recent builds
        olds = sorted(glob.glob(os.path.join(C.CACHE, 'ctl-*')), key=os.path.getmtime, reverse=True)
        for o in olds[3:]:
            shutil.rmtree(o, ignore_errors=True)
        return d, None


def run_families(ctx, bdir, families, episodes, seed, tracedir=None, replay=None, timeout=3000):
    """runs the harness (resuming after runaway crashes); returns (results, crashes, log)"""
    out = os.path.join(ctx.work, 'ctl-%s-%d.jsonl' % ('_'.join(families)[:40], seed))
    if os.path.exists(out):
        os.remove(out)
    env = dict(os.environ, VERIF_OUT=out, VERIF_SEED=str(seed), VERIF_EPISODES=str(episodes),
               VERIF_SITES=os.path.join(bdir, 'sites.json'), VERIF_FAMILIES=','.join(families), VERIF_PROP=ctx.pid)
    if tracedir:
        os.makedirs(tracedir, exist_ok=True)
        env['VERIF_TRACEDIR'] = tracedir
    if replay:
        env['VERIF_REPLAY'] = replay
    crashes, skip, logs = [], 0, ''
    retried = {}
    t0 = time.time()
    while True:
        env['VERIF_SKIP'] = str(skip)
        rc, log = C.run([os.path.join(bdir, 'harness.test'), '-test.run', 'TestVerifCtl', '-test.timeout', '50m'],
                        cwd=ctx.work, env=env, timeout=max(60, timeout - (time.time() - t0)))
        logs += log[-3000:]
        m = re.search(r'^#CRASH (\S+) (\S+) (\S+) (\d+) (\S+)', log, re.M)
        if m:
            crashes.append(dict(family=m.group(1), seed=int(m.group(2)), strategy=m.group(3), reason=m.group(5)))
            skip = int(m.group(4))
            if len(crashes) > 25:
                break
            continue
        if rc != 0 and not m:
            # the harness process died without a watchdog record (an internal fault of the shim
            # runtime, a runtime fatal error). Episodes are deterministic: re-run from the episode
            # that was in progress; only a fault that repeats at the same episode is reported.
            done = 0
            if os.path.exists(out):
                done = sum(1 for l in open(out) if l.strip())
            trim_slices(env.get('VERIF_SLICES') or os.environ.get('VERIF_SLICES'))
            if retried.get(done, 0) < 1:
                retried[done] = retried.get(done, 0) + 1
                ctx.notes.append('harness process exited with status %d at episode %d; re-run from there (%s)' % (rc, done + 1, ' '.join(log[-400:].split())[:300]))
                skip = done
                continue
            crashes.append(dict(family='?', seed=seed, strategy='?', reason='harness exited with status %d: %s' % (rc, log[-1500:])))
        break
    results = []
    if os.path.exists(out):
        for line in open(out):
            line = line.strip()
            if line:
                try:
                    results.append(json.loads(line))
                except ValueError:
                    pass
    return results, crashes, logs


def trim_slices(path):
    """after a crash the buffered slice file may end inside a block: cut it after the last END line"""
    if not path or not os.path.exists(path):
        return
    data = open(path, 'rb').read()
    pos, i = 0, 0
    for line in data.splitlines(keepends=True):
        i += len(line)
        if line.startswith(b'END') and line.endswith(b'\n'):
            pos = i
    if pos < len(data):
        with open(path, 'wb') as f:
            f.write(data[:pos])


def summarize(results):
    fam = {}
    for r in results:
        f = fam.setdefault(r['family'], dict(episodes=0, events=0, jobs=0, executed=0, hangs=0, distinct=set(), strategies={}, params={}))
        f['episodes'] += 1
        f['events'] += r['events']
        f['jobs'] += r['jobs']
        f['executed'] += r.get('executed', 0)
        f['hangs'] += 1 if r['hang'] else 0
        if r['jobs'] > 0 or r['events'] > 100:
            f['distinct'].add(r.get('sched_hash'))
        f['strategies'][r['strategy']] = f['strategies'].get(r['strategy'], 0) + 1
        for k, v in r.get('params', {}).items():
            if k in ('purgeT',):
                continue
            pv = f['params'].setdefault(k, {})
            pv[str(v)] = pv.get(str(v), 0) + 1
    for f in fam.values():
        f['distinct'] = len(f['distinct'])
    return fam
