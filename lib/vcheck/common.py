"""Shared plumbing for /verif/bin/check: paths, subprocesses, Coq build, evidence, verdicts."""
import fcntl, hashlib, json, os, re, shutil, subprocess, sys, time

VERIF = os.path.abspath(os.path.join(os.path.dirname(__file__), '..', '..'))
REPO = os.environ.get('VERIF_REPO', '/repo')
COQ = os.path.join(VERIF, 'coq')
WORK_ROOT = os.path.join(VERIF, '.work')
CACHE = os.path.join(VERIF, '.cache')
VALIDATE = os.path.join(VERIF, 'ocaml', 'validate')

GOENV = dict(os.environ, GOFLAGS='-mod=mod', GOPROXY='off', CGO_ENABLED=os.environ.get('CGO_ENABLED', '0'))
GOENV.pop('GOSUMDB', None)       # GOSUMDB=off breaks the cached-toolchain switch
GOENV.pop('GOTOOLCHAIN', None)   # go.mod wants go1.24 (cached); "local" would refuse


class Ctx:
    def __init__(self, pid, tier, seed):
        self.pid, self.tier, self.seed = pid, tier, seed
        self.t0 = time.time()
        self.work = os.path.join(WORK_ROOT, '%s-%d' % (pid, os.getpid()))
        os.makedirs(self.work, exist_ok=True)
        os.makedirs(CACHE, exist_ok=True)
        self.notes = []
        self.known = []          # KNOWN-FINDING lines printed
        self.violations = []     # (replay_path, suffix)
        self.cov = {}            # coverage dict for the evidence

    def log(self, *a):
        print('[check %s]' % self.pid, *a, file=sys.stderr, flush=True)

    def cleanup(self):
        shutil.rmtree(self.work, ignore_errors=True)


def run(cmd, cwd=None, env=None, timeout=900, inp=None):
    """returns (rc, stdout+stderr); rc=124 on timeout"""
    try:
        p = subprocess.run(cmd, cwd=cwd, env=env, timeout=timeout, input=inp,
                           stdout=subprocess.PIPE, stderr=subprocess.STDOUT, text=True, errors='replace')
        return p.returncode, p.stdout
    except subprocess.TimeoutExpired as e:
        out = e.stdout or ''
        if isinstance(out, bytes):
            out = out.decode(errors='replace')
        return 124, out + '\n[timeout after %ss]' % timeout


class Lock:
    def __init__(self, name):
        os.makedirs(CACHE, exist_ok=True)
        self.path = os.path.join(CACHE, name + '.lock')

    def __enter__(self):
        self.f = open(self.path, 'w')
        fcntl.flock(self.f, fcntl.LOCK_EX)
        return self

    def __exit__(self, *a):
        fcntl.flock(self.f, fcntl.LOCK_UN)
        self.f.close()


def write_if_changed(path, content):
    try:
        if open(path).read() == content:
            return False
    except FileNotFoundError:
        pass
    os.makedirs(os.path.dirname(path), exist_ok=True)
    tmp = path + '.tmp%d' % os.getpid()
    open(tmp, 'w').write(content)
    os.replace(tmp, path)
    return True


# ---------------------------------------------------------------- Coq

HYGIENE_RE = re.compile(r'\b(Admitted|admit|Axiom|Parameter|Conjecture|Unset\s+Guard|bypass_check|type-in-type|impredicative-set|Admit\s+Obligations)\b')


def coq_hygiene():
    """no Admitted/admit/Axiom/... anywhere in the development (comments excluded)"""
    bad = []
    for root, _, files in os.walk(COQ):
        if 'extracted' in root:
            continue
        for f in files:
            if not f.endswith('.v'):
                continue
            src = open(os.path.join(root, f)).read()
            src = strip_coq_comments(src)
            for m in HYGIENE_RE.finditer(src):
                bad.append('%s: %s' % (os.path.relpath(os.path.join(root, f), COQ), m.group(0)))
    proj = open(os.path.join(COQ, '_CoqProject')).read()
    if re.search(r'-type-in-type|-impredicative-set|-vos|-vok', proj):
        bad.append('_CoqProject: forbidden flag')
    return bad


def strip_coq_comments(s):
    out, depth, i = [], 0, 0
    while i < len(s):
        if s.startswith('(*', i):
            depth += 1; i += 2
        elif s.startswith('*)', i) and depth > 0:
            depth -= 1; i += 2
        else:
            if depth == 0:
                out.append(s[i])
            i += 1
    return ''.join(out)


def coq_make(ctx, timeout=1500):
    """full .vo build (incremental), serialized across concurrent checks; returns (ok, log)"""
    with Lock('coq'):
        if not os.path.exists(os.path.join(COQ, 'Makefile')):
            rc, out = run(['coq_makefile', '-f', '_CoqProject', '-o', 'Makefile'], cwd=COQ)
            if rc != 0:
                return False, out
        rc, out = run(['make', '-j16'], cwd=COQ, timeout=timeout)
        return rc == 0, out


def coqchk(ctx, module, timeout=2400):
    """independent re-check of the compiled property module and everything it depends on
    (thorough tier); returns (ok, summary text)"""
    with Lock('coq'):
        rc, out = run(['coqchk', '-silent', '-o', '-Q', COQ, 'VQ', 'VQ.' + module], cwd=ctx.work, timeout=timeout)
    summ = out[out.find('CONTEXT SUMMARY'):] if 'CONTEXT SUMMARY' in out else out[-1500:]
    ok = rc == 0 and 'Axioms: <none>' in out and 'type-in-type: <none>' in out and 'positivity is assumed: <none>' in out
    return ok, ' '.join(summ.split())[:1200]


def coq_failed_file(log):
    m = re.search(r'File "\./([^"]+)", line (\d+)', log)
    return (m.group(1), int(m.group(2))) if m else (None, None)


def print_assumptions(ctx, module, theorems, timeout=300):
    """re-loads the compiled property module and prints the assumptions of each theorem;
    returns {theorem: text} or raises RuntimeError when a theorem is missing"""
    src = 'From VQ Require Import %s.\n' % module
    for t in theorems:
        src += 'Print Assumptions %s.\n' % t
    name = 'Assm_%s_%d' % (ctx.pid, os.getpid())
    path = os.path.join(ctx.work, name + '.v')
    open(path, 'w').write(src)
    rc, out = run(['coqc', '-Q', COQ, 'VQ', path], cwd=ctx.work, timeout=timeout)
    if rc != 0:
        raise RuntimeError('Print Assumptions failed:\n' + out[-2000:])
    # split output per theorem: coqc prints results in order
    chunks = re.split(r'(?m)^(?=Closed under the global context|Axioms:)', out)
    chunks = [c.strip() for c in chunks if c.strip()]
    res = {}
    for t, c in zip(theorems, chunks):
        res[t] = ' '.join(c.split())
    if len(chunks) != len(theorems):
        raise RuntimeError('unexpected Print Assumptions output:\n' + out[-2000:])
    return res


def property_theorems(module_file):
    """names of Theorem/Example statements in a property file"""
    src = strip_coq_comments(open(os.path.join(COQ, module_file)).read())
    return re.findall(r'(?m)^\s*(?:Theorem|Example|Corollary)\s+([A-Za-z0-9_\']+)', src)


# ---------------------------------------------------------------- Go

def go_test(ctx, pkg, run_re, overlay, env_extra, timeout=900, extra_args=()):
    env = dict(GOENV)
    env.update(env_extra)
    cmd = ['go', 'test', '-overlay', overlay, '-vet=off', '-count=1', '-timeout', '%ds' % max(60, timeout - 30), '-run', run_re] + list(extra_args) + [pkg]
    return run(cmd, cwd=REPO, env=env, timeout=timeout)


def write_overlay(ctx, mapping, name='overlay.json'):
    path = os.path.join(ctx.work, name)
    json.dump({'Replace': mapping}, open(path, 'w'), indent=1)
    return path


def validate_trace(trace, timeout=600):
    rc, out = run([VALIDATE, trace], timeout=timeout)
    m = re.search(r'DONE lines=(\d+) checked=(\d+) mismatches=(\d+)', out)
    mism = [l for l in out.splitlines() if l.startswith('MISMATCH')]
    if not m:
        return None, mism, out
    return dict(lines=int(m.group(1)), checked=int(m.group(2)), mismatches=int(m.group(3))), mism, out


# ---------------------------------------------------------------- verdicts / evidence

def known_findings():
    try:
        return json.load(open(os.path.join(VERIF, 'known_findings.json')))
    except FileNotFoundError:
        return {'open': [], 'fixed': []}


def write_replay(ctx, name, obj):
    d = os.path.join(VERIF, 'replays')
    os.makedirs(d, exist_ok=True)
    path = os.path.join(d, '%s-%s.json' % (ctx.pid, name))
    json.dump(obj, open(path, 'w'), indent=1, default=str)
    return path


def finish(ctx, level='proof', assumptions=()):
    ev = {
        'property_id': ctx.pid,
        'tier': ctx.tier,
        'seed': ctx.seed,
        'level': level,
        'coverage': ctx.cov,
        'assumptions': list(assumptions),
        'wall_s': round(time.time() - ctx.t0, 2),
        'violations': len(ctx.violations),
        'known_findings_reported': ctx.known,
        'notes': ctx.notes,
    }
    os.makedirs(os.path.join(VERIF, 'evidence'), exist_ok=True)
    json.dump(ev, open(os.path.join(VERIF, 'evidence', ctx.pid + '.json'), 'w'), indent=1, default=str)
    for k in ctx.known:
        print('KNOWN-FINDING: property=%s %s' % (ctx.pid, k))
    for path, suffix in ctx.violations:
        print('VIOLATION property=%s replay=%s%s' % (ctx.pid, path, (' ' + suffix) if suffix else ''))
    sys.stdout.flush()
    ctx.cleanup()
    return 1 if ctx.violations else 0
