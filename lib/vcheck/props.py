"""Registry: property id -> how it is decided."""
from . import purecore

TB_COMMON = [
    'Coq 8.16.1 kernel (coqc); vm_compute used for Examples/witnesses/finite facts; no native_compute',
    'no axioms declared; Print Assumptions output per theorem is recorded in this file',
    'extraction: ExtrOcamlBasic only (bool/option/unit/list/prod/sumbool/comparison mapped to OCaml types), no Extract Constant; nat/N/Z stay extracted inductives; OCaml 4.13.1',
    'ocaml/reg.ml, v_*.ml, main.ml: record parser and comparison glue',
]

QUEUES_DIFF = dict(
    name='queues', pkg='./internal/queues/', test='TestVerifDiff',
    files={'internal/queues/zz_verif_diff_test.go': 'go/harness/queues/zz_verif_diff_test.go'},
    env={'VERIF_EPISODES': 40, 'VERIF_BIGOPS': 6000})

MANAGER_DIFF = dict(
    name='manager', pkg='./internal/helpers/', test='TestVerifManagerDiff',
    files={'internal/helpers/zz_verif_manager_test.go': 'go/harness/helpers/zz_verif_manager_test.go'},
    env={'VERIF_EPISODES': 300})

PURE = {
    'C15': dict(
        module='Properties.C15', file='Properties/C15.v',
        diffs=[MANAGER_DIFF],
        params={},
        footprint=['M+', 'M-', 'MRR', 'MMAX', 'MMIN', 'MLEN', 'MCNT', 'validator:'],
        oracle_kinds=['mgr.rr', 'mgr.max', 'mgr.min', 'mgr.fair', 'mgr.len', 'mgr.unreg'],
        rule='records = observed results of generated Register/UnregisterItem/set-length/GetRoundRobinItem/GetMaxLenItem/'
             'GetMinLenItem/Len/Count sequences on helpers.Manager[*vItem] (0..23 items; mostly-empty, tie-heavy, all-empty, wide and '
             'busy length profiles; occasional negative and extreme int64 lengths; double registration; unregister of absent items; '
             'stable episodes with pinned non-empty items for long fairness windows); every selection record carries the lens vector by '
             'position, the result as a position / E0 / E1 and roundRobinIndex after the call; each record is replayed on the extracted '
             'Coq model (Manager.v); distinct_nontrivial = number of distinct checked record lines',
        trusted_base=TB_COMMON + ['go/harness/helpers/zz_verif_manager_test.go (generator, recorder, white-box position lookup in m.items, Go reference oracles used only to search for failing inputs)',
                                  'modelled, not verified: slices.MaxFunc of the Go standard library (first maximal element; modelled from its source in Manager.max_from, tied by tie-heavy MMAX records)'],
        assumptions=['each item.Len() is constant during one selection call (the manager lock does not lock the queues; GetMaxLenItem calls Len() several times per item)',
                     'RoundRobin fairness/no-starvation: no Register/UnregisterItem between the dispatches considered (refuted across UnregisterItem, see C15_equal_share_refuted_across_unregister; the library never calls UnregisterItem)',
                     'MaxLen statement of the property: 0 <= Len() < 2^63 for every bound queue (C15_max_partial; refuted for negative Len)',
                     'system level (worker calls next() then Dequeue on the chosen queue; each bound queue registered exactly once): controlled-scheduler family multiq'],
    ),
    'C04': dict(
        module='Properties.C04', file='Properties/C04.v',
        diffs=[QUEUES_DIFF],
        params={'initialBufferCapacity': 1, 'chunkMaxCapacity': 1},
        footprint=['E', 'D', 'V', 'S', 'PV', 'H+', 'H-', 'HV', 'HPV', 'validator:'],
        oracle_kinds=['fifo.order', 'fifo.lost', 'fifo.enqueue-result', 'fifo.purge-values', 'heap.order', 'heap.lost', 'heap.enqueue-result', 'heap.purge-values'],
        rule='records = observed results of generated Enqueue/Dequeue/Values/Purge/Close sequences on queues.Queue[int] '
             '(capacities patched to 1..18 so that every segment hand-over pattern occurs, plus one long episode at the real '
             'capacities) and queues.PriorityQueue[int] (few distinct priorities => many ties; extreme int64 priorities; '
             'array layout compared through Values()); each record is replayed on the extracted Coq model; '
             'distinct_nontrivial = number of distinct checked record lines (operation + observed result)',
        trusted_base=TB_COMMON + ['go/harness/queues/zz_verif_diff_test.go (generator, recorder, Go reference oracles used only to search for failing inputs)',
                                  'modelled, not verified: container/heap of the Go standard library (modelled from its source in Heap.v, tied by the layout comparison)'],
        assumptions=['type assertions in Enqueue always succeed (the wrappers only enqueue the queue\'s own job type)',
                     'fewer than 2^63 items in a queue (the int64 length counter is modelled in Z)',
                     'system level (dispatcher dequeues under the queue mutex, one at a time): see C04 level_note'],
    ),
}
