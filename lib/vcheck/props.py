"""Registry: property id -> how it is decided."""
from . import purecore

TB_COMMON = [
    'Coq 8.16.1 kernel (coqc); vm_compute used for Examples/witnesses/finite facts; no native_compute',
    'no axioms declared; Print Assumptions output per theorem is recorded in this file',
    'extraction: ExtrOcamlBasic only (bool/option/unit/list/prod/sumbool/comparison mapped to OCaml types), no Extract Constant; nat/N/Z stay extracted inductives; OCaml 4.13.1',
    'ocaml/reg.ml, v_*.ml, main.ml: record parser and comparison glue',
]

QUEUES_DIFF = dict(
    name='queues', pkg='./internal/queues/', test='TestVerifDiff',
    files={'internal/queues/zz_verif_diff_test.go': 'go/harness/queues/zz_verif_diff_test.go'},
    env={'VERIF_EPISODES': 40, 'VERIF_BIGOPS': 6000})

PURE = {
    'C04': dict(
        module='Properties.C04', file='Properties/C04.v',
        diffs=[QUEUES_DIFF],
        params={'initialBufferCapacity': 1, 'chunkMaxCapacity': 1},
        footprint=['E', 'D', 'V', 'S', 'H+', 'H-', 'HV', 'validator:'],
        oracle_kinds=['fifo.order', 'fifo.lost', 'fifo.enqueue-result', 'heap.order', 'heap.lost', 'heap.enqueue-result'],
        rule='records = observed results of generated Enqueue/Dequeue/Values/Purge/Close sequences on queues.Queue[int] '
             '(capacities patched to 1..18 so that every segment hand-over pattern occurs, plus one long episode at the real '
             'capacities) and queues.PriorityQueue[int] (few distinct priorities => many ties; extreme int64 priorities; '
             'array layout compared through Values()); each record is replayed on the extracted Coq model; '
             'distinct_nontrivial = number of distinct checked record lines (operation + observed result)',
        trusted_base=TB_COMMON + ['go/harness/queues/zz_verif_diff_test.go (generator, recorder, Go reference oracles used only to search for failing inputs)',
                                  'modelled, not verified: container/heap of the Go standard library (modelled from its source in Heap.v, tied by the layout comparison)'],
        assumptions=['type assertions in Enqueue always succeed (the wrappers only enqueue the queue\'s own job type)',
                     'fewer than 2^64 enqueues per queue between purges (counter wrap; the wrapped regime is characterised separately)',
                     'system level (dispatcher dequeues under the queue mutex, one at a time): see C04 level_note'],
    ),
}
