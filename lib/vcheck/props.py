"""Registry: property id -> how it is decided."""
from . import purecore

TB_COMMON = [
    'Coq 8.16.1 kernel (coqc); vm_compute used for Examples/witnesses/finite facts; no native_compute',
    'no axioms declared; Print Assumptions output per theorem is recorded in this file',
    'extraction: ExtrOcamlBasic only (Extract Inductive bool/option/unit/list/prod/sumbool/sumor => OCaml types; Extract Inlined Constant andb => (&&), orb => (||)), no directive of our own; nat/N/Z/positive stay extracted inductives; OCaml 4.13.1',
    'ocaml/reg.ml, v_*.ml, main.ml: record parser and comparison glue',
]

QUEUES_DIFF = dict(
    name='queues', pkg='./internal/queues/', test='TestVerifDiff', timeout=240,
    files={'internal/queues/zz_verif_diff_test.go': 'go/harness/queues/zz_verif_diff_test.go'},
    env={'VERIF_EPISODES': 40, 'VERIF_BIGOPS': 6000})

MANAGER_DIFF = dict(
    name='manager', pkg='./internal/helpers/', test='TestVerifManagerDiff', timeout=240,
    files={'internal/helpers/zz_verif_manager_test.go': 'go/harness/helpers/zz_verif_manager_test.go'},
    env={'VERIF_EPISODES': 300})

LLIST_DIFF = dict(
    name='llist', pkg='./internal/linkedlist/', test='TestVerifLListDiff', timeout=240,
    files={'internal/linkedlist/zz_verif_llist_test.go': 'go/harness/linkedlist/zz_verif_llist_test.go'},
    env={'VERIF_EPISODES': 300})

CODEC_DIFF = dict(
    name='codec', pkg='./', test='TestVerifCodecDiff', timeout=240,
    files={'zz_verif_codec_test.go': 'go/harness/root/zz_verif_codec_test.go'},
    env={'VERIF_CODEC_CASES': 4000, 'VERIF_CODEC_E2E': 25})

PURE = {
    'C15': dict(
        module='Properties.C15', file='Properties/C15.v',
        diffs=[MANAGER_DIFF], families=['multiq'], quick_episodes=400, thorough_episodes=5000,
        params={},
        footprint=['M+', 'M-', 'MRR', 'MMAX', 'MMIN', 'MLEN', 'MCNT', 'validator:'],
        oracle_kinds=['mgr.rr', 'mgr.max', 'mgr.min', 'mgr.fair', 'mgr.len', 'mgr.unreg'],
        rule='records = observed results of generated Register/UnregisterItem/set-length/GetRoundRobinItem/GetMaxLenItem/'
             'GetMinLenItem/Len/Count sequences on helpers.Manager[*vItem] (0..23 items; mostly-empty, tie-heavy, all-empty, wide and '
             'busy length profiles; occasional negative and extreme int64 lengths; double registration; unregister of absent items; '
             'stable episodes with pinned non-empty items for long fairness windows); every selection record carries the lens vector by '
             'position, the result as a position / E0 / E1 and roundRobinIndex after the call; each record is replayed on the extracted '
             'Coq model (Manager.v); distinct_nontrivial = number of distinct checked record lines',
        trusted_base=TB_COMMON + ['go/harness/helpers/zz_verif_manager_test.go (generator, recorder, white-box position lookup in m.items, Go reference oracles used only to search for failing inputs)',
                                  'modelled, not verified: slices.MaxFunc of the Go standard library (first maximal element; modelled from its source in Manager.max_from, tied by tie-heavy MMAX records)'],
        assumptions=['each item.Len() is constant during one selection call (the manager lock does not lock the queues; GetMaxLenItem calls Len() several times per item)',
                     'RoundRobin fairness/no-starvation: no Register/UnregisterItem between the dispatches considered (refuted across UnregisterItem, see C15_equal_share_refuted_across_unregister; the library never calls UnregisterItem)',
                     'MaxLen statement of the property: 0 <= Len() < 2^63 for every bound queue (C15_max_partial; refuted for negative Len)',
                     'system level (worker calls next() then Dequeue on the chosen queue; each bound queue registered exactly once): controlled-scheduler family multiq'],
    ),
    'C04': dict(
        module='Properties.C04', file='Properties/C04.v',
        diffs=[QUEUES_DIFF], families=['order', 'persist'], quick_episodes=400, thorough_episodes=5000,
        params={'initialBufferCapacity': 1, 'chunkMaxCapacity': 1},
        footprint=['E', 'D', 'V', 'S', 'PV', 'H+', 'H-', 'HV', 'HPV', 'validator:'],
        oracle_kinds=['fifo.order', 'fifo.lost', 'fifo.enqueue-result', 'fifo.purge-values', 'heap.order', 'heap.lost', 'heap.enqueue-result', 'heap.purge-values'],
        rule='records = observed results of generated Enqueue/Dequeue/Values/Purge/Close sequences on queues.Queue[int] '
             '(capacities patched to 1..18 so that every segment hand-over pattern occurs, plus one long episode at the real '
             'capacities) and queues.PriorityQueue[int] (few distinct priorities => many ties; extreme int64 priorities; '
             'array layout compared through Values()); each record is replayed on the extracted Coq model; '
             'distinct_nontrivial = number of distinct checked record lines (operation + observed result)',
        trusted_base=TB_COMMON + ['go/harness/queues/zz_verif_diff_test.go (generator, recorder, Go reference oracles used only to search for failing inputs)',
                                  'modelled, not verified: container/heap of the Go standard library (modelled from its source in Heap.v, tied by the layout comparison)'],
        assumptions=['type assertions in Enqueue always succeed (the wrappers only enqueue the queue\'s own job type)',
                     'fewer than 2^63 items in a queue (the int64 length counter is modelled in Z)',
                     'system level (dispatcher dequeues under the queue mutex, one at a time): see C04 level_note'],
    ),
}


# ---------------------------------------------------------------- concurrent properties

TB_CONC = TB_COMMON + [
    'go/instr (rewriter: every sync / sync/atomic / time / channel / go operation of the library goes through the shim runtime; aborts on constructs it does not know)',
    'go/vt (shim runtime + controlled scheduler: serial execution at synchronisation-operation granularity = sequentially consistent interleavings; fidelity of the shims to sync, sync/atomic, channels, sync.Pool, time.Ticker)',
    'go/harness/root (scenario families, recording adapter and queue wrappers, projection of the log onto the slice models, monitors — monitors only search for / confirm failing histories)',
    'modelled, not verified: Go runtime scheduler and memory model (data-race freedom is C19), context, the user\'s worker function (any outcome; assumed to return for progress statements)',
]

SLICE_JOB_RULE = ('episodes = scenario programs (client goroutines issuing API calls, parameters and schedule drawn from one seeded PRNG; '
                  '2/3 uniform-random, 1/3 PCT schedules) run under the controlled scheduler on the instrumented library; every episode yields '
                  'the linear log of synchronisation operations; per job object the log is projected onto the events of coq/SliceJob.v and '
                  'replayed on the extracted model (traces_validated_against_impl = job blocks replayed); the property\'s monitor is evaluated '
                  'on every history; distinct_nontrivial = distinct schedule hashes among episodes that submitted at least one job')

SLICE_DISP_RULE = ('episodes = scenario programs run under the controlled scheduler on the instrumented library (see C01); for every job of an in-memory queue the whole log is '
                   'projected onto the events of coq/SliceDisp.v — that job followed exactly, all other jobs / reservations through counters, every load and store of the worker status word and of '
                   'curProcessing, every Len() of the job\'s queue, the event loop\'s guard values at each reservation — and replayed on the extracted model (traces_validated_against_impl = blocks replayed); '
                   'the property\'s monitor is evaluated on every history; distinct_nontrivial = distinct schedule hashes among episodes that submitted at least one job')

CONC = {
    'C02': dict(module='Properties.C02', file='Properties/C02.v', slices=['disp'],
                families=['saturate', 'lifecycle', 'burst', 'pool', 'multiq', 'staleloop', 'tuneshrink'],
                quick_episodes=250, thorough_episodes=3000,
                native=dict(scenarios=['cpus'], rounds=1, thorough_rounds=1),
                rule=SLICE_DISP_RULE + '; native mode: a concurrency value below 1 (configured, and set by TunePool) with GOMAXPROCS raised above the number of CPUs; family staleloop: a directed schedule that holds the event loop right before its reservation across a Restart / Stop+Restart / Pause+Resume while its successor fills the limit',
                trusted_base=TB_CONC,
                assumptions=['the reservation step carries the value its own Add returned and the limit the thread loads next; that the code hands back a reservation above that limit is part of the replayed protocol (no assumption that there is one event loop)',
                             'n < 1 means runtime.NumCPU() (config.go withSafeConcurrency; covered by the lifecycle model C14_tunepool_sets_concurrency)']),
    'C06': dict(module='Properties.C06', file='Properties/C06.v', slices=['disp', 'barrier', 'lock'],
                families=['burst', 'lifecycle', 'cancel', 'saturate', 'pool', 'persist', 'ctlrace', 'barriers', 'stopwindow'],
                quick_episodes=250, thorough_episodes=3000,
                rule=SLICE_DISP_RULE, trusted_base=TB_CONC,
                assumptions=['"returns once its condition holds" (no missed wake-up) is a progress statement: decided by the exact-quiescence monitor (a barrier caller parked at rest is a violation) and C03',
                             'a bound queue\'s Len() is never negative and counts every element in it (C17_fifo_len_exact; priority queue: slice length under the lock; adapters: contract)']),
    'C09': dict(module='Properties.C09', file='Properties/C09.v', slices=['disp', 'wake'],
                families=['lifecycle', 'lifeseq', 'pool', 'cancel', 'barriers', 'stopwindow', 'resumebatch'],
                quick_episodes=350, thorough_episodes=4000,
                rule=SLICE_DISP_RULE, trusted_base=TB_CONC,
                assumptions=['"all processed, in queue order, after Resume / Restart" combines C03 (progress) and C04 (order) with C09_status_store_keeps_queues']),
    'C01': dict(module='Properties.C01', file='Properties/C01.v', slices=['job', 'wake', 'pool'],
                families=['burst', 'lifecycle', 'cancel', 'batch', 'saturate', 'persist', 'recover', 'dist', 'multiq', 'pool', 'order', 'tuneshrink'],
                quick_episodes=150, thorough_episodes=2000, crash_props=['C03'],
                native=dict(scenarios=['bigburst'], rounds=1, thorough_rounds=1),
                diffs=[QUEUES_DIFF, LLIST_DIFF], diff_footprint=['E', 'D', 'V', 'S', 'PV', 'H+', 'H-', 'HV', 'HPV', 'LL+', 'LLPF', 'LLPB', 'LLR', 'LLLEN', 'LLS', 'validator:'],
                diff_oracles=['fifo.lost', 'fifo.order', 'fifo.enqueue-result', 'heap.lost', 'heap.order', 'heap.enqueue-result', 'llist.'],
                rule=SLICE_JOB_RULE + '; plus the queue differential test of C04 (an element accepted by a queue is handed out exactly once)', trusted_base=TB_CONC,
                assumptions=['job-level theorem: each enqueued job is handed out by its queue at most once (Fifo/Heap refinement theorems, C04) and each payload sent to a pool node is received at most once (channel semantics)',
                             '"eventually runs" is the progress property C03; identity of ID/data: monitors + C12']),
    'C03': dict(module='Properties.C03', file='Properties/C03.v', slices=['wake', 'batch', 'lock', 'pool'],
                families=['burst', 'lifecycle', 'cancel', 'saturate', 'pool', 'persist', 'recover', 'multiq', 'batch', 'order', 'staleloop'],
                quick_episodes=150, thorough_episodes=2000, crash_props=['C03'],
                native=dict(scenarios=['bigburst', 'bigbatch'], rounds=1, thorough_rounds=1),
                diffs=[LLIST_DIFF], diff_footprint=['LL+', 'LLPF', 'LLPB', 'LLR', 'LLLEN', 'LLS', 'validator:'], diff_oracles=['llist.'],
                rule='episodes = scenario programs run under the controlled scheduler on the instrumented library (see C01); per episode the worker-level wake-up protocol is projected onto '
                     'coq/SliceWake.v — every change of the event loop\'s guard inputs (status, curProcessing, concurrency, pending) with the flag "this thread goes on to notify", every notify, '
                     'receive, park, close / reopen of the signal channel — and replayed on the extracted model, including the requirement that every step making work dispatchable is followed by '
                     'a notify and that nothing is owed at rest; the scheduler detects quiescence exactly: a scenario that does not finish, a library goroutine parked anywhere but at its idle '
                     'point, an accepted job never run on a running worker, fewer than min(pending, limit) gated worker functions in flight, or a runaway loop is a violation; half of the '
                     'episodes run without a reader on Errs(); distinct_nontrivial = distinct schedule hashes',
                trusted_base=TB_CONC,
                assumptions=['"eventually" = at rest: the theorem says nothing dispatchable remains when nothing can move; that the system reaches rest is observed on every explored execution (event budget + watchdog), not proved (no ranking-function theorem)',
                             'every call of the worker function returns (the property\'s own hypothesis)',
                             'distributed queues: the adapter delivers an "enqueued" notification per accepted item (adapter contract; family dist monitors the drain)',
                             '"no job left Processing without a goroutine" (a payload sent to a pool node has a live server): monitored (never-ran / stuck-goroutine), rests on the idle list\'s Remove result being the ownership transfer']),
    'C05': dict(module='Properties.C05', file='Properties/C05.v', slices=['job', 'wake', 'pool'],
                families=['burst', 'lifecycle', 'cancel', 'batch', 'readers', 'tuneshrink'],
                quick_episodes=250, thorough_episodes=3000,
                native=dict(scenarios=['bigbatch'], rounds=1, thorough_rounds=1),
                rule=SLICE_JOB_RULE + '; native mode: a batch of more than 1024 items whose caller Waits before reading the stream', trusted_base=TB_CONC,
                assumptions=['"they do return" is progress (C03: every accepted job is eventually closed) plus C05_wait_stays_enabled',
                             'Result()/Err() read the per-job response channel, which the finisher fills before it closes the job (order fixed by program order of the pool goroutine; monitored)']),
    'C07': dict(module='Properties.C07', file='Properties/C07.v', slices=['resp', 'job'],
                families=['burst', 'batch', 'cancel', 'lifecycle', 'readers', 'persist'],
                quick_episodes=300, thorough_episodes=4000,
                native=dict(scenarios=['outcomes', 'bigbatch'], rounds=1, thorough_rounds=1),
                rule=SLICE_JOB_RULE + '; native mode: 700 jobs with value / error / panic(int) / panic(struct) / panic([]byte) outcomes on error, result and plain workers at concurrency 4..6 under real parallelism, every handle read twice; per single error / result job the channel operations on its response are projected onto coq/SliceResp.v (send, close, receives with payload digests) and replayed; '
                     'outcomes (value / error / panic) are assigned at random per job, all three worker kinds, concurrency 1..4; every Result() / Err() return and every batch stream element is compared with a pure function '
                     'of the job\'s data, Metrics.Failed / Successful with the outcome counts',
                trusted_base=TB_CONC,
                assumptions=['the wrappers of main.go are modelled as a pure function of the outcome (deliver); that the code computes it is checked by the monitors on every history, not by lock-step',
                             'ID and data seen by the worker function: C01 identity monitor, C12 for stored jobs',
                             'Func / ErrFunc / ResultFunc with nil functions: covered by the repository tests; not modelled']),
    'C08': dict(module='Properties.C08', file='Properties/C08.v', slices=['batch', 'job'],
                families=['batch'],
                quick_episodes=900, thorough_episodes=10000,
                native=dict(scenarios=['bigbatch'], rounds=1, thorough_rounds=1),
                diffs=[QUEUES_DIFF], diff_footprint=['PV', 'HPV', 'validator:'], diff_oracles=['fifo.purge-values', 'heap.purge-values'],
                rule=SLICE_JOB_RULE + '; per batch the log is also projected onto the events of coq/SliceBatch.v (counter loads / compare-and-swaps, wait group, '
                     'stream sends / close / receives) and replayed; batches of size 0..6 on all three worker kinds and both in-memory queue kinds, '
                     'closed queue (all items rejected), purge during the batch, stream readers and batch Wait callers; plus the PurgeValues records of the queue differential test (a purge hands out every pending element: ' 
                     'capacities patched so that the pending elements span several segments) and, in native mode, batches of more than 1024 items: unread until Wait has returned, and purged while pending',
                trusted_base=TB_CONC,
                assumptions=['each item calls WgCounter.Done exactly once (per-item protocol: SliceJob theorems C10_closed_once / C01)',
                             'tagging of results with the item id and value fidelity: monitored (stream contents vs. a pure function of the item), not modelled']),
    'C10': dict(module='Properties.C10', file='Properties/C10.v', slices=['job', 'batch'],
                families=['cancel', 'batch', 'lifecycle'],
                quick_episodes=350, thorough_episodes=4000,
                native=dict(scenarios=['bigbatch'], rounds=1, thorough_rounds=1),
                diffs=[QUEUES_DIFF], diff_footprint=['PV', 'HPV', 'validator:'], diff_oracles=['fifo.purge-values', 'heap.purge-values'],
                rule=SLICE_JOB_RULE + '; Purge hands out everything that was pending (PurgeValues records of the queue differential test; native mode: a purged batch that spans several queue segments)', trusted_base=TB_CONC,
                assumptions=['Purge on the built-in queues removes and returns the contents under one lock (PurgeValues); custom IQueue implementations without PurgeValues keep the Values()+Purge() window']),
    'C11': dict(module='Properties.C11', file='Properties/C11.v', slices=['job'],
                families=['persist', 'recover', 'dist', 'multiq', 'ctxpersist'],
                quick_episodes=350, thorough_episodes=4000,
                rule=SLICE_JOB_RULE + '; adapters are recording specification objects with per-call fault injection (enqueue / dequeue / acknowledge refused); '
                     'the crash monitor checks at the end of every history that each accepted item is pending, unacknowledged, or acknowledged-and-processed, '
                     'and family recover binds a fresh worker to a pre-loaded adapter and requires it to drain without prompting',
                trusted_base=TB_CONC + ['the recording adapter stands for any user adapter (its own bookkeeping of pending / unacknowledged / acknowledged is the specification)'],
                assumptions=['the adapter keeps a delivered item until Acknowledge succeeds for the id issued with that delivery (adapter contract)',
                             'an entry that cannot be decoded, or whose acknowledgement is refused, stays unacknowledged (redelivered after a crash)']),
    'C12': dict(module='Properties.C12', file='Properties/C12.v', slices=['job'],
                families=['persist', 'recover', 'dist'],
                quick_episodes=300, thorough_episodes=4000,
                diffs=[CODEC_DIFF], diff_footprint=['CJ', 'CP', 'CA', 'CM', 'validator:'], diff_oracles=['codec.'],
                rule='records = observed job.Json() bytes for generated ids (every escape class of encoding/json, all of ASCII, '
             'U+2028/9, 2/3/4-byte runes, empty, long, injection-like; a separate stream with malformed UTF-8) x 5 statuses '
             'x payloads of 16 Go types; parseToJob[T] on those bytes; Add on stub persistent/priority/distributed queues '
             '(entry handed to Enqueue); parseToJob[json.RawMessage] on hand-made/mutated entries (truncation, byte edits, '
             'bad escapes, unknown status, wrong field types, extra/missing/reordered/case-folded keys, white space). '
             'Each record is replayed on the extracted model (encode_env, encode_env_bytes, decode_env, submit_entry). '
             'Where the strict-shape model says Malformed and Go accepts a foreign layout, or the typed payload does not '
             'fit T, the record is counted out_of_model (#CODEC line), not a mismatch; '
             'distinct_nontrivial = number of distinct checked record lines' + '; system level: families persist / recover under the controlled scheduler (foreign producers store undecodable entries among valid ones; every valid job must still run, with its id and payload, and the adapter must be drained)',
                trusted_base=TB_COMMON + [
            'go/harness/root/zz_verif_codec_test.go (generator, recorder, Go oracles)',
            'ocaml/v_codec.ml scan_value: JSON value recogniser supplied as the model\'s scan_payload',
            'modelled, not verified: encoding/json appendString / scanner string states / unquoteBytes and '
            'unicode/utf8.DecodeRune of go1.24.0 (Codec.v, tied by the differential test)'] + TB_CONC[4:],
                assumptions=[
            'scan_payload_splits_marshal_output: encoding/json, at a payload json.Marshal produced and followed by the '
            'envelope\'s closing brace, consumes exactly that payload (payload encode/decode itself is encoding/json\'s; '
            'payload fidelity = JSON round trip is checked only by the Go oracle)',
            'ids are valid UTF-8 (otherwise C12_arbitrary_id_bytes: each malformed byte comes back as U+FFFD)',
            'job status is one of the five constants (Status() "Unknown" is unreachable)',
            'system level (event loop continues after a decode error, order of the jobs behind a bad entry, acknowledgement): controlled-scheduler family persist']),
    'C13': dict(module='Properties.C13', file='Properties/C13.v', slices=['job', 'wake', 'pool'],
                families=['dist', 'recover', 'multiq', 'bindwindow'],
                quick_episodes=500, thorough_episodes=6000,
                rule=SLICE_JOB_RULE + '; family dist: 1..3 consumers with concurrency 1..3 on one recording adapter (plain / priority), producers that are not consumers, binding before or after '
                     'items exist, notifications delivered by a goroutine of their own (delay and reordering are schedule choices); monitors: every item executed by exactly one consumer, the '
                     'adapter drained at rest, the consumers\' Submitted counters add up to the notifications delivered; the wake-up projection (coq/SliceWake.v) is replayed for single-consumer episodes',
                trusted_base=TB_CONC + ['the recording adapter stands for any user adapter (specification object)'],
                assumptions=['the adapter hands each pending item to one DequeueWithAckId caller and notifies every subscriber once per accepted item (adapter contract)',
                             'each consumer\'s wake-up protocol is replayed separately against the shared pending count; that the consumers together drain the adapter follows per consumer (a parked consumer with items pending below its limit has a notification buffered or owed) and is also monitored']),
    'C14': dict(module='Properties.C14', file='Properties/C14.v', slices=['life'],
                families=['lifeseq', 'lifecycle', 'pool', 'ctxstop'],
                quick_episodes=700, thorough_episodes=15000,
                rule='episodes of family lifeseq = generated sequences of 1..5 lifecycle calls (Bind, Pause, PauseAndWait, Resume, Stop, WaitAndStop, Restart, '
                     'TunePool incl. n<1, context cancel, interleaved Adds), with / without WithContext and idle expiry, executed one after the other with the '
                     'system run to rest in between, under the controlled scheduler (the asynchronous context listener, dispatcher, reaper interleave freely); '
                     'each (call, error, Status()) record is replayed on the extracted coq/Lifecycle.v; a worker that ends Running must process a probe job; '
                     'family lifecycle adds concurrent lifecycle calls under load (monitored); distinct_nontrivial = distinct schedule hashes',
                trusted_base=TB_CONC,
                assumptions=['calls are issued one after the other and the worker is at rest between them (concurrent lifecycle calls from several goroutines are explored by family lifecycle but not covered by the theorem)',
                             'after the user\'s context is cancelled every state decays to Stopped (a Restart derives its context from the cancelled one)',
                             '"Running means able to process" is checked by a probe job in every episode (and rests on the progress property C03)']),
    'C17': dict(module='Properties.C17', file='Properties/C17.v', slices=['batch'],
                families=['burst', 'lifecycle', 'saturate', 'multiq', 'persist', 'cancel', 'batch', 'dist', 'lenwindow'],
                quick_episodes=200, thorough_episodes=2500,
                diffs=[QUEUES_DIFF, MANAGER_DIFF], diff_footprint=['L', 'HL', 'MLEN', 'E', 'D', 'H+', 'H-', 'PV', 'HPV', 'validator:'],
                diff_oracles=['fifo.len', 'heap.len', 'mgr.len'],
                rule='records of the queue / manager differential tests (Len after every operation, compared with the extracted models) + episodes under the controlled '
                     'scheduler in which clients sample NumPending (queue, worker), NumProcessing, NumIdleWorkers and the metrics at arbitrary points (bounds) and at rest '
                     '(exactness: per-queue pending = accepted - dispatched - cancelled, worker pending = sum over queues, Submitted = accepted, Completed = Successful + Failed = finished); '
                     'distinct_nontrivial = distinct schedule hashes',
                trusted_base=TB_CONC,
                assumptions=['NumProcessing <= limit rests on the dispatcher reserving a slot only below the limit, with a single current event loop (C02)',
                             'metrics counters are single atomic adds (monitored, not modelled); Metrics().Reset() is excluded']),
    'C16': dict(module='Properties.C16', file='Properties/C16.v', slices=['job'],
                families=['burst', 'lifecycle', 'cancel', 'ctxstop', 'batch'],
                quick_episodes=350, thorough_episodes=4000,
                rule=SLICE_JOB_RULE, trusted_base=TB_CONC,
                assumptions=['jobs rebuilt by parseToJob from stored entries have no handle; their status word starts from whatever the entry says']),
    'C19': dict(module='Properties.C19', file='Properties/C19.v', slices=['hb', 'lock'],
                families=['apimix', 'ctlrace', 'lifecycle', 'burst', 'cancel', 'batch', 'pool', 'persist', 'dist', 'multiq', 'saturate', 'lifeseq', 'recover', 'order'],
                quick_episodes=250, thorough_episodes=3000, crash_props=['C03'],
                native=dict(scenarios=['racemix'], rounds=60, thorough_rounds=1500),
                rule='episodes = scenario programs run under the controlled scheduler on the instrumented library (see C01), plus family apimix (2..3 client goroutines issuing random sequences over the '
                     'whole public surface: submissions, batch submissions, handle reads, Close, Purge, Pause / Resume / Stop / Restart / TunePool, context cancel, Errs / Context / counters / metrics) so that '
                     'every pair of API calls overlaps; the rewriter also logs every plain (non-atomic) read and write of the watched library fields (list links and length, manager items and cursor, '
                     'response slot, worker channels / tickers / context, queue chunk pointers, heap slice and insertion counter, job ack id and queue); each execution is reduced to accesses + '
                     'acquire / release operations (table in go/harness/root/zz_verif_hb_test.go) and judged by the extracted, proved vector-clock detector race_check (traces_validated_against_impl '
                     'counts these blocks and the per-mutex lock-discipline blocks replayed on coq/Lockset.v); an independent Go detector must agree with it on every execution; native mode: the '
                     'unmodified library under the Go race detector, 60 (thorough 1500) rounds of eight concurrent API callers incl. two overlapping controllers; distinct_nontrivial = distinct schedule hashes',
                trusted_base=TB_CONC + ['the watch list of plain fields in go/instr/main.go (a field missing from it is only covered by the native race-detector runs)',
                                        'the acquire / release table of the projection (Go memory model: mutex, rwmutex, atomics, channels, go statement, WaitGroup, sync.Pool, context cancellation)',
                                        'Go race detector (native mode)'],
                assumptions=['the theorems say: the detector is exact on every execution, and a location whose accesses all follow the lock discipline cannot race on any schedule; that every execution of every client program is race-free is NOT a theorem — it is decided per explored execution (the property\'s own quantifier text), by the proved detector, the lock-discipline replay (which also flags unguarded accesses that happened to be ordered on the explored schedule) and the Go race detector',
                             'a plain access is logged at the start of the statement that contains it',
                             'locations handed over rather than locked (job.ackId, job.queue; anything touched only by its creator before publication) are judged by happens-before only',
                             'fields not on the watch list, the user\'s payload values, and memory of the Go runtime / standard library are outside the instrumented check (native mode covers them on the schedules the OS produces)']),
    'C18': dict(module='Properties.C18', file='Properties/C18.v', slices=['pool', 'disp'],
                families=['pool', 'lifecycle', 'lifeseq', 'burst', 'saturate', 'tuneshrink'],
                quick_episodes=300, thorough_episodes=4000,
                diffs=[LLIST_DIFF], diff_footprint=['LL+', 'LLPF', 'LLPB', 'LLR', 'LLLEN', 'LLS', 'validator:'], diff_oracles=['llist.'],
                rule='records of the idle-list differential test (internal/linkedlist against coq/LList.v: PushNode, PopBack, PopFront, Remove of members and of nodes that have left the list, Len, NodeSlice); episodes = scenario programs run under the controlled scheduler on the instrumented library (see C01); per pool node the log is projected onto coq/SlicePool.v '
                     '(creation + server spawn, PushNode, PopBack / successful Remove, job and stop payloads sent and received, Cache.Put) and replayed on the extracted model; family pool: '
                     'TunePool sequences under load, idle expiry with ticks racing dispatch (virtual time), min-idle ratios 1..100, Stop / Restart cycles with and without a context; monitors: '
                     'pool goroutines alive at once <= largest concurrency configured, idle workers <= configured minimum after the expiry elapsed, >= 1 idle worker at rest while running, '
                     'no library goroutine alive after Stop returned and the system came to rest (exact, from the scheduler); distinct_nontrivial = distinct schedule hashes',
                trusted_base=TB_CONC,
                assumptions=['"idle that long" is virtual time (the scheduler advances the clock to the next ticker deadline)',
                             'the bound on the number of nodes in service (<= limit + 1) follows from C02 (a node is created only under a reservation) and is monitored, not a theorem of the per-node model',
                             'event loop, reaper and context listener goroutines exiting after Stop: monitored (exact list of live goroutines at rest)']),
}
