"""Native mode: the unmodified library with real goroutines under the race detector
(go/harness/native). Returns monitor hits per property and the data races reported."""
import json, os, re
from . import common as C

NATIVE_FILE = os.path.join(C.VERIF, 'go', 'harness', 'native', 'zz_verif_native_test.go')


def run(ctx, scenarios, rounds, seed, race=True, timeout=900):
    out = os.path.join(ctx.work, 'native-%d.jsonl' % seed)
    ov = C.write_overlay(ctx, {os.path.join(C.REPO, 'zz_verif_native_test.go'): NATIVE_FILE}, 'ov-native.json')
    env = dict(C.GOENV, VERIF_OUT=out, VERIF_SEED=str(seed), VERIF_NATIVE_ROUNDS=str(rounds),
               VERIF_NATIVE_SCENARIOS=','.join(scenarios))
    args = []
    if race:
        env['CGO_ENABLED'] = '1'
        args.append('-race')
    cmd = ['go', 'test'] + args + ['-overlay', ov, '-vet=off', '-count=1', '-timeout', '%ds' % (timeout - 30),
                                   '-run', 'TestVerifNative', '.']
    rc, log = C.run(cmd, cwd=C.REPO, env=env, timeout=timeout)
    if rc != 0 and ('[build failed]' in log or '[setup failed]' in log):
        import time
        time.sleep(5)   # shared Go build cache: retry once (see purecore.run_diff)
        rc, log = C.run(cmd, cwd=C.REPO, env=env, timeout=timeout)
    hits, stats = [], {}
    if os.path.exists(out):
        for line in open(out):
            try:
                o = json.loads(line)
            except ValueError:
                continue
            if 'stats' in o:
                stats = o['stats']
            elif 'prop' in o:
                hits.append(o)
    races = []
    for blk in log.split('WARNING: DATA RACE')[1:]:
        blk = blk.split('==================')[0]
        locs = re.findall(r'^\s+(/\S+\.go:\d+)', blk, re.M)
        mod = [l for l in locs if l.startswith(C.REPO + '/') and 'zz_verif' not in l]
        key = tuple(mod[:2])
        races.append(dict(key=key, text='WARNING: DATA RACE' + blk[:3000]))
    built = rc == 0 or bool(stats) or bool(races)
    panicked = 'panic:' in log and not stats
    return dict(ok=built, rc=rc, hits=hits, races=races, stats=stats, log=log[-3000:], panicked=panicked)
