"""Checks for the concurrent properties: Coq slice theorems (obligations) + lock-step replay of
projected traces on the extracted slice models + model-independent monitors on histories
produced by the controlled scheduler."""
import json, os, re, time
from . import common as C, ctl


def coq_obligations(ctx, spec, broken):
    cov = ctx.cov
    bad = C.coq_hygiene()
    if bad:
        broken.append(('hygiene', 'forbidden construct in the Coq development: ' + '; '.join(bad[:5])))
    ok, log = C.coq_make(ctx)
    theorems = C.property_theorems(spec['file'])
    cov['obligations'] = len(theorems)
    cov['checker_cmd'] = 'make -C /verif/coq (coq_makefile, full .vo build, coqc 8.16.1); Print Assumptions per theorem'
    cov['discharged'] = 0
    if not ok:
        f, line = C.coq_failed_file(log)
        broken.append(('proof', 'Coq build failed at %s:%s\n%s' % (f, line, log[-1500:])))
        return
    try:
        assm = C.print_assumptions(ctx, spec['module'], theorems)
        cov['discharged'] = len(assm)
        cov['print_assumptions'] = assm
        for t, a in assm.items():
            if 'Closed under the global context' not in a:
                broken.append(('axioms', 'theorem %s is not closed: %s' % (t, a[:300])))
    except RuntimeError as e:
        broken.append(('proof', str(e)))
    if ctx.tier == 'thorough' and ok:
        ck, summ = C.coqchk(ctx, spec['module'])
        cov['coqchk'] = summ
        cov['checker_cmd'] += '; coqchk -silent -o VQ.' + spec['module']
        if not ck:
            broken.append(('coqchk', 'coqchk does not accept the compiled development: ' + summ[-600:]))


def slice_sample(path, n=1):
    out, cur = [], None
    try:
        with open(path) as f:
            for line in f:
                if line.startswith('JOB'):
                    cur = [line.strip()]
                elif cur is not None:
                    cur.append(line.strip())
                    if line.startswith('ENDJOB'):
                        if len(cur) > 12:
                            out.append(cur[:40])
                            if len(out) >= n:
                                break
                        cur = None
    except FileNotFoundError:
        pass
    return out


def explore(ctx, spec, bdir, episodes, seed, tag):
    slices = os.path.join(ctx.work, 'slices-%s.txt' % tag)
    if os.path.exists(slices):
        os.remove(slices)
    os.environ['VERIF_SLICES'] = slices
    os.environ['VERIF_SLICE_KINDS'] = ','.join(spec.get('slices', []))
    try:
        results, crashes, log = ctl.run_families(ctx, bdir, spec['families'], episodes, seed)
    finally:
        os.environ.pop('VERIF_SLICES', None)
        os.environ.pop('VERIF_SLICE_KINDS', None)
    hits = []
    for r in results:
        for v in r.get('violations', []):
            if v['prop'] == ctx.pid:
                hits.append((r, v))
    return results, crashes, hits, slices


def check(ctx, spec):
    cov = ctx.cov
    broken = []
    thorough = ctx.tier == 'thorough'
    coq_obligations(ctx, spec, broken)

    bdir, err = ctl.build(ctx)
    results, crashes, hits, mism = [], [], [], []
    blocks = 0
    if err:
        broken.append(err)
    else:
        episodes = spec.get('thorough_episodes', 2500) if thorough else spec.get('quick_episodes', 250)
        results, crashes, hits, slices = explore(ctx, spec, bdir, episodes, ctx.seed, 'main')
        if os.path.exists(slices) and spec.get('slices'):
            v, mm, out = C.validate_trace(slices)
            if v is None:
                broken.append(('validator', 'slice validator crashed: ' + out[-500:]))
            else:
                blocks = v['checked']
                mism = [m for m in mm if any(('slice ' + sl) in m for sl in spec['slices']) or 'validator:' in m]
                if mism:
                    broken.append(('correspondence', 'a projected trace of the implementation is not a trace of the model: ' + mism[0]))
        for c in crashes:
            if ctx.pid in spec.get('crash_props', ['C03']):
                hits.append(({'family': c['family'], 'seed': c['seed'], 'strategy': c['strategy'], 'params': {}},
                             {'prop': ctx.pid, 'kind': 'runaway', 'detail': 'library code looped without reaching a synchronisation operation (%s)' % c['reason']}))
            else:
                ctx.notes.append('episode %s/%s crashed (%s); reported by the C03 check' % (c['family'], c['seed'], c['reason']))

    # optional differential runs on pure cores that the property also rests on
    diff_hits = []
    if spec.get('diffs'):
        from . import purecore
        fp = set(spec.get('diff_footprint', []))
        for d in spec['diffs']:
            r = purecore.run_diff(ctx, d, ctx.seed, 1, 'conc')
            if not r['ok']:
                broken.append(('harness-build', 'differential harness %s failed:\n%s' % (d['name'], r['log'][-2000:])))
                continue
            v, mm, out = C.validate_trace(r['trace'])
            if v is None:
                broken.append(('validator', out[-500:]))
                continue
            mm = [m for m in mm if (m.split()[2] if len(m.split()) > 2 else '?') in fp or 'validator:' in m]
            if mm:
                broken.append(('correspondence', 'model and implementation disagree (%s): %s' % (d['name'], mm[0])))
            cov.setdefault('diff_records', 0)
            cov['diff_records'] += v['checked']
            for vl in r['viols']:
                if any(vl.split()[1].startswith(p) for p in spec.get('diff_oracles', [])):
                    diff_hits.append((d, vl))
    if diff_hits and not hits:
        d, vl = diff_hits[0]
        path = C.write_replay(ctx, 'diff-seed%d' % ctx.seed, {'property': ctx.pid, 'kind': 'failing-input', 'harness': d['name'],
                                                          'seed': ctx.seed, 'oracle': vl})
        ctx.violations.append((path, ''))

    # native mode (unmodified library, real scheduler, race detector)
    if spec.get('native'):
        from . import native
        nv = native.run(ctx, spec['native']['scenarios'], spec['native'].get('thorough_rounds', 400) if thorough else spec['native'].get('rounds', 25), ctx.seed)
        cov['native'] = dict(scenarios=spec['native']['scenarios'], stats=nv['stats'], races=len(nv['races']))
        if not nv['ok']:
            broken.append(('harness-build', 'native harness failed to build / run:\n' + nv['log']))
        for h in nv['hits']:
            if h['prop'] == ctx.pid:
                hits.append(({'family': 'native', 'seed': ctx.seed, 'strategy': 'native', 'params': {}}, h))
        if ctx.pid == 'C19':
            seen = set()
            for rc_ in nv['races']:
                if rc_['key'] in seen:
                    continue
                seen.add(rc_['key'])
                hits.append(({'family': 'native', 'seed': ctx.seed, 'strategy': 'native', 'params': {}},
                             {'prop': 'C19', 'kind': 'data-race', 'detail': rc_['text']}))
        if nv['panicked'] and ctx.pid in spec.get('crash_props', ['C03', 'C19']):
            hits.append(({'family': 'native', 'seed': ctx.seed, 'strategy': 'native', 'params': {}},
                         {'prop': ctx.pid, 'kind': 'panic', 'detail': nv['log'][-1500:]}))

    fam = ctl.summarize(results)
    cov['evaluations'] = len(results)
    cov['distinct_nontrivial'] = sum(f['distinct'] for f in fam.values())
    cov['rule'] = spec['rule']
    cov['traces_validated_against_impl'] = blocks
    cov['model_mismatches'] = len(mism)
    cov['families'] = {k: {kk: vv for kk, vv in f.items()} for k, f in fam.items()}
    cov['trusted_base'] = spec['trusted_base']
    cov['monitor_hits'] = len(hits)
    samples = []
    for r in results[:2]:
        samples.append({k: r[k] for k in ('family', 'seed', 'strategy', 'params', 'events', 'jobs', 'executed', 'sched_hash') if k in r})
    if not err:
        samples += slice_sample(os.path.join(ctx.work, 'slices-main.txt'))
    cov['samples'] = samples or ['no episode ran']

    known = C.known_findings().get('open', [])
    if hits:
        reported = set()
        for r, v in hits:
            kf = [k for k in known if k.get('property') == ctx.pid and k.get('kind') == v['kind'] and
                  (not k.get('family') or k['family'] == r['family'])]
            if kf:
                line = '%s: %s' % (kf[0]['id'], kf[0]['what'])
                if line not in ctx.known:
                    ctx.known.append(line)
                continue
            key = (r['family'], v['kind'], v['detail'][:200] if v['kind'] == 'data-race' else '')
            if key in reported:
                continue
            reported.add(key)
            path = C.write_replay(ctx, '%s-%s-%s' % (r['family'], r['seed'], v['kind']), {
                'property': ctx.pid, 'kind': 'failing-history', 'family': r['family'], 'seed': r['seed'],
                'strategy': r['strategy'], 'params': r.get('params'), 'monitor': v,
                'replay': 'bin/check %s --replay <this file> (re-executes the same schedule and dumps the event log)' % ctx.pid})
            ctx.violations.append((path, ''))
            if len(ctx.violations) >= 3:
                break
    elif broken and not ctx.violations:
        found = None
        if bdir:
            for i in range(spec.get('search_rounds', 3)):
                res2, cr2, hits2, _ = explore(ctx, spec, bdir, spec.get('search_episodes', 1500), ctx.seed + 7919 * (i + 1), 'search%d' % i)
                if hits2:
                    found = hits2[0]
                    break
        if found:
            r, v = found
            path = C.write_replay(ctx, '%s-%s-%s' % (r['family'], r['seed'], v['kind']), {
                'property': ctx.pid, 'kind': 'failing-history', 'family': r['family'], 'seed': r['seed'],
                'strategy': r['strategy'], 'params': r.get('params'), 'monitor': v,
                'no_longer_checks': [{'what': w, 'detail': d} for w, d in broken]})
            ctx.violations.append((path, ''))
        else:
            path = C.write_replay(ctx, 'broken', {
                'property': ctx.pid, 'kind': 'no-failing-input-found',
                'no_longer_checks': [{'what': w, 'detail': d} for w, d in broken],
                'searched': '%d extra rounds of %d episodes per family with the monitors found no failing history'
                            % (spec.get('search_rounds', 3), spec.get('search_episodes', 1500))})
            ctx.violations.append((path, 'no-failing-input-found'))
    return C.finish(ctx, 'proof', spec['assumptions'])


def replay(ctx, spec, path):
    rp = json.load(open(path))
    if rp.get('kind') != 'failing-history':
        return check(ctx, spec)
    bdir, err = ctl.build(ctx)
    if err:
        print('cannot build the harness:', err[1][-500:])
        ctx.violations.append((path, 'no-failing-input-found'))
        return C.finish(ctx, 'proof', spec['assumptions'])
    tracedir = os.path.join(C.VERIF, 'replays', 'logs')
    results, crashes, log = ctl.run_families(ctx, bdir, [rp['family']], 1, 0, tracedir=tracedir,
                                             replay='%s:%s:%s' % (rp['family'], rp['seed'], rp['strategy']))
    hit = False
    for r in results:
        for v in r.get('violations', []):
            if v['prop'] == ctx.pid:
                print('%s/%s/%s: %s %s: %s' % (r['family'], r['seed'], r['strategy'], v['prop'], v['kind'], v['detail']))
                hit = True
    print('event log: %s/%s-%s-%s.log' % (tracedir, rp['family'], rp['seed'], rp['strategy']))
    ctx.cov.update(evaluations=len(results), distinct_nontrivial=len(results), explanation='replay of ' + path)
    if hit or crashes:
        ctx.violations.append((path, ''))
    return C.finish(ctx, 'proof', spec['assumptions'])
