"""Writes /verif/MANIFEST.json from the table below (run: python3 lib/vcheck/manifest_gen.py)."""
import json, os, sys
VERIF = os.path.abspath(os.path.join(os.path.dirname(__file__), '..', '..'))

ALL = ['C%02d' % i for i in range(1, 20)]

CLAIMED = {
    'C04': dict(
        text='Machine-checked refinement theorems (all inputs, all lengths, all capacity settings): the segmented FIFO refines a '
             'list (enqueue appends, dequeue returns the oldest); the (Priority, Index) binary heap built on container/heap '
             'returns the least pending element with ties broken by acceptance order. The models are tied to the code on every '
             'run by a differential test that replays recorded operation sequences, including segment-boundary crossings and '
             'the heap array layout, on the extracted model.',
        note='Trusted: Coq kernel, extraction (ExtrOcamlBasic), OCaml record parser, the Go recorder; container/heap modelled '
             'from the standard library source. System-level part (concurrent producers, dispatcher) is argued from the queue '
             'mutex making each operation atomic and is validated by the controlled-scheduler order monitor.',
        technique='Coq refinement proof of pure core + differential test against extracted model', ref='5 C04'),
}

NA_REASON = 'check not built yet in this round (work in progress; see DESIGN.md section 9 for the order of work)'


def main():
    checks = []
    for pid in ALL:
        if pid not in CLAIMED:
            continue
        c = CLAIMED[pid]
        checks.append({
            'property_id': pid,
            'quick_cmd': 'bin/check %s --tier quick' % pid,
            'thorough_cmd': 'bin/check %s --tier thorough' % pid,
            'evidence_file': '/verif/evidence/%s.json' % pid,
            'replay_cmd_template': 'bin/check %s --replay {path}' % pid,
            'engine': 'coq-model',
            'level_claimed': {'category': 'proof', 'text': c['text'], 'design_ref': c['ref']},
            'level_note': c['note'],
            'technique': c['technique'],
        })
    m = {
        'version': 1,
        'setup_cmd': 'make -C /verif setup',
        'hooks': {
            'guard': 'verif',
            'enable': 'no guarded code in /repo: checks inject instrumentation and harness files with `go test -overlay` generated from /verif',
            'baseline_off_cmd': 'cd /repo && GOFLAGS=-mod=mod GOPROXY=off go test -vet=off -count=1 ./...',
            'source_commits': [],
            'add_only': True,
        },
        'engines': [{'name': 'coq-model', 'path': '/verif/coq', 'serves_properties': sorted(CLAIMED),
                     'kind_free_text': 'hand-written executable Gallina models + Coq proofs; tied to /repo by differential tests / lock-step trace validation against the extracted model (OCaml)'}],
        'checks': checks,
        'not_applicable': [{'property_id': p, 'reason': NA_REASON} for p in ALL if p not in CLAIMED],
        'notes': 'fix: commits in /repo are unguarded repairs recorded in /verif/known_findings.json',
    }
    json.dump(m, open(os.path.join(VERIF, 'MANIFEST.json'), 'w'), indent=1)


if __name__ == '__main__':
    main()
