"""Writes /verif/MANIFEST.json from the table below (run: python3 lib/vcheck/manifest_gen.py)."""
import json, os, sys
VERIF = os.path.abspath(os.path.join(os.path.dirname(__file__), '..', '..'))

ALL = ['C%02d' % i for i in range(1, 20)]

PURE_NOTE = ('Trusted: Coq kernel, extraction (ExtrOcamlBasic), OCaml record parser, the Go recorder and its generator. '
             'The Go standard-library pieces involved are modelled from their source and tied by the differential test.')
CONC_NOTE = ('Theorems are about the slice model coq/SliceJob.v (one step = one synchronisation operation on the job). The tie to the code is '
             'checked on every run: the instrumented library is executed under a controlled scheduler and, per job object, the projected event '
             'sequence must be a trace of the extracted model (any new or reordered operation on the status word / wait group is rejected). '
             'Trusted: Coq kernel, extraction, the rewriter + shim runtime (sequentially consistent interleavings at synchronisation-operation '
             'granularity), the projection, the harness. Monitors only search for / confirm concrete failing histories.')

CLAIMED = {
    'C01': dict(
        text='Machine-checked: in every schedule the worker function is entered at most once per job, only on a job a dispatcher '
             'claimed after its queue handed it out, never on a rejected submission and never after a cancel/purge that succeeded '
             'before the start (inductive invariant of the per-job protocol, all event lists). Lock-step replay of projected traces '
             'ties the model to the code; the exactly-once / identity / eventually-runs parts are additionally monitored on every '
             'explored history (scenario families over all worker and queue kinds, lifecycle calls, idle expiry). Also machine-checked and replayed: the submission that makes work dispatchable is announced to the event loop (wake-up model), a dispatched job finds a live pool goroutine (pool-node model), and the idle list\'s Remove answers true exactly for a member and takes it out (list model, tied to internal/linkedlist by a differential test) — the answer the reaper, Stop and the dispatcher use to decide who owns a node.',
        note=CONC_NOTE + ' "Eventually runs" is C03; per-queue exactly-once hand-out is C04. Further models: coq/SliceWake.v, coq/SlicePool.v, coq/LList.v.',
        technique='Coq inductive invariant over a per-job transition system + lock-step trace validation', ref='5 C01'),
    'C02': dict(
        text='Machine-checked: the worker functions in progress never exceed curProcessing; curProcessing grows only at a reservation; a reservation goes on (to the status re-check, the dequeue, '
             'the dispatch) only if the value its own Add returned — curProcessing with itself counted — is within the limit the same thread loads next, otherwise it can only be handed back. '
             'So at the instant of every reservation that leads to a dispatch, everything in flight is within the limit then in effect (after TunePool(n) every later reservation loads n), for any '
             'number of concurrently reserving threads — there is no single-event-loop assumption (a stale loop racing its successor after Restart is covered). The model follows one arbitrary job '
             'exactly and the rest through counters; per-job projections of the whole log are replayed on the extracted model on every run. Peak in-flight invocations against the limits set through '
             'the API (configuration, TunePool; Bind / Resume / Restart must not change it) are monitored on every explored history: gated worker functions, TunePool up / down, a second wave after '
             'Restart / Pause+Resume / Bind, and a directed schedule holding the event loop before its reservation across a Restart.',
        note='Theorems are about coq/SliceDisp.v. Trusted: Coq kernel, extraction, rewriter + shim runtime, projection, harness.',
        technique='Coq inductive invariant over a one-job-plus-counters transition system + lock-step trace validation', ref='5 C02'),
    'C03': dict(
        text='Machine-checked: whenever the event loop is parked on its signal channel while its guard (running, below the limit, something pending) is true, a signal is buffered or a '
             'thread is about to send one; hence at rest nothing dispatchable remains (min(pending, limit) jobs are in flight); a buffered signal is never lost; notifying never blocks. '
             'The model requires every step that makes work dispatchable to be followed by a notify — replayed against the worker-level projection of every explored execution. The '
             'controlled scheduler detects quiescence exactly: unfinished scenarios, library goroutines parked outside their idle points, accepted jobs never run, missing saturation '
             'with gated worker functions and runaway loops are violations; a native burst across the FIFO\'s real segment sizes must drain, and a batch of more than 1024 items must complete unread. Also machine-checked and replayed: a batch\'s stream has one slot per item, so no item\'s send waits for a reader (batch model); a dispatched job is received by a live pool goroutine (pool-node and idle-list models); the worker\'s reader/writer lock is never taken in read mode by a thread that holds it (lock model: no self-deadlock through a waiting writer).',
        note='"Eventually" is rendered as "at rest"; that rest is reached is observed per execution (no ranking-function theorem). Theorems are about coq/SliceWake.v, coq/SliceBatch.v, coq/SlicePool.v, coq/LList.v, coq/Lockset.v. '
             'Trusted: Coq kernel, extraction, rewriter + shim runtime, projection, harness.',
        technique='Coq inductive invariant over the wake-up protocol + lock-step trace validation + exact quiescence detection', ref='5 C03'),
    'C04': dict(
        text='Machine-checked refinement theorems (all inputs, all lengths, all capacity settings): the segmented FIFO refines a '
             'list (enqueue appends, dequeue returns the oldest); the (Priority, Index) binary heap built on container/heap '
             'returns the least pending element with ties broken by acceptance order. The models are tied to the code on every '
             'run by a differential test that replays recorded operation sequences, including segment-boundary crossings and '
             'the heap array layout, on the extracted model.',
        note=PURE_NOTE + ' System-level part (concurrent producers, dispatcher) is argued from the queue mutex making each operation atomic '
             'and is validated by the controlled-scheduler order monitor (family order).',
        technique='Coq refinement proof of pure core + differential test against extracted model', ref='5 C04'),
    'C05': dict(
        text='Machine-checked: Wait on a job handle is enabled only once the job is Closed, and a job becomes Closed only after its '
             'worker function returned or without ever starting (cancelled, purged, rejected); once enabled it stays enabled for '
             'every caller. Lock-step replay ties the model to the code; early / never returning Wait, Result, Err and batch Wait '
             'are monitored on every explored history (also on user queues that implement IAcknowledgeable and refuse acknowledgements). The wake-up model is replayed too: a freed slot is announced to the event loop.',
        note=CONC_NOTE + ' Liveness ("they do return") rests on C03.',
        technique='Coq inductive invariant over a per-job transition system + lock-step trace validation', ref='5 C05'),
    'C06': dict(
        text='Machine-checked: an accepted job is always visible to the barriers — counted by its queue\'s Len or, from before it leaves the queue until after its worker function '
             'returned, by curProcessing — hence WaitUntilFinished (Len of every queue read 0, then curProcessing read 0) returns only when every job accepted before the call has '
             'finished or been cancelled, and PauseAndWait / Stop / WaitAndStop (curProcessing read 0) return only when no worker function is executing. Per-job projections of the '
             'whole log are replayed on the extracted model; early and never-returning barriers are monitored on every explored history (exact quiescence detection). No missed wake-up: once a step '
             'has turned the callers\' condition false and nobody has broadcast since, a thread holds a new obligation (it goes on to releaseWaiters, to broadcast, or to notify the event loop) or the buffered '
             'signal carries one; the model refuses a step that ends the wait and walks away; per-episode projections (status, curProcessing, queue lengths, releaseWaiters, Broadcast, notify / receive / close) are replayed on it. The calls themselves are model events (coq/SliceBar.v): PauseAndWait / Stop / WaitAndStop return nil only to a caller that, inside its call, read 0 in flight on a halted worker (or Stopped under an earlier caller\'s hold) — each of several concurrent callers on its own; the worker lock is never read-locked recursively (coq/Lockset.v).',
        note='Theorems are about coq/SliceDisp.v + coq/SliceBar.v (exactness, per call) and coq/SliceBarrier.v (who owes the broadcast). That the owner of an obligation gets to act is progress (C03), observed by the quiescence monitor. Trusted: Coq kernel, extraction, rewriter + shim runtime, projection, harness.',
        technique='Coq inductive invariant over a one-job-plus-counters transition system + lock-step trace validation', ref='5 C06'),
    'C07': dict(
        text='Machine-checked: every Result() / Err() call on a handle — received from the per-job response channel or read back after its close — yields the value that job\'s own worker '
             'function produced (zero value if none), identically for all callers, never before the outcome is buffered or the response closed; the response is closed once; the wrappers map a '
             'panic to that job\'s error, counted as failed and offered on the error channel. Per-job response projections are replayed on the extracted model; all returned values, batch stream '
             'elements and Failed / Successful counts are compared with a pure function of the job data on every explored history (random value / error / panic outcomes).',
        note='The wrappers are modelled as a pure function (checked by monitors, not lock-step). Trusted: Coq kernel, extraction, rewriter + shim runtime, projection, harness.',
        technique='Coq invariant over the response channel protocol + lock-step trace validation + outcome monitors', ref='5 C07'),
    'C08': dict(
        text='Machine-checked, for every batch size >= 0 and every interleaving of finishing items: the stream is closed at most once, '
             'the closer always finds it open, an unfinished item always finds it open (no send on closed), the wait group never goes '
             'negative, NumPending = items not yet done, batch Wait is enabled exactly at 0, and at rest a completed batch is closed. '
             'Lock-step replay of per-batch and per-item projections ties the models to the code; stream contents (one result per '
             'executed item, tagged, then close), empty batches, rejected / purged items are monitored on every explored history.',
        note=CONC_NOTE.replace('coq/SliceJob.v', 'coq/SliceBatch.v and coq/SliceJob.v'),
        technique='Coq inductive invariant over the batch counter/stream transition system + lock-step trace validation', ref='5 C08'),
    'C09': dict(
        text='Machine-checked (Dekker-style argument on the two atomics, as an inductive invariant): once a barrier caller has read curProcessing = 0 on a Paused / Stopped worker, '
             'no worker function is executing, no dispatcher can dequeue, claim or start a job, and this lasts until Running / Initiated is stored (Resume, Restart); a reservation '
             're-checked after the Pause store is returned unused; status stores leave the queues untouched. Per-job projections are replayed on the extracted model; starts between '
             'a barrier return and the next Resume / Restart are monitored on every explored history. "Has returned" is a model event (coq/SliceBar.v): the nil-return of a barrier call is enabled only for a caller that established the hold inside its call, and the caller stays covered until Running / Initiated is stored. "Pending jobs resume": the wake-up model is replayed (a resumed worker with pending jobs below its limit is never left asleep), with submissions that straddle the Resume / Restart.',
        note='Theorems are about coq/SliceDisp.v, coq/SliceBar.v, coq/SliceWake.v. Trusted: Coq kernel, extraction, rewriter + shim runtime (sequentially consistent atomics), projection, harness.',
        technique='Coq inductive invariant over a one-job-plus-counters transition system + lock-step trace validation', ref='5 C09'),
    'C10': dict(
        text='Machine-checked: a Close that returns nil before the start makes the job cancelled for good (never executed afterwards); '
             'at most one Close returns nil, the job is closed by exactly one compare-and-swap claim, its waiters are released at '
             'most once and the wait group never goes negative; a closed queue rejects with no effect. Lock-step replay ties the '
             'model to the code; cancel/purge/queue-close races are monitored on every explored history. For items of a batch the batch model is replayed as well (stream closed at most once, never sent to after the close, wait group never negative), and Purge hands out every pending element (queue differential test, segments of 1..18 slots; native: purged batches of more than 1024 items).',
        note=CONC_NOTE,
        technique='Coq inductive invariant over a per-job transition system + lock-step trace validation', ref='5 C10'),
    'C11': dict(
        text='Machine-checked: in every reachable state (= every crash point) a delivered item has been acknowledged at most once and '
             'only after its worker function returned; the acknowledgement step is enabled only for the goroutine that ran the job, '
             'after Finished was stored. Lock-step replay ties the model (incl. the Acknowledge call inside job.Close) to the code. '
             'Adapter call logs are monitored on every explored history: ack ids issued by the adapter, ack after processing, nothing '
             'lost, recovery of a pre-loaded adapter without prompting; acknowledge / dequeue / enqueue faults injected.',
        note=CONC_NOTE + ' The adapter is a specification object (recording adapter).',
        technique='Coq inductive invariant over a per-job transition system + lock-step trace validation', ref='5 C11'),
    'C12': dict(
        text='Machine-checked: every valid-UTF-8 ID survives Go\'s JSON string encoding/decoding (all escape classes, all scalar values); '
             'the five status strings round-trip and unknown ones are rejected; decode(encode(id, status, payload)) returns the same '
             'triple under the stated assumption on encoding/json for payloads; unencodable payloads are rejected with no effect. '
             'The byte-level model is tied to job.Json / parseToJob on every run by a differential test with generated ids, payloads '
             'and malformed entries.',
        note=PURE_NOTE + ' Payload fidelity itself is encoding/json\'s (assumed, checked differentially). Isolation of bad entries at system level: family persist.',
        technique='Coq round-trip proof of the envelope codec + differential test against extracted model', ref='5 C12'),
    'C13': dict(
        text='Machine-checked: an item delivered to a consumer is executed at most once and acknowledged at most once, only after processing (per-item protocol); a consumer parked with '
             'items pending below its limit has a notification buffered or on its way, so at rest the shared queue is drained (wake-up protocol, with start()\'s unconditional notify covering '
             'items present before the bind). Lock-step replay of per-item projections and of one wake-up projection PER CONSUMER of the shared adapter (its pending count is each consumer\'s; an '
             'accepted item is a foreign enqueue with one notification owed to every subscribed consumer; a consumer counts the adapter from its Register and is owed notifications from its '
             'Subscribe); with 1..3 consumers on one recording adapter the monitors check exactly-one execution, drain at rest and Submitted = notifications delivered; a directed schedule places '
             'an item between a consumer\'s start() and its Subscribe.',
        note='The shared adapter is a specification object. The consumers are not composed in one model: each is replayed against the shared pending count. Trusted: Coq kernel, extraction, rewriter + shim runtime, projection, harness.',
        technique='Coq invariants (per-item protocol, wake-up protocol) + lock-step trace validation per consumer + multi-consumer monitors', ref='5 C13'),
    'C14': dict(
        text='Machine-checked: the status logic of every lifecycle call, as coded, returns the documented error and leaves the documented status '
             '(Initiated; Running <-> Paused; Stopped; Restart back to Running; Bind starts a fresh worker and otherwise changes nothing; a cancelled '
             'context stops the worker for good), hence so does every call sequence of any length. The model is replayed against recorded '
             '(call, error, Status) sequences of the real library run to rest between calls under the controlled scheduler; a worker reporting Running must '
             'process a probe job.',
        note='Sequential model (calls one after the other, system at rest in between); concurrent lifecycle callers are explored and monitored but not covered by the theorem. '
             'Trusted: Coq kernel, extraction, rewriter + shim runtime, harness.',
        technique='Coq refinement of a call-level state machine to the documented machine + replay of recorded call sequences', ref='5 C14'),
    'C15': dict(
        text='Machine-checked, for every number of queues and every length vector: RoundRobin picks the next non-empty queue in cyclic '
             'binding order and advances the cursor past it; two queues that stay non-empty differ by at most one dispatch; a non-empty '
             'queue is served within n selections; MaxLen/MinLen pick the first longest / shortest non-empty queue (MaxLen under 0 <= Len). '
             'Tied to helpers.Manager by a differential test; the dispatch sequence of a multi-queue worker is compared with a reference '
             'selector under the controlled scheduler.',
        note=PURE_NOTE + ' Assumes Len() is stable during one selection and each queue is registered once (the latter was violated: fixed, dd1cc3e).',
        technique='Coq proofs of selection + fairness on a pure model + differential test', ref='5 C15'),
    'C16': dict(
        text='Machine-checked: no step of any thread moves a job\'s status backwards; it is Processing while the worker function runs; '
             'Wait returns only on a Closed job and Closed is final. Lock-step replay ties the model to the code; status samples '
             'taken by clients at arbitrary points are checked for monotonicity on every explored history.',
        note=CONC_NOTE,
        technique='Coq inductive invariant over a per-job transition system + lock-step trace validation', ref='5 C16'),
    'C17': dict(
        text='Machine-checked: a FIFO queue\'s Len() equals the number of pending elements in every reachable state (one length word updated under the queue lock: '
             'never negative, never above accepted); the worker\'s NumPending is the sum over its queues; a batch\'s NumPending is the number of unfinished items. '
             'Differential tests tie Len of both queue kinds and of the manager to the code; counts and metrics sampled by clients at arbitrary points (bounds) and at '
             'rest (exactness) are monitored on every explored history.',
        note='Trusted: Coq kernel, extraction, Go recorders, rewriter + shim runtime, harness. NumProcessing <= limit rests on C02; metrics are monitored, not modelled.',
        technique='Coq exactness proofs for the length counters + differential tests + sampled-history monitors', ref='5 C17'),
    'C18': dict(
        text='Machine-checked, per pool node and for every interleaving of dispatcher, reaper, TunePool, Stop / Restart and completions: the goroutines serving a node are one while it is in '
             'service plus one per unconsumed stop payload, none once it is out of service and its stop was consumed; a job handed to a node always finds a live goroutine with no stop ahead of it '
             'and is receivable; jobs sent = received + in channel. Only the thread that took a node out of the idle list may send to it: per-node projections are replayed on the extracted model. '
             'Pool size bound, idle trimming after expiry (virtual time), one idle worker at rest and the exact list of goroutines alive after Stop are monitored on every explored history.',
        note='Theorems are about coq/SlicePool.v (one node). The bound on the number of nodes rests on C02 and is monitored. Trusted: Coq kernel, extraction, rewriter + shim runtime (virtual time), projection, harness.',
        technique='Coq inductive invariant over a per-node ownership/channel transition system + lock-step trace validation', ref='5 C18'),
    'C19': dict(
        text='Machine-checked: (1) the vector-clock race detector run on every explored execution is exact — it accepts an execution iff no two conflicting plain accesses by different threads '
             'are unordered by happens-before (program order + release-before-acquire, transitively closed), and a reported pair is a real race of that execution, for executions of any length; '
             '(2) in every trace that follows the lock discipline, two conflicting accesses by different threads are separated by a release by the first and an acquisition by the second, one of '
             'them exclusive — so a location whose accesses all follow the discipline cannot race on any schedule. Tie to the code on every run: the rewriter logs every plain access to the '
             'watched library fields; each execution of 13 scenario families (incl. apimix: all pairs of public API calls overlapping) is judged by the extracted detector, cross-checked by an '
             'independent Go detector, and its per-mutex projections are replayed on the lock-discipline model; the unmodified library also runs under the Go race detector with eight concurrent '
             'API callers. Partial in the sense the property itself states: race freedom of all programs and schedules is decided per explored execution, not proved.',
        note='Theorems are about coq/HB.v (detector exactness) and coq/Lockset.v (discipline => ordering). Not covered by the instrumented check: fields not on the watch list, payload memory, the Go runtime; '
             'native -race runs cover those on OS schedules. Trusted: Coq kernel, extraction, rewriter + shim runtime, the acquire/release table of the projection, harness, Go race detector.',
        technique='Coq proof of an exact happens-before race detector (extracted, run on every explored execution) + Coq lock-discipline theorem with lock-step trace validation + Go race detector runs', ref='5 C19'),
}

NA_REASON = 'check not built yet in this round (work in progress; see DESIGN.md section 9 for the order of work)'


def main():
    checks = []
    for pid in ALL:
        if pid not in CLAIMED:
            continue
        c = CLAIMED[pid]
        checks.append({
            'property_id': pid,
            'quick_cmd': 'bin/check %s --tier quick' % pid,
            'thorough_cmd': 'bin/check %s --tier thorough' % pid,
            'evidence_file': '/verif/evidence/%s.json' % pid,
            'replay_cmd_template': 'bin/check %s --replay {path}' % pid,
            'engine': 'coq-model',
            'level_claimed': {'category': 'proof', 'text': c['text'], 'design_ref': c['ref']},
            'level_note': c['note'],
            'technique': c['technique'],
        })
    m = {
        'version': 1,
        'setup_cmd': 'make -C /verif setup',
        'hooks': {
            'guard': 'verif',
            'enable': 'no guarded code in /repo: checks inject instrumentation and harness files with `go test -overlay` generated from /verif',
            'baseline_off_cmd': 'cd /repo && GOFLAGS=-mod=mod GOPROXY=off go test -vet=off -count=1 ./...',
            'source_commits': [],
            'add_only': True,
        },
        'engines': [{'name': 'coq-model', 'path': '/verif/coq', 'serves_properties': sorted(CLAIMED),
                     'kind_free_text': 'hand-written executable Gallina models + Coq proofs; tied to /repo by differential tests / lock-step trace validation against the extracted model (OCaml)'}],
        'checks': checks,
        'not_applicable': [{'property_id': p, 'reason': NA_REASON} for p in ALL if p not in CLAIMED],
        'notes': 'fix: commits in /repo are unguarded repairs recorded in /verif/known_findings.json',
    }
    json.dump(m, open(os.path.join(VERIF, 'MANIFEST.json'), 'w'), indent=1)


if __name__ == '__main__':
    main()
