#!/bin/bash
# builds the trace validator from the extracted model (coq/extracted/model.ml) + drivers
set -e
cd "$(dirname "$0")"
mkdir -p _build
cp ../coq/extracted/model.ml ../coq/extracted/model.mli _build/
cp reg.ml v_*.ml main.ml _build/
cd _build
ocamlfind ocamlopt -O2 -w -a -o ../validate model.mli model.ml reg.ml $(ls v_*.ml | sort) main.ml 2>&1 || \
ocamlfind ocamlopt -w -a -o ../validate model.mli model.ml reg.ml $(ls v_*.ml | sort) main.ml
