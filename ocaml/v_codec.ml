(* v_codec.ml — replays the records of go/harness/root/zz_verif_codec_test.go on the extracted
   Codec model (encode_env / encode_env_bytes / decode_env / submit_entry).

   TRUSTED GLUE: [scan_value] below is the payload scanner handed to the model's decode_env as its
   Section variable scan_payload. It is a plain recursive-descent recogniser of one JSON value
   (RFC 8259 grammar as encoding/json's scanner implements it: no leading white space, white space
   allowed inside arrays/objects, strings with the escapes quote backslash slash b f n r t uXXXX and
   no raw control characters, numbers = optional minus, 0 or a digit string without leading zero, optional fraction, optional
   exponent; true / false / null).
   It stands for encoding/json's own delimiting of the payload, which the Coq development assumes
   (CodecProofs.scan_payload_splits_marshal_output) and does not verify.

   Boundary of the model on the hand-made / mutated entries (records CM):
     - decode_env accepts only the exact layout json.Marshal produces. Where the model answers
       Malformed and Go accepts the entry or gets as far as the status switch (white space, other key
       order, extra / missing / duplicate / case-folded / escaped keys, null for a field), the record is
       counted as out_of_model_shape and is NOT a mismatch.
     - the model does not know the payload type T. On records CM t (typed T) where the model accepts
       the envelope but Go reports a parse error (payload does not fit T), the record is counted as
       out_of_model_typed and is NOT a mismatch; the payload bytes are not compared on CM t.
     Everything else must agree exactly (result class, id runes, status, payload bytes). *)
open Reg

let byte_tab : M.n array = Array.init 256 n_of_int

let rec int_of_pos (p : M.positive) : int = match p with
  | M.XH -> 1
  | M.XO q -> 2 * int_of_pos q
  | M.XI q -> 2 * int_of_pos q + 1
let fast_int_of_n = function M.N0 -> 0 | M.Npos p -> int_of_pos p

let hexv c = match c with
  | '0'..'9' -> Char.code c - 48
  | 'a'..'f' -> Char.code c - 87
  | 'A'..'F' -> Char.code c - 55
  | _ -> failwith "bad hex"

(* hex string ("-" = empty) -> model bytes *)
let bytes_of_hex (s : string) : M.n list =
  if s = "-" then [] else begin
    if String.length s mod 2 <> 0 then failwith "odd hex";
    let r = ref [] in
    for i = String.length s / 2 - 1 downto 0 do
      r := byte_tab.(hexv s.[2 * i] * 16 + hexv s.[2 * i + 1]) :: !r
    done;
    !r
  end

let show_bytes (l : M.n list) : string =
  let b = Buffer.create 64 in
  List.iter (fun x -> let c = fast_int_of_n x in
              if c >= 32 && c < 127 then Buffer.add_char b (Char.chr c)
              else Buffer.add_string b (Printf.sprintf "\\x%02x" (c land 255))) l;
  let s = Buffer.contents b in
  if String.length s > 160 then String.sub s 0 160 ^ "..." else s

(* "<n> x1 .. xn" at the front of the argument list *)
let take_counted (a : string list) : M.n list * string list =
  match a with
  | [] -> failwith "count missing"
  | n :: rest ->
      let n = int_of_string n in
      let rec go k acc rest =
        if k = 0 then (List.rev acc, rest)
        else match rest with
          | x :: r -> go (k - 1) (n_of_int (int_of_string x) :: acc) r
          | [] -> failwith "short list" in
      go n [] rest

let status_of_string = function
  | "Created" -> M.Created | "Queued" -> M.Queued | "Processing" -> M.Processing
  | "Finished" -> M.Finished | "Closed" -> M.Closed
  | s -> failwith ("bad status " ^ s)

let string_of_status = function
  | M.Created -> "Created" | M.Queued -> "Queued" | M.Processing -> "Processing"
  | M.Finished -> "Finished" | M.Closed -> "Closed"

(* ---------- trusted glue: one JSON value at the front ---------- *)
exception Bad

let scan_value (bs : M.n list) : (M.n list * M.n list) option =
  let a = Array.of_list (List.map fast_int_of_n bs) in
  let n = Array.length a in
  let at i = if i < n then a.(i) else -1 in
  let is_ws c = c = 32 || c = 9 || c = 10 || c = 13 in
  let rec ws i = if is_ws (at i) then ws (i + 1) else i in
  let is_digit c = c >= 48 && c <= 57 in
  let is_hex c = is_digit c || (c >= 97 && c <= 102) || (c >= 65 && c <= 70) in
  let rec digits i = if is_digit (at i) then digits (i + 1) else i in
  let lit i s =
    String.iteri (fun k c -> if at (i + k) <> Char.code c then raise Bad) s;
    i + String.length s in
  let rec str i = (* i is after the opening quote *)
    let c = at i in
    if c = 34 then i + 1
    else if c = 92 then begin
      let e = at (i + 1) in
      if e = 34 || e = 92 || e = 47 || e = 98 || e = 102 || e = 110 || e = 114 || e = 116 then str (i + 2)
      else if e = 117 then begin
        for k = 2 to 5 do if not (is_hex (at (i + k))) then raise Bad done;
        str (i + 6)
      end else raise Bad
    end
    else if c < 32 then raise Bad (* includes end of input (-1) *)
    else str (i + 1) in
  let number i =
    let i = if at i = 45 then i + 1 else i in
    let i =
      if at i = 48 then i + 1
      else if at i >= 49 && at i <= 57 then digits i
      else raise Bad in
    let i = if at i = 46 then (if is_digit (at (i + 1)) then digits (i + 1) else raise Bad) else i in
    if at i = 101 || at i = 69 then begin
      let j = if at (i + 1) = 43 || at (i + 1) = 45 then i + 2 else i + 1 in
      if is_digit (at j) then digits j else raise Bad
    end else i in
  let rec value i =
    let c = at i in
    if c = 123 then begin
      let i = ws (i + 1) in
      if at i = 125 then i + 1 else members i
    end
    else if c = 91 then begin
      let i = ws (i + 1) in
      if at i = 93 then i + 1 else elements i
    end
    else if c = 34 then str (i + 1)
    else if c = 116 then lit i "true"
    else if c = 102 then lit i "false"
    else if c = 110 then lit i "null"
    else if c = 45 || is_digit c then number i
    else raise Bad
  and members i =
    if at i <> 34 then raise Bad;
    let i = ws (str (i + 1)) in
    if at i <> 58 then raise Bad;
    let i = ws (value (ws (i + 1))) in
    if at i = 44 then members (ws (i + 1))
    else if at i = 125 then i + 1
    else raise Bad
  and elements i =
    let i = ws (value i) in
    if at i = 44 then elements (ws (i + 1))
    else if at i = 93 then i + 1
    else raise Bad in
  match value 0 with
  | exception Bad -> None
  | e ->
      let rec split k l acc =
        if k = 0 then (List.rev acc, l)
        else match l with x :: r -> split (k - 1) r (x :: acc) | [] -> (List.rev acc, []) in
      Some (split e bs [])

(* ---------- comparison helpers ---------- *)
let out_shape = ref 0
let out_typed = ref 0
let agree_ok = ref 0
let agree_err = ref 0
let oom_by_class : (string, int) Hashtbl.t = Hashtbl.create 16

let show_res = function
  | M.Ok ((id, st), p) ->
      Printf.sprintf "model Ok id=%s status=%s payload=%s" (show_nlist id) (string_of_status st) (show_bytes p)
  | M.Err M.Malformed -> "model Err Malformed"
  | M.Err M.InvalidStatus -> "model Err InvalidStatus"

(* observed tail of a CP / CM record: "ok <status> <cps> <hex>" | "parse" | "status" | "other" *)
type obs = OOk of M.status * M.n list * M.n list | OParse | OStatus | OOther

let parse_obs (a : string list) : obs =
  match a with
  | "ok" :: st :: rest ->
      let (id, rest) = take_counted rest in
      (match rest with
       | [h] -> OOk (status_of_string st, id, bytes_of_hex h)
       | _ -> failwith "ok tail")
  | ["parse"] -> OParse
  | ["status"] -> OStatus
  | ["other"] -> OOther
  | _ -> failwith "bad observation"

let () =
  (* job.Json() *)
  register "CJ" (fun ln line a -> match a with
    | mode :: st :: rest ->
        let (id, rest) = take_counted rest in
        (match rest with
         | [ph; oh] ->
             incr checked;
             let st = status_of_string st and p = bytes_of_hex ph and o = bytes_of_hex oh in
             let m = (match mode with
               | "v" -> M.encode_env id st p
               | "b" -> M.encode_env_bytes id st p
               | _ -> failwith "CJ mode") in
             if not (nlist_eq m o) then mismatch ln line ("model entry=" ^ show_bytes m)
         | _ -> failwith "CJ tail")
    | _ -> failwith "CJ args");
  register "CJE" (fun _ _ _ -> ());
  (* parseToJob on what Json() produced *)
  register "CP" (fun ln line a -> match a with
    | oh :: ph :: tail ->
        incr checked;
        let o = bytes_of_hex oh and p = bytes_of_hex ph in
        let m = M.decode_env scan_value o in
        (match m, parse_obs tail with
         | M.Ok ((mid, mst), mp), OOk (st, id, _) ->
             (* the consumer's payload is compared with the JSON round trip by the Go oracle; the
                model's claim is about the bytes inside the entry *)
             if not (nlist_eq mid id && mst = st && nlist_eq mp p) then mismatch ln line (show_res m)
             else incr agree_ok
         | M.Err M.Malformed, OParse | M.Err M.InvalidStatus, OStatus -> incr agree_err
         | _ -> mismatch ln line (show_res m))
    | _ -> failwith "CP args");
  (* Add on the four queue kinds *)
  register "CA" (fun ln line a -> match a with
    | _path :: ok :: rest ->
        let (id, rest) = take_counted rest in
        incr checked;
        (match ok, rest with
         | "1", [ph; eh] ->
             (match M.submit_entry id (Some (bytes_of_hex ph)) with
              | Some e when nlist_eq e (bytes_of_hex eh) -> ()
              | Some e -> mismatch ln line ("model entry=" ^ show_bytes e)
              | None -> mismatch ln line "model: nothing enqueued")
         | "0", ["-"; "-"] ->
             (match M.submit_entry id None with
              | None -> ()
              | Some e -> mismatch ln line ("model entry=" ^ show_bytes e))
         | _ -> failwith "CA tail")
    | _ -> failwith "CA args");
  (* hand-made / mutated entries *)
  register "CM" (fun ln line a -> match a with
    | mode :: cls :: ih :: tail ->
        incr checked;
        let typed = (match mode with "r" -> false | "t" -> true | _ -> failwith "CM mode") in
        let input = bytes_of_hex ih in
        let m = M.decode_env scan_value input in
        let oom r = incr r; Hashtbl.replace oom_by_class cls (1 + (try Hashtbl.find oom_by_class cls with Not_found -> 0)) in
        (match m, parse_obs tail with
         | M.Ok ((mid, mst), mp), OOk (st, id, d) ->
             if not (nlist_eq mid id && mst = st && (typed || nlist_eq mp d)) then mismatch ln line (show_res m)
             else incr agree_ok
         | M.Err M.InvalidStatus, OStatus | M.Err M.Malformed, OParse -> incr agree_err
         | (M.Ok _ | M.Err M.InvalidStatus), OParse when typed -> oom out_typed
         | M.Err M.Malformed, OOk (st, id, d) when (not typed) && nlist_eq (M.encode_env id st d) input ->
             (* the entry IS of the model's shape (it is what the model's encoder produces for what Go
                decoded), so the strict decoder has no excuse *)
             mismatch ln line "model Err Malformed on an entry of exactly the encoder's shape"
         | M.Err M.Malformed, (OOk _ | OStatus) -> oom out_shape
         | _ -> mismatch ln line (show_res m))
    | _ -> failwith "CM args");
  at_exit (fun () ->
    if !agree_ok + !agree_err + !out_shape + !out_typed > 0 then
    begin
      Printf.printf "#CODEC agree_ok=%d agree_err=%d out_of_model_shape=%d out_of_model_typed=%d"
        !agree_ok !agree_err !out_shape !out_typed;
      List.iter (fun (k, v) -> Printf.printf " oom.%s=%d" k v)
        (List.sort compare (Hashtbl.fold (fun k v acc -> (k, v) :: acc) oom_by_class []));
      print_newline ()
    end)
