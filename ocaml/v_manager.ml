(* v_manager.ml — replays the records of go/harness/helpers/zz_verif_manager_test.go on the
   extracted model coq/Manager.v.

   MGR                                    new manager
   M+ <id> <count> <rr>                   Register(item id); observed Count / roundRobinIndex after
   M- <pos> <count> <rr> <ids...>         UnregisterItem(item found at position pos; pos = old count
                                          means "not registered"); observed count, roundRobinIndex
                                          and the ids of m.items by position afterwards
   MRR|MMAX|MMIN <n> <len_0..len_n-1> <res> <rr>
                                          selection with the lengths by position; res = E0
                                          (ErrNoItemsRegistered) | E1 (ErrAllItemsEmpty) | position
                                          of the returned item in m.items (first pointer match);
                                          rr = roundRobinIndex after the call
   MLEN <n> <len_0..len_n-1> <total>      Manager.Len()
   MCNT <count>                           Manager.Count() *)
open Reg

let mgr : M.mgr ref = ref M.new_mgr
let ids : int list ref = ref []

let show_sel = function
  | M.Picked p -> string_of_int (int_of_nat p)
  | M.ErrNoItems -> "E0"
  | M.ErrAllEmpty -> "E1"

let show_state () =
  Printf.sprintf "count=%d rr=%d" (int_of_nat !mgr.M.mcount) (int_of_nat !mgr.M.mrr)

(* splits [n; l_0 .. l_(n-1); rest...] *)
let take_lens (a : string list) : M.z list * string list =
  match a with
  | [] -> failwith "missing length count"
  | n :: r ->
      let n = int_of_string n in
      let rec go k acc r =
        if k = 0 then (List.rev acc, r)
        else match r with
          | [] -> failwith "too few lengths"
          | x :: r' -> go (k - 1) (z_of_string x :: acc) r' in
      go n [] r

let check_state ln line cnt rr what =
  let mc = int_of_nat !mgr.M.mcount and mr = int_of_nat !mgr.M.mrr in
  if mc <> int_of_string cnt || mr <> int_of_string rr then
    mismatch ln line (Printf.sprintf "model %s: %s" what (show_state ()))

(* same item? positions may differ only when one item is registered twice *)
let same_item (q : int) (tok : string) : bool =
  match int_of_string_opt tok with
  | None -> false
  | Some p ->
      q = p ||
      (match List.nth_opt !ids q, List.nth_opt !ids p with
       | Some a, Some b -> a = b
       | _ -> false)

let check_sel ln line (s : M.sel) (res : string) =
  let ok = match s with
    | M.ErrNoItems -> res = "E0"
    | M.ErrAllEmpty -> res = "E1"
    | M.Picked q -> same_item (int_of_nat q) res in
  if not ok then mismatch ln line ("model result=" ^ show_sel s ^ " " ^ show_state ())

let check_arity ln line (lens : M.z list) =
  if List.length lens <> int_of_nat !mgr.M.mcount then
    mismatch ln line ("model has a different number of items: " ^ show_state ())

let () =
  register "MGR" (fun _ _ _ -> mgr := M.new_mgr; ids := []);
  register "M+" (fun ln line a -> match a with
    | [id; cnt; rr] ->
        mgr := M.register !mgr; ids := !ids @ [int_of_string id]; incr checked;
        check_state ln line cnt rr "register"
    | _ -> failwith "M+ args");
  register "M-" (fun ln line a -> match a with
    | pos :: cnt :: rr :: rest ->
        let p = nat_of_int (int_of_string pos) in
        mgr := M.unregister !mgr p; ids := M.swap_remove !ids p; incr checked;
        check_state ln line cnt rr "unregister";
        if !ids <> List.map int_of_string rest then
          mismatch ln line ("model items=[" ^ String.concat " " (List.map string_of_int !ids) ^ "]")
    | _ -> failwith "M- args");
  register "MRR" (fun ln line a ->
    let (lens, rest) = take_lens a in
    match rest with
    | [res; rr] ->
        check_arity ln line lens;
        let (s, m') = M.get_rr !mgr lens in
        mgr := m'; incr checked;
        check_sel ln line s res;
        if int_of_nat m'.M.mrr <> int_of_string rr then
          mismatch ln line ("model cursor after: " ^ show_state ())
    | _ -> failwith "MRR args");
  let pure_sel kind f =
    register kind (fun ln line a ->
      let (lens, rest) = take_lens a in
      match rest with
      | [res; rr] ->
          check_arity ln line lens; incr checked;
          check_sel ln line (f !mgr lens) res;
          if int_of_nat !mgr.M.mrr <> int_of_string rr then
            mismatch ln line ("model cursor (must not move): " ^ show_state ())
      | _ -> failwith (kind ^ " args")) in
  pure_sel "MMAX" M.get_max;
  pure_sel "MMIN" M.get_min;
  register "MLEN" (fun ln line a ->
    let (lens, rest) = take_lens a in
    match rest with
    | [tot] ->
        check_arity ln line lens; incr checked;
        let t = M.mlen lens in
        if not (M.Z.eqb t (z_of_string tot)) then mismatch ln line ("model len=" ^ string_of_z t)
    | _ -> failwith "MLEN args");
  register "MCNT" (fun ln line a -> match a with
    | [c] -> incr checked;
        let mc = int_of_nat (M.count !mgr) in
        if mc <> int_of_string c then mismatch ln line (Printf.sprintf "model count=%d" mc)
    | _ -> failwith "MCNT args")

(* ---------------- idle list (coq/LList.v) ---------------- *)
let ll : M.nat list ref = ref []
let ll_bad = ref false

let ll_apply ln line (o : M.llop) what =
  incr checked;
  if not !ll_bad then
    match M.ll_step !ll o with
    | Some l' -> ll := l'
    | None ->
      ll_bad := true;
      mismatch ln line ("linked list: " ^ what ^ "; model list = [" ^
                        String.concat " " (List.map (fun n -> string_of_int (int_of_nat n)) !ll) ^ "]")

let optnat s = if s = "-" then None else Some (nat_of_int (int_of_string s))

let () =
  register "LLNEW" (fun _ _ _ -> ll := []; ll_bad := false);
  register "LL+" (fun ln line a -> match a with
    | [n] -> ll_apply ln line (M.LPush (nat_of_int (int_of_string n))) "PushNode of a node that is in the list"
    | _ -> failwith "LL+ args");
  register "LLPF" (fun ln line a -> match a with
    | [r] -> ll_apply ln line (M.LPopFront (optnat r)) "PopFront returned another node than the model's"
    | _ -> failwith "LLPF args");
  register "LLPB" (fun ln line a -> match a with
    | [r] -> ll_apply ln line (M.LPopBack (optnat r)) "PopBack returned another node than the model's"
    | _ -> failwith "LLPB args");
  register "LLR" (fun ln line a -> match a with
    | [n; ok] -> ll_apply ln line (M.LRemove (nat_of_int (int_of_string n), ok = "1")) "Remove answered differently from the model (true exactly for a member)"
    | _ -> failwith "LLR args");
  register "LLLEN" (fun ln line a -> match a with
    | [v] -> ll_apply ln line (M.LLen (nat_of_int (int_of_string v))) "Len differs from the number of nodes in the model's list"
    | _ -> failwith "LLLEN args");
  register "LLS" (fun ln line a ->
    ll_apply ln line (M.LSlice (List.map (fun x -> nat_of_int (int_of_string x)) a)) "NodeSlice differs from the model's list")
