open Reg
let fifo : M.n M.queue ref = ref (M.new_queue (n_of_int 1) (n_of_int 1))
let heap : M.n M.pq ref = ref M.new_pq


let () =
  (* ----- FIFO ----- *)
  register "FIFO" (fun _ _ a -> match a with
    | [i; m] -> fifo := M.new_queue (n_of_string i) (n_of_string m)
    | _ -> failwith "FIFO args");
  register "E" (fun ln line a -> match a with
    | [x; ok] ->
        let (r, q') = M.enqueue !fifo (n_of_string x) in
        fifo := q'; incr checked;
        if r <> bool_of_tok ok then mismatch ln line (Printf.sprintf "model enqueue=%b" r)
    | _ -> failwith "E args");
  register "D" (fun ln line a ->
    let (r, q') = M.dequeue !fifo in
    fifo := q'; incr checked;
    match a, r with
    | ["0"], None -> ()
    | ["0"], Some x -> mismatch ln line ("model dequeue=Some " ^ string_of_n x)
    | ["1"; v], Some x -> if not (M.N.eqb x (n_of_string v)) then mismatch ln line ("model dequeue=Some " ^ string_of_n x)
    | ["1"; _], None -> mismatch ln line "model dequeue=None"
    | _ -> failwith "D args");
  register "L" (fun ln line a -> match a with
    | [n] -> incr checked;
        let m = M.qlen !fifo in
        if not (M.Z.eqb m (z_of_string n)) then mismatch ln line ("model len=" ^ string_of_z m)
    | _ -> failwith "L args");
  register "V" (fun ln line a -> match a with
    | _ :: vs -> incr checked;
        let m = M.values !fifo in
        if not (nlist_eq m (List.map n_of_string vs)) then mismatch ln line ("model values=" ^ show_nlist m)
    | _ -> failwith "V args");
  register "S" (fun ln line a -> match a with
    | _ :: cs -> incr checked;
        let m = M.caps !fifo in
        if not (nlist_eq m (List.map n_of_string cs)) then mismatch ln line ("model caps=" ^ show_nlist m)
    | _ -> failwith "S args");
  register "P" (fun _ _ a -> match a with
    | [i] -> fifo := M.purge !fifo (n_of_string i)
    | _ -> failwith "P args");
  register "PV" (fun ln line a -> match a with
    | i :: _ :: vs -> incr checked;
        let (m, q') = M.purge_values !fifo (n_of_string i) in
        fifo := q';
        if not (nlist_eq m (List.map n_of_string vs)) then mismatch ln line ("model purge_values=" ^ show_nlist m)
    | _ -> failwith "PV args");
  register "C" (fun _ _ _ -> fifo := M.close !fifo);
  (* ----- HEAP ----- *)
  register "HEAP" (fun _ _ _ -> heap := M.new_pq);
  register "H+" (fun ln line a -> match a with
    | [p; x; ok] ->
        let (r, q') = M.push !heap (z_of_string p) (n_of_string x) in
        heap := q'; incr checked;
        if r <> bool_of_tok ok then mismatch ln line (Printf.sprintf "model push=%b" r)
    | _ -> failwith "H+ args");
  register "H-" (fun ln line a ->
    let (r, q') = M.pop !heap in
    heap := q'; incr checked;
    match a, r with
    | ["0"], None -> ()
    | ["0"], Some x -> mismatch ln line ("model pop=Some " ^ string_of_n x)
    | ["1"; v], Some x -> if not (M.N.eqb x (n_of_string v)) then mismatch ln line ("model pop=Some " ^ string_of_n x)
    | ["1"; _], None -> mismatch ln line "model pop=None"
    | _ -> failwith "H- args");
  register "HL" (fun ln line a -> match a with
    | [n] -> incr checked;
        let m = int_of_nat (M.plen !heap) in
        if m <> int_of_string n then mismatch ln line (Printf.sprintf "model len=%d" m)
    | _ -> failwith "HL args");
  register "HV" (fun ln line a -> match a with
    | _ :: vs -> incr checked;
        let m = M.pvalues !heap in
        if not (nlist_eq m (List.map n_of_string vs)) then mismatch ln line ("model values=" ^ show_nlist m)
    | _ -> failwith "HV args");
  register "HP" (fun _ _ _ -> heap := M.ppurge !heap);
  register "HPV" (fun ln line a -> match a with
    | _ :: vs -> incr checked;
        let (m, q') = M.ppurge_values !heap in
        heap := q';
        if not (nlist_eq m (List.map n_of_string vs)) then mismatch ln line ("model purge_values=" ^ show_nlist m)
    | _ -> failwith "HPV args");
  register "HC" (fun _ _ _ -> heap := M.pclose !heap)

