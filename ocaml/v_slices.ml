(* v_slices.ml — replays the per-object slice traces written by
   go/harness/root/zz_verif_slices_test.go on the extracted slice models (coq/Slice*.v). *)
open Reg

let tag = ref ""
let buf : (int * string * M.raw option) list ref = ref []

let nat s = nat_of_int (int_of_string s)
let b s = bool_of_tok s

let raw_of (a : string list) : M.raw option =
  match a with
  | ["new"; t; w] -> Some (M.RCore (M.ENew (nat t, b w)))
  | ["stqueued"; t] -> Some (M.RCore (M.EStoreQueued (nat t)))
  | ["stparse"; t; v] -> Some (M.RCore (M.EStoreParse (nat t, nat v)))
  | ["stfinished"; t] -> Some (M.RCore (M.EStoreFinished (nat t)))
  | ["ldplain"; t; v] -> Some (M.RLoadPlain (nat t, nat v))
  | ["ldcloseable"; t; v] -> Some (M.RLoadCloseable (nat t, nat v))
  | ["ldclaim"; t; v] -> Some (M.RLoadClaim (nat t, nat v))
  | ["casclaim"; t; ok] -> Some (M.RCasClaim (nat t, b ok))
  | ["ldclose"; t; v] -> Some (M.RLoadClose (nat t, nat v))
  | ["casclose"; t; ok] -> Some (M.RCasClose (nat t, b ok))
  | ["signal"; t] -> Some (M.RCore (M.ESignal (nat t)))
  | ["wait"; t] -> Some (M.RCore (M.EWait (nat t)))
  | ["enq"; t; ok] -> Some (M.RCore (M.EEnq (nat t, b ok)))
  | ["deq"; t] -> Some (M.RCore (M.EDeq (nat t)))
  | ["purged"; t] -> Some (M.RCore (M.EPurged (nat t)))
  | ["wfenter"; t] -> Some (M.RCore (M.EWfEnter (nat t)))
  | ["wfexit"; t] -> Some (M.RCore (M.EWfExit (nat t)))
  | ["ack"; t; ok] -> Some (M.RCore (M.EAck (nat t, b ok)))
  | ["retclose"; t; r] -> Some (M.RRetClose (nat t, nat r))
  | _ -> None

let () =
  register "JOB" (fun _ _ a -> (match a with t :: _ -> tag := t | _ -> ()); buf := []);
  register "j" (fun ln line a -> buf := (ln, line, raw_of a) :: !buf);
  register "ENDJOB" (fun ln line _ ->
    let evs = List.rev !buf in
    incr checked;
    (match List.find_opt (fun (_, _, r) -> r = None) evs with
     | Some (l, s, _) -> mismatch l s ("slice job " ^ !tag ^ ": operation on the job's status word / wait group unknown to the model")
     | None ->
       let raws = List.filter_map (fun (_, _, r) -> r) evs in
       (match M.trun raws with
        | M.Inr _ -> ()
        | M.Inl i ->
          let k = int_of_nat i in
          let (l, s, _) = List.nth evs k in
          mismatch l s (Printf.sprintf "slice job %s: event %d is not enabled in the model (or observed a value the model does not predict)" !tag k)));
    buf := [])

(* ---------------- batch slice (coq/SliceBatch.v) ---------------- *)
let bbuf : (int * string * M.braw option) list ref = ref []

let braw_of (a : string list) : M.braw option =
  match a with
  | ["bnew"; n; c] -> Some (M.RB (M.BNew (nat n, nat c)))
  | ["bcloseempty"] -> Some (M.RB M.BCloseEmpty)
  | ["bload"; t; v] -> Some (M.RB (M.BLoad (nat t, nat v)))
  | ["bdoneload"; t; v] -> Some (M.RBDoneLoad (nat t, nat v))
  | ["bdonecas"; t; ok] -> Some (M.RBDoneCas (nat t, b ok))
  | ["bwgdone"; t] -> Some (M.RB (M.BWgDone (nat t)))
  | ["bsend"; t] -> Some (M.RB (M.BSend (nat t)))
  | ["bclose"; t] -> Some (M.RB (M.BClose (nat t)))
  | ["brecv"; t; ok] -> Some (M.RB (M.BRecv (nat t, b ok)))
  | ["bwait"; t] -> Some (M.RB (M.BWait (nat t)))
  | _ -> None

let () =
  register "BATCH" (fun _ _ a -> (match a with t :: _ -> tag := t | _ -> ()); bbuf := []);
  register "b" (fun ln line a -> bbuf := (ln, line, braw_of a) :: !bbuf);
  register "ENDBATCH" (fun ln line _ ->
    let evs = List.rev !bbuf in
    incr checked;
    (match List.find_opt (fun (_, _, r) -> r = None) evs with
     | Some (l, s, _) -> mismatch l s ("slice batch " ^ !tag ^ ": operation on the batch counter / stream unknown to the model")
     | None ->
       let raws = List.filter_map (fun (_, _, r) -> r) evs in
       (match M.brun_t raws with
        | M.Inr _ -> ()
        | M.Inl i ->
          let k = int_of_nat i in
          let (l, s, _) = List.nth evs k in
          mismatch l s (Printf.sprintf "slice batch %s: event %d is not enabled in the model (or observed a value the model does not predict)" !tag k)));
    bbuf := [])

(* ---------------- lifecycle (coq/Lifecycle.v) ---------------- *)
let lstate : M.lstate option ref = ref None

let res_name = function M.RNil -> "nil" | M.RErrRunning -> "ErrRunningWorker" | M.RErrNotRunning -> "ErrNotRunningWorker" | M.RErrSame -> "ErrSameConcurrency"
let st_name = function M.Initiated -> "Initiated" | M.Running -> "Running" | M.Paused -> "Paused" | M.Stopped -> "Stopped"

let () =
  register "LIFE" (fun _ _ a -> match a with
    | [t; conc; ncpu; ctx] -> tag := t; lstate := Some (M.linit (nat conc) (nat ncpu) (b ctx))
    | _ -> failwith "LIFE args");
  register "l" (fun ln line a -> match a, !lstate with
    | [op; arg; err; status], Some s ->
        let c = match op with
          | "Bind" -> M.CBind | "Pause" -> M.CPause | "PauseAndWait" -> M.CPauseAndWait | "Resume" -> M.CResume
          | "Stop" -> M.CStop | "WaitAndStop" -> M.CWaitAndStop | "Restart" -> M.CRestart
          | "TunePool" -> let n = int_of_string arg in M.CTunePool (nat_of_int (max n 0), n < 1)
          | "CtxCancel" -> M.CCtxCancel
          | _ -> failwith ("lifecycle op " ^ op) in
        let (s', r) = M.lstep s c in
        lstate := Some s'; incr checked;
        if res_name r <> err || st_name s'.M.wst <> status then
          mismatch ln line (Printf.sprintf "slice life %s: model gives %s/%s" !tag (res_name r) (st_name s'.M.wst))
    | _ -> failwith "l args");
  register "ENDLIFE" (fun _ _ _ -> lstate := None)

(* ---------------- dispatch / in-flight accounting (coq/SliceDisp.v) ---------------- *)
let dbuf : (int * string * M.xev option) list ref = ref []

let dev_of (a : string list) : M.dev option =
  match a with
  | ["acceptj"] -> Some M.DAcceptJ
  | ["rejectj"] -> Some M.DRejectJ
  | ["enqother"] -> Some M.DEnqOther
  | ["deqj"] -> Some M.DDeqJ
  | ["deqothersameq"] -> Some M.DDeqOtherSameQ
  | ["deqotherq"] -> Some M.DDeqOtherQ
  | ["purgeq"; n] -> Some (M.DPurgeQ (nat n))
  | ["claimj"; ok] -> Some (M.DClaimJ (b ok))
  | ["reserve"; a; c] -> Some (M.DReserve (nat a, nat c))
  | ["wfenterother"] -> Some M.DWfEnterOther
  | ["wfexitother"] -> Some M.DWfExitOther
  | ["recheck"; v] -> Some (M.DRecheck (nat v))
  | ["unresdoomed"] -> Some M.DUnresDoomed
  | ["unresok"] -> Some M.DUnresOk
  | ["unresskipj"] -> Some M.DUnresSkipJ
  | ["unresskipother"] -> Some M.DUnresSkipOther
  | ["wfenterj"] -> Some M.DWfEnterJ
  | ["wfexitj"] -> Some M.DWfExitJ
  | ["releasej"] -> Some M.DReleaseJ
  | ["releaseother"] -> Some M.DReleaseOther
  | ["ststore"; v] -> Some (M.DStatusStore (nat v))
  | ["stload"; v] -> Some (M.DStatusLoad (nat v))
  | ["curload"; v] -> Some (M.DCurLoad (nat v))
  | ["lenq"; v] -> Some (M.DLenReadQ (nat v))
  | _ -> None

let () =
  register "DISP" (fun _ _ a -> (match a with t :: _ -> tag := t | _ -> ()); dbuf := []);
  register "d" (fun ln line a ->
    let x = match a with
      | ["barcall"; t] -> Some (M.XCall (nat t))
      | ["barload"; t; v] -> Some (M.XCurLoad (nat t, nat v))
      | ["barst"; t; v] -> Some (M.XStLoad (nat t, nat v))
      | ["barret"; t] -> Some (M.XRet (nat t))
      | _ -> (match dev_of a with Some e -> Some (M.XD e) | None -> None) in
    dbuf := (ln, line, x) :: !dbuf);
  register "ENDDISP" (fun ln line _ ->
    let evs = List.rev !dbuf in
    incr checked;
    (match List.find_opt (fun (_, _, r) -> r = None) evs with
     | Some (l, s, _) -> mismatch l s ("slice disp " ^ !tag ^ ": operation on the worker's in-flight accounting unknown to the model")
     | None ->
       let raws = List.filter_map (fun (_, _, r) -> r) evs in
       (match M.xrun_from (nat_of_int 0) raws with
        | M.Inr _ -> ()
        | M.Inl i ->
          let k = int_of_nat i in
          let (l, s, _) = List.nth evs k in
          mismatch l s (Printf.sprintf "slice disp %s: event %d is not enabled in the model (or observed a value the model does not predict)" !tag k)));
    dbuf := [])

(* ---------------- wake-up protocol (coq/SliceWake.v) ---------------- *)
let kbuf : (int * string * string list) list ref = ref []
let kconc0 = ref 1

let actor_of = function "loop" -> M.ALoop | _ -> M.AOther

let kev_of (a : string list) : M.wev option =
  match a with
  | ["kpend"; ac; up; k; n] -> Some (M.KPend (actor_of ac, b up, nat k, b n))
  | ["kforeign"; k; n] -> Some (M.KForeign (nat k, b n))
  | ["kcur"; ac; up; n] -> Some (M.KCur (actor_of ac, b up, b n))
  | ["kstatus"; v; n] -> Some (M.KStatus (nat v, b n))
  | ["kconc"; c; n] -> Some (M.KConc (nat c, b n))
  | ["knotify"] -> Some M.KNotify
  | ["krecv"] -> Some M.KRecv
  | ["kpark"] -> Some M.KPark
  | ["kclose"] -> Some M.KClose
  | ["kopen"] -> Some M.KOpen
  | _ -> None

let () =
  register "WAKE" (fun _ _ a -> (match a with t :: c :: _ -> tag := t; kconc0 := int_of_string c | _ -> ()); kbuf := []);
  register "k" (fun ln line a -> kbuf := (ln, line, a) :: !kbuf);
  register "ENDWAKE" (fun ln line a ->
    let evs = List.rev !kbuf in
    incr checked;
    let st = ref (M.kinit (nat_of_int !kconc0)) in
    let bad = ref false in
    List.iter (fun (l, s, args) ->
      if not !bad then
        match kev_of args with
        | None -> bad := true; mismatch l s ("slice wake " ^ !tag ^ ": unknown record")
        | Some e ->
          let step e = M.kstep !st e in
          (match step e with
           | Some s' -> st := s'
           | None ->
             (* a notify nobody owed (Pause, Purge, redundant ones) is always allowed; the event loop
                may already be parked when the record says it parks *)
             (match e with
              | M.KNotify -> (match step M.KNotifyExtra with Some s' -> st := s' | None -> bad := true)
              | M.KPark when !st.M.kparked -> ()
              | _ -> bad := true);
             if !bad then mismatch l s (Printf.sprintf "slice wake %s: step is not enabled in the model (an enabling step without a notify, a park with the guard continuously true, ...)" !tag))) evs;
    (match a with
     | ["1"] when not !bad ->
       if int_of_nat !st.M.kowed <> 0 then mismatch ln line (Printf.sprintf "slice wake %s: at rest %d notifications are still owed" !tag (int_of_nat !st.M.kowed))
     | _ -> ());
    kbuf := [])

(* ---------------- per-job response (coq/SliceResp.v) ---------------- *)
let rbuf : (int * string * string list) list ref = ref []

let () =
  register "RESP" (fun _ _ a -> (match a with t :: _ -> tag := t | _ -> ()); rbuf := []);
  register "r" (fun ln line a -> rbuf := (ln, line, a) :: !rbuf);
  register "ENDRESP" (fun _ _ _ ->
    let evs = List.rev !rbuf in
    incr checked;
    let st = ref M.rinit in
    let bad = ref false in
    List.iter (fun (l, s, args) ->
      if not !bad then begin
        let e = match args with
          | ["rsend"; v] -> Some (M.RSend (nat v))
          | ["rclose"] -> Some M.RClose
          | ["rstore"] -> Some M.RStore
          | ["rload"] -> Some M.RLoad
          | ["rrecv"; "1"; v] -> Some (M.RRecv (true, nat v))
          | ["rrecv"; "0"; _] -> Some (M.RRecv (false, !st.M.rres))   (* the value read back is not a channel event *)
          | _ -> None in
        match e with
        | None -> bad := true; mismatch l s ("slice resp " ^ !tag ^ ": unknown record")
        | Some e ->
          (match M.rrun_idx !st [e] M.O with
           | M.Inr s' -> st := s'
           | M.Inl _ -> bad := true; mismatch l s (Printf.sprintf "slice resp %s: operation not enabled in the model (second send, send after close, double close, receive of a value that was not sent, the stored value written after the send or not before it)" !tag))
      end) evs;
    rbuf := [])

(* ---------------- pool node (coq/SlicePool.v) ---------------- *)
let pbuf : (int * string * M.pev option) list ref = ref []

let pev_of (a : string list) : M.pev option =
  match a with
  | ["ngetspawn"; t; g] -> Some (M.NGetSpawn (nat t, nat g))
  | ["npush"; t] -> Some (M.NPush (nat t))
  | ["npop"; t] -> Some (M.NPop (nat t))
  | ["nsendjob"; t] -> Some (M.NSendJob (nat t))
  | ["nrecvjob"; t] -> Some (M.NRecvJob (nat t))
  | ["nsendstop"; t] -> Some (M.NSendStop (nat t))
  | ["nrecvstop"; t] -> Some (M.NRecvStop (nat t))
  | ["nput"; t] -> Some (M.NPut (nat t))
  | _ -> None

let () =
  register "POOL" (fun _ _ a -> (match a with t :: _ -> tag := t | _ -> ()); pbuf := []);
  register "p" (fun ln line a -> pbuf := (ln, line, pev_of a) :: !pbuf);
  register "ENDPOOL" (fun ln line _ ->
    let evs = List.rev !pbuf in
    incr checked;
    (match List.find_opt (fun (_, _, r) -> r = None) evs with
     | Some (l, s, _) -> mismatch l s ("slice pool " ^ !tag ^ ": unknown record")
     | None ->
       let raws = List.filter_map (fun (_, _, r) -> r) evs in
       (match M.prun_idx M.pinit raws M.O with
        | M.Inr _ -> ()
        | M.Inl i ->
          let k = int_of_nat i in
          let (l, s, _) = List.nth evs k in
          mismatch l s (Printf.sprintf "slice pool %s: event %d is not enabled in the model (a payload sent by a thread that does not own the node, a node pushed twice, ...)" !tag k)));
    pbuf := [])

(* ---------------- happens-before (coq/HB.v): the proved race detector on every episode ---------------- *)
let hbuf : (int * string * M.hev option) list ref = ref []
let hgo : string ref = ref ""

let nn s = n_of_int (int_of_string s)
let optn s = let i = int_of_string s in if i = 0 then None else Some (n_of_int i)

let hev_of (a : string list) : M.hev option =
  match a with
  | ["a"; t; l; w] -> Some { M.hth = nn t; M.hk = M.HAcc (nn l, b w) }
  | ["s"; t; x; y] -> Some { M.hth = nn t; M.hk = M.HSync (optn x, optn y) }
  | ["b"; t] -> Some { M.hth = nn t; M.hk = M.HBarrier }
  | _ -> None

let () =
  register "HB" (fun _ _ a -> (match a with t :: _ -> tag := t | _ -> ()); hbuf := []; hgo := "");
  register "h" (fun ln line a -> hbuf := (ln, line, hev_of a) :: !hbuf);
  register "hrace" (fun _ _ a -> hgo := String.concat " " a);
  register "ENDHB" (fun ln line _ ->
    let evs = List.rev !hbuf in
    incr checked;
    (match List.find_opt (fun (_, _, r) -> r = None) evs with
     | Some (l, s, _) -> mismatch l s ("slice hb " ^ !tag ^ ": unknown record")
     | None ->
       let raws = List.filter_map (fun (_, _, r) -> r) evs in
       let verdict = match M.race_check raws with
         | None -> "none"
         | Some (i, j) -> Printf.sprintf "%d %d" (int_of_n i) (int_of_n j) in
       if verdict <> "none" then begin
         let (i, j) = Scanf.sscanf verdict "%d %d" (fun x y -> (x, y)) in
         let (l1, s1, _) = List.nth evs i and (l2, s2, _) = List.nth evs j in
         mismatch l2 s2 (Printf.sprintf "slice hb %s: DATA RACE: events %d (line %d: %s) and %d are conflicting accesses not ordered by happens-before" !tag i l1 s1 j)
       end;
       if verdict <> !hgo then
         mismatch ln line (Printf.sprintf "slice hb %s: the proved detector says [%s], the harness detector says [%s]" !tag verdict !hgo));
    hbuf := [])

(* ---------------- lock discipline (coq/Lockset.v) ---------------- *)
let lkbuf : (int * string * M.lev option) list ref = ref []

let lev_of (a : string list) : M.lev option =
  match a with
  | "lk" :: t :: _ -> Some (M.LLock (nat t))
  | "ul" :: t :: _ -> Some (M.LUnlock (nat t))
  | "rl" :: t :: _ -> Some (M.LRLock (nat t))
  | "ru" :: t :: _ -> Some (M.LRUnlock (nat t))
  | "rd" :: t :: _ -> Some (M.LRead (nat t))
  | "wr" :: t :: _ -> Some (M.LWrite (nat t))
  | _ -> None

let () =
  register "LOCK" (fun _ _ a -> (match a with t :: o :: _ -> tag := t ^ " " ^ o | t :: _ -> tag := t | _ -> ()); lkbuf := []);
  register "lk" (fun ln line a -> lkbuf := (ln, line, lev_of a) :: !lkbuf);
  register "ENDLOCK" (fun ln line _ ->
    let evs = List.rev !lkbuf in
    incr checked;
    (match List.find_opt (fun (_, _, r) -> r = None) evs with
     | Some (l, s, _) -> mismatch l s ("slice lock " ^ !tag ^ ": access outside the guard table / with no guard")
     | None ->
       let raws = List.filter_map (fun (_, _, r) -> r) evs in
       (match M.lkrun_idx M.lkinit raws M.O with
        | M.Inr _ -> ()
        | M.Inl i ->
          let k = int_of_nat i in
          let (l, s, _) = List.nth evs k in
          mismatch l s (Printf.sprintf "slice lock %s: event %d breaks the lock discipline (a write without the lock held exclusively, a read without it held, a read lock taken again by a thread that holds it)" !tag k)));
    lkbuf := [])

(* ---------------- barrier wake-up (coq/SliceBarrier.v) ---------------- *)
let bwbuf : (int * string * string list) list ref = ref []

let okind_of = function "e" -> Some M.OEval | "n" -> Some M.ONotify | "b" -> Some M.OBcast | "-" -> Some M.ONone | _ -> None

let bev_of (a : string list) : M.wbev option =
  match a with
  | ["binput"; t; st; cur; len; k] ->
    (match okind_of k with Some k -> Some (M.WInput (nat t, nat st, nat cur, nat len, k)) | None -> None)
  | ["brwnob"; t] -> Some (M.WRWNoBcast (nat t))
  | ["bbcast"; t] -> Some (M.WBroadcast (nat t))
  | ["bnotify"; t] -> Some (M.WNotify (nat t))
  | ["brecv"; t] -> Some (M.WRecv (nat t))
  | ["bclose"; t; k] -> (match okind_of k with Some k -> Some (M.WClose (nat t, k)) | None -> None)
  | ["bopen"] -> Some M.WOpen
  | _ -> None

let () =
  register "BARRIER" (fun _ _ a -> (match a with t :: _ -> tag := t | _ -> ()); bwbuf := []);
  register "bw" (fun ln line a -> bwbuf := (ln, line, a) :: !bwbuf);
  register "ENDBARRIER" (fun ln line a ->
    let evs = List.rev !bwbuf in
    incr checked;
    let st = ref (M.wbinit M.O) in
    let bad = ref false in
    List.iter (fun (l, s, args) ->
      if not !bad then
        match bev_of args with
        | None -> bad := true; mismatch l s ("slice barrier " ^ !tag ^ ": unknown record")
        | Some e ->
          (match M.wbstep !st e with
           | Some s' -> st := s'
           | None ->
             bad := true;
             mismatch l s (Printf.sprintf "slice barrier %s: step is not enabled in the model (a step that ends the waiters' wait with nobody going on to broadcast / notify, releaseWaiters walking away from a new obligation, a buffered signal dropped by a thread that owes nothing, ...)" !tag))) evs;
    (match a with
     | ["1"] when not !bad ->
       if !st.M.bstale then mismatch ln line (Printf.sprintf "slice barrier %s: at rest the waiters' condition has turned false and nobody has broadcast since" !tag)
     | _ -> ());
    bwbuf := [])
