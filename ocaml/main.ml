open Reg
let () =
  let ic = if Array.length Sys.argv > 1 then open_in Sys.argv.(1) else stdin in
  (try
    while true do
      let line = input_line ic in
      incr lines;
      if String.length line > 0 && line.[0] <> '#' then begin
        match String.split_on_char ' ' (String.trim line) with
        | [] -> ()
        | k :: args ->
            (match Hashtbl.find_opt handlers k with
             | Some f -> (try f !lines line args with Failure m -> mismatch !lines line ("validator: " ^ m))
             | None -> mismatch !lines line "validator: unknown record kind")
      end
    done
  with End_of_file -> ());
  Printf.printf "DONE lines=%d checked=%d mismatches=%d\n" !lines !checked !mismatches;
  exit (if !mismatches = 0 then 0 else 1)
