(* reg.ml/main.ml/v_*.ml — replays operation sequences recorded from the Go implementation on the
   extracted Coq model and reports where the observed results differ.
   Input: one record per line (see go/harness/*_diff_test.go for the writers).
   Output: one "MISMATCH <lineno> <line> :: <model view>" per disagreement, then
           "DONE lines=<n> checked=<k> mismatches=<m>". Exit status 0 iff m = 0. *)

module M = Model

(* ---------- number conversion (N, Z, nat stay the extracted inductive types) ---------- *)
let rec pos_of_int (i : int) : M.positive =
  if i = 1 then M.XH
  else if i land 1 = 0 then M.XO (pos_of_int (i lsr 1))
  else M.XI (pos_of_int (i lsr 1))

let n_of_int (i : int) : M.n = if i = 0 then M.N0 else M.Npos (pos_of_int i)

let rec nat_of_int (i : int) : M.nat = if i <= 0 then M.O else M.S (nat_of_int (i - 1))
let rec int_of_nat (n : M.nat) : int = match n with M.O -> 0 | M.S m -> 1 + int_of_nat m

let ten = n_of_int 10

(* arbitrary-size decimal -> N *)
let n_of_string (s : string) : M.n =
  let r = ref M.N0 in
  String.iter (fun c ->
    if c < '0' || c > '9' then failwith ("bad number " ^ s);
    r := M.N.add (M.N.mul !r ten) (n_of_int (Char.code c - 48))) s;
  !r

let z_of_string (s : string) : M.z =
  if String.length s > 0 && s.[0] = '-' then
    M.Z.opp (M.Z.of_N (n_of_string (String.sub s 1 (String.length s - 1))))
  else M.Z.of_N (n_of_string s)

(* N -> decimal string: bits, most significant first, doubling a decimal digit array *)
let string_of_pos (p : M.positive) : string =
  let rec bits p acc = match p with
    | M.XH -> true :: acc
    | M.XO q -> bits q (false :: acc)
    | M.XI q -> bits q (true :: acc) in
  let digits = ref [0] in (* little endian *)
  List.iter (fun b ->
    let carry = ref (if b then 1 else 0) in
    digits := List.map (fun d -> let v = d * 2 + !carry in carry := v / 10; v mod 10) !digits;
    if !carry > 0 then digits := !digits @ [!carry]) (bits p []);
  String.concat "" (List.rev_map string_of_int !digits)

let string_of_n = function M.N0 -> "0" | M.Npos p -> string_of_pos p
let string_of_z = function M.Z0 -> "0" | M.Zpos p -> string_of_pos p | M.Zneg p -> "-" ^ string_of_pos p

let int_of_n (n : M.n) : int = int_of_string (string_of_n n)

let bool_of_tok = function "1" | "true" -> true | "0" | "false" -> false | s -> failwith ("bad bool " ^ s)

let lines = ref 0
let checked = ref 0
let mismatches = ref 0

let mismatch lineno line view =
  incr mismatches;
  if !mismatches <= 50 then Printf.printf "MISMATCH %d %s :: %s\n" lineno line view

let show_nlist l = "[" ^ String.concat " " (List.map string_of_n l) ^ "]"

let rec nlist_eq a b = match a, b with
  | [], [] -> true
  | x :: a', y :: b' -> M.N.eqb x y && nlist_eq a' b'
  | _ -> false

let handlers : (string, int -> string -> string list -> unit) Hashtbl.t = Hashtbl.create 64
let register k f =
  if Hashtbl.mem handlers k then failwith ("validator: record kind registered twice: " ^ k);
  Hashtbl.replace handlers k f

