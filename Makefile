# /verif/Makefile — `make setup` builds the framework offline from files on disk only.
.PHONY: setup coq extract validator clean
setup: coq extract validator

coq:
	cd coq && coq_makefile -f _CoqProject -o Makefile >/dev/null && timeout 3000 $(MAKE) -j16

extract: coq
	mkdir -p coq/extracted && cd coq/extracted && timeout 600 coqc -Q .. VQ ../Extract.v

validator: extract
	ocaml/build.sh

clean:
	-cd coq && $(MAKE) clean
	rm -rf coq/extracted ocaml/_build ocaml/validate .work .cache coq/Makefile coq/Makefile.conf
