// instr rewrites the library's non-test sources for the vt shim runtime (DESIGN section 3.1):
// sync / sync/atomic / time become the shim packages, every synchronisation operation gets a
// static site id (and, where the operand is a field selector, its owner object), channel
// operations / go statements go through vt, methods get enter/leave frames. Nothing is written
// into the repository: the output is a directory of rewritten files plus an overlay.json for
// `go test -overlay`, and sites.json describing every site.
//
// usage: instr <repo> <outdir> <vtdir> [virtual=real ...]
package main

import (
	"bytes"
	"encoding/json"
	"fmt"
	"go/ast"
	"go/format"
	"go/importer"
	"go/parser"
	"go/token"
	"go/types"
	"os"
	"path/filepath"
	"sort"
	"strconv"
	"strings"
)

const mod = "github.com/goptics/varmq"

type site struct {
	ID    int    `json:"id"`
	Name  string `json:"name"` // Recv.Func/expr#k — stable under re-indentation and comments
	File  string `json:"file"`
	Func  string `json:"func"`
	Expr  string `json:"expr"`
	Kind  string `json:"kind"`
	Field string `json:"field"` // last selector of the operand (status, wg, ch, mx ...)
	Line  int    `json:"line"`
}

var (
	fset     = token.NewFileSet()
	sites    []site
	nameCnt  = map[string]int{}
	repo     string
	out      string
	over     = map[string]string{}
	problems []string
	pkgDirs  = []string{"", "internal/helpers", "internal/linkedbuffer", "internal/linkedlist", "internal/pool", "internal/queues", "utils"}
)

type imp struct {
	src   types.Importer
	cache map[string]*types.Package
}

func (m *imp) Import(path string) (*types.Package, error) {
	if p, ok := m.cache[path]; ok {
		return p, nil
	}
	if strings.HasPrefix(path, mod) {
		p, err := doPkg(m, filepath.Join(repo, strings.TrimPrefix(path, mod)), path)
		if err == nil {
			m.cache[path] = p
		}
		return p, err
	}
	return m.src.Import(path)
}

func exprStr(e ast.Node) string {
	var b bytes.Buffer
	format.Node(&b, fset, e)
	return strings.Join(strings.Fields(b.String()), " ")
}

func lastField(e ast.Expr) string {
	switch x := e.(type) {
	case *ast.SelectorExpr:
		return x.Sel.Name
	case *ast.Ident:
		return x.Name
	case *ast.CallExpr:
		return lastField(x.Fun) + "()"
	}
	return ""
}

func newSite(file, fn, expr, kind, field string, pos token.Pos) *ast.BasicLit {
	id := len(sites) + 1
	base := fn + "/" + expr
	nameCnt[base]++
	name := base
	if nameCnt[base] > 1 {
		name = base + "#" + strconv.Itoa(nameCnt[base])
	}
	rel, _ := filepath.Rel(repo, file)
	sites = append(sites, site{id, name, rel, fn, expr, kind, field, fset.Position(pos).Line})
	return &ast.BasicLit{Kind: token.INT, Value: strconv.Itoa(id)}
}

func isShimRecv(t types.Type) bool {
	s := strings.TrimPrefix(t.String(), "*")
	return strings.HasPrefix(s, "sync.") || strings.HasPrefix(s, "sync/atomic.") || s == "time.Ticker"
}

func vtCall(name string, args ...ast.Expr) *ast.CallExpr {
	return &ast.CallExpr{Fun: &ast.SelectorExpr{X: ast.NewIdent("vt"), Sel: ast.NewIdent(name)}, Args: args}
}

func nilExpr() ast.Expr { return ast.NewIdent("nil") }

// ownerOf: for an operand `A.f` returns A when A is pointer-typed (the object that owns field f)
func ownerOf(e ast.Expr, info *types.Info) ast.Expr {
	if p, ok := e.(*ast.ParenExpr); ok {
		return ownerOf(p.X, info)
	}
	se, ok := e.(*ast.SelectorExpr)
	if !ok {
		return nilExpr()
	}
	if sel := info.Selections[se]; sel == nil || sel.Kind() != types.FieldVal {
		return nilExpr()
	}
	if tv, ok := info.Types[se.X]; ok && tv.Type != nil {
		if _, isPtr := tv.Type.Underlying().(*types.Pointer); isPtr {
			return se.X
		}
	}
	return nilExpr()
}

func doPkg(m *imp, dir, path string) (*types.Package, error) {
	pkgs, err := parser.ParseDir(fset, dir, func(fi os.FileInfo) bool { return !strings.HasSuffix(fi.Name(), "_test.go") }, 0)
	if err != nil {
		return nil, err
	}
	var files []*ast.File
	var names []string
	for _, p := range pkgs {
		var ns []string
		for n := range p.Files {
			ns = append(ns, n)
		}
		sort.Strings(ns)
		for _, n := range ns {
			files = append(files, p.Files[n])
			names = append(names, n)
		}
	}
	info := &types.Info{Types: map[ast.Expr]types.TypeAndValue{}, Selections: map[*ast.SelectorExpr]*types.Selection{}, Uses: map[*ast.Ident]types.Object{}, Defs: map[*ast.Ident]types.Object{}}
	conf := types.Config{Importer: m}
	p, err := conf.Check(path, fset, files, info)
	if err != nil {
		return nil, err
	}
	for i, f := range files {
		rewriteFile(f, names[i], info)
	}
	return p, nil
}

// Plain (non-atomic) memory whose accesses are logged: every field of a struct type declared in
// the module, except fields that are themselves synchronisation objects (sync.*, sync/atomic.*:
// they are only used through their methods, which the shims log).
func syncTyped(t types.Type) bool {
	for {
		switch x := t.(type) {
		case *types.Pointer:
			t = x.Elem()
			continue
		case *types.Array:
			t = x.Elem()
			continue
		case *types.Named:
			if o := x.Obj(); o != nil && o.Pkg() != nil {
				switch o.Pkg().Path() {
				case "sync", "sync/atomic":
					return true
				}
			}
		}
		return false
	}
}

// selectors that only compute an address (the X of a further selection on a struct value, the
// operand of &): not memory accesses
var addrOnly = map[*ast.SelectorExpr]bool{}

func markAddrOnly(f *ast.File, info *types.Info) {
	strip := func(e ast.Expr) ast.Expr {
		for {
			if p, ok := e.(*ast.ParenExpr); ok {
				e = p.X
				continue
			}
			return e
		}
	}
	ast.Inspect(f, func(n ast.Node) bool {
		switch x := n.(type) {
		case *ast.SelectorExpr:
			if c, ok := strip(x.X).(*ast.SelectorExpr); ok {
				if tv, ok := info.Types[c]; ok && tv.Type != nil {
					if _, isStruct := tv.Type.Underlying().(*types.Struct); isStruct {
						addrOnly[c] = true
					}
				}
			}
		case *ast.UnaryExpr:
			if x.Op == token.AND {
				if c, ok := strip(x.X).(*ast.SelectorExpr); ok {
					addrOnly[c] = true
				}
			}
		}
		return true
	})
}

func typeBase(t types.Type) string {
	s := t.String()
	s = strings.TrimPrefix(s, "*")
	if i := strings.Index(s, "["); i >= 0 {
		s = s[:i]
	}
	if i := strings.LastIndex(s, "."); i >= 0 {
		s = s[i+1:]
	}
	return s
}

// watchedSel: is se an access to a watched field? returns "Type.field" and the owner expression (a pointer)
func watchedSel(se *ast.SelectorExpr, info *types.Info) (string, ast.Expr, bool) {
	sel := info.Selections[se]
	if sel == nil || sel.Kind() != types.FieldVal {
		return "", nil, false
	}
	v, ok := sel.Obj().(*types.Var)
	if !ok || !v.IsField() {
		return "", nil, false
	}
	// the struct that declares the field: last step of the (possibly promoted) selection
	recv := sel.Recv()
	for _, i := range sel.Index()[:len(sel.Index())-1] {
		st, _ := deref(recv).Underlying().(*types.Struct)
		if st == nil {
			return "", nil, false
		}
		recv = st.Field(i).Type()
	}
	if v.Pkg() == nil || !strings.HasPrefix(v.Pkg().Path(), mod) || syncTyped(v.Type()) || addrOnly[se] {
		return "", nil, false
	}
	name := typeBase(deref(recv)) + "." + v.Name()
	var owner ast.Expr = se.X
	if tv, ok := info.Types[se.X]; ok && tv.Type != nil {
		if _, isPtr := tv.Type.Underlying().(*types.Pointer); !isPtr {
			if !tv.Addressable() {
				return "", nil, false
			}
			owner = &ast.UnaryExpr{Op: token.AND, X: se.X}
		}
	}
	return name, owner, true
}

func deref(t types.Type) types.Type {
	if p, ok := t.Underlying().(*types.Pointer); ok {
		return p.Elem()
	}
	return t
}

// plainNotes: the vt.Plain statements to put in front of statement s (accesses in nested blocks
// and function literals are handled when those blocks are visited)
func plainNotes(s ast.Stmt, file, fn string, info *types.Info) []ast.Stmt {
	return plainNotesPart(s, false, file, fn, info)
}

// late = the parts of a statement with an init clause that plainNotes leaves out (condition, post)
func plainNotesPart(s ast.Stmt, late bool, file, fn string, info *types.Info) []ast.Stmt {
	writes := map[*ast.SelectorExpr]bool{}
	markW := func(e ast.Expr) {
		for {
			switch x := e.(type) {
			case *ast.ParenExpr:
				e = x.X
				continue
			case *ast.IndexExpr:
				e = x.X
				continue
			case *ast.SelectorExpr:
				writes[x] = true
			}
			return
		}
	}
	var markStmt func(s ast.Stmt)
	markStmt = func(s ast.Stmt) {
		switch st := s.(type) {
		case *ast.AssignStmt:
			for _, l := range st.Lhs {
				markW(l)
			}
		case *ast.IncDecStmt:
			markW(st.X)
		case *ast.ForStmt:
			if st.Init != nil {
				markStmt(st.Init)
			}
			if st.Post != nil {
				markStmt(st.Post)
			}
		case *ast.IfStmt:
			if st.Init != nil {
				markStmt(st.Init)
			}
		case *ast.SwitchStmt:
			if st.Init != nil {
				markStmt(st.Init)
			}
		}
	}
	markStmt(s)
	var out []ast.Stmt
	seen := map[string]bool{}
	// *p = T{...}: a plain write of every word of a library struct, its atomics included
	if as, ok := s.(*ast.AssignStmt); ok && !late {
		for _, l := range as.Lhs {
			st, ok := l.(*ast.StarExpr)
			if !ok {
				continue
			}
			tv, ok := info.Types[st.X]
			if !ok || tv.Type == nil {
				continue
			}
			pt, ok := tv.Type.Underlying().(*types.Pointer)
			if !ok {
				continue
			}
			named, ok := pt.Elem().(*types.Named)
			if !ok || named.Obj().Pkg() == nil || !strings.HasPrefix(named.Obj().Pkg().Path(), mod) {
				continue
			}
			if _, isStruct := named.Underlying().(*types.Struct); !isStruct {
				continue
			}
			out = append(out, &ast.ExprStmt{X: vtCall("Plain", newSite(file, fn, exprStr(l), "plain:W*", typeBase(named)+".*", l.Pos()), st.X,
				&ast.BasicLit{Kind: token.STRING, Value: strconv.Quote("W*")})})
		}
	}
	visit := func(n ast.Node) bool {
		switch x := n.(type) {
		case *ast.BlockStmt, *ast.FuncLit, *ast.CaseClause, *ast.CommClause:
			if n != ast.Node(s) {
				return false
			}
		case *ast.CallExpr:
			// cancelling a context closes its Done channel inside the (uninstrumented) runtime
			if tv, ok := info.Types[x.Fun]; ok && tv.Type != nil && tv.Type.String() == "context.CancelFunc" {
				key := "cancel" + exprStr(x.Fun)
				if !seen[key] {
					seen[key] = true
					out = append(out, &ast.ExprStmt{X: vtCall("Cancel", newSite(file, fn, exprStr(x.Fun), "cancel", "", x.Pos()))})
				}
			}
		case *ast.SelectorExpr:
			if name, owner, ok := watchedSel(x, info); ok {
				kind := "R"
				if writes[x] {
					kind = "W"
				}
				key := name + kind + exprStr(owner)
				if !seen[key] {
					seen[key] = true
					out = append(out, &ast.ExprStmt{X: vtCall("Plain", newSite(file, fn, exprStr(x), "plain:"+kind, name, x.Pos()), owner,
						&ast.BasicLit{Kind: token.STRING, Value: strconv.Quote(kind)})})
				}
			}
		}
		return true
	}
	if late {
		switch st := s.(type) {
		case *ast.ForStmt:
			if st.Init != nil {
				if st.Cond != nil {
					ast.Inspect(st.Cond, visit)
				}
				if st.Post != nil {
					ast.Inspect(st.Post, visit)
				}
			}
		case *ast.IfStmt:
			if st.Init != nil {
				ast.Inspect(st.Cond, visit)
			}
		}
		return out
	}
	if sel, ok := s.(*ast.SelectStmt); ok {
		// the communication operands are evaluated on entry to the select
		for _, c := range sel.Body.List {
			if cc, ok := c.(*ast.CommClause); ok && cc.Comm != nil {
				ast.Inspect(cc.Comm, visit)
			}
		}
		return out
	}
	// statements with an init clause: what follows may use variables the clause declares, so only
	// the clause itself is hoisted (loop conditions and post statements are covered by the body's notes)
	switch st := s.(type) {
	case *ast.ForStmt:
		if st.Init != nil {
			ast.Inspect(st.Init, visit)
		} else if st.Cond != nil {
			ast.Inspect(st.Cond, visit)
		}
		return out
	case *ast.IfStmt:
		if st.Init != nil {
			ast.Inspect(st.Init, visit)
			return out
		}
	case *ast.SwitchStmt:
		if st.Init != nil {
			ast.Inspect(st.Init, visit)
			return out
		}
	case *ast.TypeSwitchStmt:
		return out
	}
	ast.Inspect(s, visit)
	return out
}

func instrumentPlain(f *ast.File, file string, info *types.Info) bool {
	any := false
	markAddrOnly(f, info)
	var doList func(list []ast.Stmt, fn string) []ast.Stmt
	var doStmt func(s ast.Stmt, fn string)
	doList = func(list []ast.Stmt, fn string) []ast.Stmt {
		var out []ast.Stmt
		for _, s := range list {
			if _, isDecl := s.(*ast.DeclStmt); !isDecl {
				notes := plainNotes(s, file, fn, info)
				if len(notes) > 0 {
					any = true
				}
				out = append(out, notes...)
			}
			doStmt(s, fn)
			out = append(out, s)
		}
		return out
	}
	doStmt = func(s ast.Stmt, fn string) {
		ast.Inspect(s, func(n ast.Node) bool {
			switch x := n.(type) {
			case *ast.SelectStmt:
				for _, c := range x.Body.List {
					if cc, ok := c.(*ast.CommClause); ok {
						cc.Body = doList(cc.Body, fn)
					}
				}
				return false
			case *ast.SwitchStmt:
				for _, c := range x.Body.List {
					if cc, ok := c.(*ast.CaseClause); ok {
						cc.Body = doList(cc.Body, fn)
					}
				}
				return false
			case *ast.TypeSwitchStmt:
				for _, c := range x.Body.List {
					if cc, ok := c.(*ast.CaseClause); ok {
						cc.Body = doList(cc.Body, fn)
					}
				}
				return false
			case *ast.ForStmt:
				if x.Init != nil {
					late := plainNotesPart(x, true, file, fn, info)
					if len(late) > 0 {
						any = true
					}
					x.Body.List = append(late, doList(x.Body.List, fn)...)
					return false
				}
			case *ast.IfStmt:
				if x.Init != nil {
					late := plainNotesPart(x, true, file, fn, info)
					if len(late) > 0 {
						any = true
						x.Body.List = append(append([]ast.Stmt{}, late...), doList(x.Body.List, fn)...)
						if eb, ok := x.Else.(*ast.BlockStmt); ok {
							late2 := plainNotesPart(x, true, file, fn, info)
							eb.List = append(late2, doList(eb.List, fn)...)
						} else if x.Else != nil {
							doStmt(x.Else, fn)
						}
						return false
					}
				}
			case *ast.BlockStmt:
				x.List = doList(x.List, fn)
				return false
			case *ast.CaseClause:
				x.Body = doList(x.Body, fn)
				return false
			case *ast.CommClause:
				x.Body = doList(x.Body, fn)
				return false
			}
			return true
		})
	}
	for _, d := range f.Decls {
		if fd, ok := d.(*ast.FuncDecl); ok && fd.Body != nil {
			fd.Body.List = doList(fd.Body.List, funcName(fd))
		}
	}
	return any
}

func funcName(x *ast.FuncDecl) string {
	n := x.Name.Name
	if x.Recv != nil && len(x.Recv.List) > 0 {
		t := strings.TrimPrefix(exprStr(x.Recv.List[0].Type), "*")
		if i := strings.Index(t, "["); i >= 0 {
			t = t[:i]
		}
		n = t + "." + n
	}
	return n
}

func rewriteFile(f *ast.File, name string, info *types.Info) {
	needVT := false
	curFn := "?"
	for _, im := range f.Imports {
		switch im.Path.Value {
		case `"sync"`:
			im.Path.Value = `"` + mod + `/internal/vt/vsync"`
			im.Name = ast.NewIdent("sync")
		case `"sync/atomic"`:
			im.Path.Value = `"` + mod + `/internal/vt/vatomic"`
			im.Name = ast.NewIdent("atomic")
		case `"time"`:
			im.Path.Value = `"` + mod + `/internal/vt/vtime"`
			im.Name = ast.NewIdent("time")
		}
	}
	if instrumentPlain(f, name, info) {
		needVT = true
	}
	isChan := func(e ast.Expr) bool {
		if t := info.Types[e].Type; t != nil {
			_, ok := t.Underlying().(*types.Chan)
			return ok
		}
		return false
	}
	var rewriteStmts func(list []ast.Stmt) []ast.Stmt
	rewriteStmt := func(s ast.Stmt) ast.Stmt {
		switch st := s.(type) {
		case *ast.SendStmt:
			needVT = true
			return &ast.ExprStmt{X: vtCall("Send", newSite(name, curFn, exprStr(st), "send", lastField(st.Chan), st.Pos()), ownerOf(st.Chan, info), st.Chan, st.Value)}
		case *ast.GoStmt:
			needVT = true
			lit := &ast.FuncLit{Type: &ast.FuncType{Params: &ast.FieldList{}}, Body: &ast.BlockStmt{List: []ast.Stmt{&ast.ExprStmt{X: st.Call}}}}
			if len(st.Call.Args) > 0 {
				// go f(x, y)  ==>  { a0 := x; a1 := y; vt.Go(site, func(){ f(a0, a1) }) } — arguments are
				// evaluated by the spawning goroutine, as the language prescribes
				var pre []ast.Stmt
				var args []ast.Expr
				for i, a := range st.Call.Args {
					id := ast.NewIdent(fmt.Sprintf("vtArg%d", i))
					pre = append(pre, &ast.AssignStmt{Lhs: []ast.Expr{id}, Tok: token.DEFINE, Rhs: []ast.Expr{a}})
					args = append(args, id)
				}
				what := "go " + exprStr(st.Call.Fun)
				if _, isLit := st.Call.Fun.(*ast.FuncLit); isLit {
					what = "go func"
				}
				lit.Body.List = []ast.Stmt{&ast.ExprStmt{X: &ast.CallExpr{Fun: st.Call.Fun, Args: args}}}
				pre = append(pre, &ast.ExprStmt{X: vtCall("Go", newSite(name, curFn, what, "go", "", st.Pos()), lit)})
				return &ast.BlockStmt{List: pre}
			}
			what := "go " + exprStr(st.Call.Fun)
			if _, isLit := st.Call.Fun.(*ast.FuncLit); isLit {
				what = "go func"
			}
			return &ast.ExprStmt{X: vtCall("Go", newSite(name, curFn, what, "go", "", st.Pos()), lit)}
		case *ast.SelectStmt:
			// form 1: select { case ch <- v: default: }
			if len(st.Body.List) == 2 {
				var send *ast.SendStmt
				hasDef := false
				var recvs []*ast.CommClause
				for _, c := range st.Body.List {
					cc := c.(*ast.CommClause)
					if cc.Comm == nil {
						hasDef = len(cc.Body) == 0
					} else if ss, ok := cc.Comm.(*ast.SendStmt); ok && len(cc.Body) == 0 {
						send = ss
					} else if es, ok := cc.Comm.(*ast.ExprStmt); ok {
						if u, ok := es.X.(*ast.UnaryExpr); ok && u.Op == token.ARROW {
							recvs = append(recvs, cc)
						}
					} else if as, ok := cc.Comm.(*ast.AssignStmt); ok && len(as.Rhs) == 1 && len(as.Lhs) <= 2 {
						// case x = <-ch:  /  case x, ok := <-ch:
						if u, ok := as.Rhs[0].(*ast.UnaryExpr); ok && u.Op == token.ARROW {
							recvs = append(recvs, cc)
						}
					}
				}
				if send != nil && hasDef {
					needVT = true
					return &ast.ExprStmt{X: vtCall("TrySend", newSite(name, curFn, exprStr(send), "trysend", lastField(send.Chan), st.Pos()), ownerOf(send.Chan, info), send.Chan, send.Value)}
				}
				// form 2: select { case <-a: A; case <-b: B }  (two plain receive cases)
				if len(recvs) == 2 {
					needVT = true
					chanOf := func(cc *ast.CommClause) ast.Expr {
						if es, ok := cc.Comm.(*ast.ExprStmt); ok {
							return es.X.(*ast.UnaryExpr).X
						}
						return cc.Comm.(*ast.AssignStmt).Rhs[0].(*ast.UnaryExpr).X
					}
					a := chanOf(recvs[0])
					b := chanOf(recvs[1])
					idx := ast.NewIdent("vtIdx")
					vals := []ast.Expr{ast.NewIdent("_"), ast.NewIdent("_")}
					okv := ast.Expr(ast.NewIdent("_"))
					bodies := make([][]ast.Stmt, 2)
					for k, cc := range recvs {
						body := rewriteStmts(cc.Body)
						if as, ok := cc.Comm.(*ast.AssignStmt); ok {
							vals[k] = ast.NewIdent(fmt.Sprintf("vtV%d", k))
							rhs := []ast.Expr{vals[k]}
							if len(as.Lhs) == 2 {
								okv = ast.NewIdent("vtOk")
								rhs = append(rhs, okv)
							}
							body = append([]ast.Stmt{&ast.AssignStmt{Lhs: as.Lhs, Tok: as.Tok, Rhs: rhs}}, body...)
						}
						bodies[k] = body
					}
					call := vtCall("Select2", newSite(name, curFn, "select "+exprStr(a)+" | "+exprStr(b), "select", lastField(a), st.Pos()), a, b)
					assign := &ast.AssignStmt{Lhs: []ast.Expr{idx, vals[0], vals[1], okv}, Tok: token.DEFINE, Rhs: []ast.Expr{call}}
					sw := &ast.SwitchStmt{Init: assign, Tag: idx, Body: &ast.BlockStmt{List: []ast.Stmt{
						&ast.CaseClause{List: []ast.Expr{&ast.BasicLit{Kind: token.INT, Value: "0"}}, Body: bodies[0]},
						&ast.CaseClause{List: []ast.Expr{&ast.BasicLit{Kind: token.INT, Value: "1"}}, Body: bodies[1]},
					}}}
					return sw
				}
			}
			problems = append(problems, "unsupported select at "+fset.Position(st.Pos()).String())
			return s
		case *ast.RangeStmt:
			if isChan(st.X) {
				needVT = true
				v := ast.Expr(ast.NewIdent("_"))
				if st.Key != nil {
					v = st.Key
				}
				okID := ast.NewIdent("vtOk")
				recv := &ast.AssignStmt{Lhs: []ast.Expr{v, okID}, Tok: token.DEFINE, Rhs: []ast.Expr{vtCall("Recv", newSite(name, curFn, "range "+exprStr(st.X), "recv", lastField(st.X), st.Pos()), ownerOf(st.X, info), st.X)}}
				brk := &ast.IfStmt{Cond: &ast.UnaryExpr{Op: token.NOT, X: okID}, Body: &ast.BlockStmt{List: []ast.Stmt{&ast.BranchStmt{Tok: token.BREAK}}}}
				body := append([]ast.Stmt{recv, brk}, st.Body.List...)
				return &ast.ForStmt{Body: &ast.BlockStmt{List: body}}
			}
		}
		return s
	}
	rewriteStmts = func(list []ast.Stmt) []ast.Stmt {
		for i, s := range list {
			list[i] = rewriteStmt(s)
		}
		return list
	}
	// pass 1: statements
	ast.Inspect(f, func(n ast.Node) bool {
		switch x := n.(type) {
		case *ast.FuncDecl:
			curFn = funcName(x)
		case *ast.BlockStmt:
			rewriteStmts(x.List)
		case *ast.CaseClause:
			rewriteStmts(x.Body)
		case *ast.CommClause:
			rewriteStmts(x.Body)
		case *ast.LabeledStmt:
			x.Stmt = rewriteStmt(x.Stmt)
		}
		return true
	})
	// pass 2: shim method calls, close()
	curFn = "?"
	ast.Inspect(f, func(n ast.Node) bool {
		switch x := n.(type) {
		case *ast.FuncDecl:
			curFn = funcName(x)
		case *ast.CallExpr:
			if se, ok := x.Fun.(*ast.SelectorExpr); ok {
				if sel := info.Selections[se]; sel != nil && sel.Kind() == types.MethodVal && isShimRecv(sel.Recv()) {
					owner := ownerOf(se.X, info)
					x.Args = append([]ast.Expr{newSite(name, curFn, exprStr(se), "m:"+se.Sel.Name, lastField(se.X), x.Pos()), owner}, x.Args...)
					se.Sel = ast.NewIdent(se.Sel.Name + "_")
				}
			}
			if id, ok := x.Fun.(*ast.Ident); ok && id.Name == "close" && len(x.Args) == 1 {
				if _, isB := info.Uses[id].(*types.Builtin); isB {
					needVT = true
					arg := x.Args[0]
					x.Fun = &ast.SelectorExpr{X: ast.NewIdent("vt"), Sel: ast.NewIdent("Close")}
					x.Args = []ast.Expr{newSite(name, curFn, "close("+exprStr(arg)+")", "close", lastField(arg), x.Pos()), ownerOf(arg, info), arg}
				}
			}
		}
		return true
	})
	// pass 3: receive expressions (forms in the repo:  <-c.Done() ;  result, ok := <-c.ch ; v := <-ch)
	curFn = "?"
	ast.Inspect(f, func(n ast.Node) bool {
		switch x := n.(type) {
		case *ast.FuncDecl:
			curFn = funcName(x)
		case *ast.ExprStmt:
			if u, ok := x.X.(*ast.UnaryExpr); ok && u.Op == token.ARROW {
				needVT = true
				x.X = vtCall("Recv", newSite(name, curFn, exprStr(u), "recv", lastField(u.X), u.Pos()), ownerOf(u.X, info), u.X)
			}
		case *ast.AssignStmt:
			if len(x.Rhs) == 1 {
				if u, ok := x.Rhs[0].(*ast.UnaryExpr); ok && u.Op == token.ARROW {
					needVT = true
					x.Rhs[0] = vtCall("Recv", newSite(name, curFn, exprStr(u), "recv", lastField(u.X), u.Pos()), ownerOf(u.X, info), u.X)
					if len(x.Lhs) == 1 {
						x.Lhs = append(x.Lhs, ast.NewIdent("_"))
					}
				}
			}
		case *ast.UnaryExpr:
			_ = x
		}
		return true
	})
	// any receive expression left over is a form the rewriter does not know
	ast.Inspect(f, func(n ast.Node) bool {
		if u, ok := n.(*ast.UnaryExpr); ok && u.Op == token.ARROW {
			problems = append(problems, "unsupported receive expression at "+fset.Position(u.Pos()).String())
		}
		return true
	})
	// pass 4: frames on methods (pointer receivers with a name)
	for _, d := range f.Decls {
		fd, ok := d.(*ast.FuncDecl)
		if !ok || fd.Body == nil || fd.Recv == nil || len(fd.Recv.List) == 0 || len(fd.Recv.List[0].Names) == 0 {
			continue
		}
		if _, isPtr := fd.Recv.List[0].Type.(*ast.StarExpr); !isPtr {
			continue
		}
		rn := fd.Recv.List[0].Names[0].Name
		if rn == "_" {
			continue
		}
		needVT = true
		fn := funcName(fd)
		enter := vtCall("Enter", newSite(name, fn, "frame", "frame", "", fd.Pos()), ast.NewIdent(rn))
		fd.Body.List = append([]ast.Stmt{&ast.DeferStmt{Call: vtCall("Leave", enter)}}, fd.Body.List...)
	}
	if needVT {
		spec := &ast.ImportSpec{Path: &ast.BasicLit{Kind: token.STRING, Value: `"` + mod + `/internal/vt"`}}
		decl := &ast.GenDecl{Tok: token.IMPORT, Specs: []ast.Spec{spec}}
		f.Decls = append([]ast.Decl{decl}, f.Decls...)
	}
	var b bytes.Buffer
	if err := format.Node(&b, fset, f); err != nil {
		problems = append(problems, "format "+name+": "+err.Error())
		return
	}
	rel, _ := filepath.Rel(repo, name)
	dst := filepath.Join(out, "src", rel)
	os.MkdirAll(filepath.Dir(dst), 0o755)
	os.WriteFile(dst, b.Bytes(), 0o644)
	over[name] = dst
}

func maskTests() {
	for _, d := range pkgDirs {
		dir := filepath.Join(repo, d)
		ents, _ := os.ReadDir(dir)
		for _, e := range ents {
			if e.IsDir() || !strings.HasSuffix(e.Name(), "_test.go") {
				continue
			}
			p := filepath.Join(dir, e.Name())
			f, err := parser.ParseFile(fset, p, nil, parser.PackageClauseOnly)
			if err != nil {
				continue
			}
			dst := filepath.Join(out, "mask", d, e.Name())
			os.MkdirAll(filepath.Dir(dst), 0o755)
			os.WriteFile(dst, []byte("package "+f.Name.Name+"\n"), 0o644)
			over[p] = dst
		}
	}
}

func main() {
	repo, out = os.Args[1], os.Args[2]
	vtdir := os.Args[3]
	m := &imp{src: importer.ForCompiler(fset, "source", nil), cache: map[string]*types.Package{}}
	for _, d := range pkgDirs {
		path := mod
		if d != "" {
			path = mod + "/" + d
		}
		if _, err := m.Import(path); err != nil {
			fmt.Fprintln(os.Stderr, "instr: type-check failed:", err)
			os.Exit(2)
		}
	}
	maskTests()
	// the shim runtime as internal/vt of the module
	for _, rel := range []string{"vt.go", "vsync/vsync.go", "vatomic/vatomic.go", "vtime/vtime.go"} {
		over[filepath.Join(repo, "internal/vt", rel)] = filepath.Join(vtdir, rel)
	}
	for _, kv := range os.Args[4:] {
		p := strings.SplitN(kv, "=", 2)
		over[p[0]] = p[1]
	}
	js, _ := json.MarshalIndent(map[string]any{"Replace": over}, "", " ")
	os.WriteFile(filepath.Join(out, "overlay.json"), js, 0o644)
	sj, _ := json.MarshalIndent(sites, "", " ")
	os.WriteFile(filepath.Join(out, "sites.json"), sj, 0o644)
	if len(problems) > 0 {
		pj, _ := json.MarshalIndent(problems, "", " ")
		os.WriteFile(filepath.Join(out, "problems.json"), pj, 0o644)
		fmt.Fprintln(os.Stderr, "instr: unsupported constructs:", strings.Join(problems, "; "))
		os.Exit(3)
	}
	fmt.Println("sites:", len(sites), "files:", len(over))
}
