// Package vatomic mirrors the sync/atomic types the library uses.
package vatomic

import (
	"strconv"

	"github.com/goptics/varmq/internal/vt"
)

type Uint32 struct{ v uint32 }

func (u *Uint32) Load_(s int, o any) (r uint32) {
	vt.Do(s, "load", u, o, nil, func() string { r = u.v; return strconv.FormatUint(uint64(r), 10) })
	return
}
func (u *Uint32) Store_(s int, o any, x uint32) {
	vt.Do(s, "store", u, o, nil, func() string { u.v = x; return strconv.FormatUint(uint64(x), 10) })
}
func (u *Uint32) Add_(s int, o any, d uint32) (r uint32) {
	vt.Do(s, "add", u, o, nil, func() string { u.v += d; r = u.v; return strconv.FormatUint(uint64(r), 10) })
	return
}
func (u *Uint32) CompareAndSwap_(s int, o any, old, new uint32) (ok bool) {
	vt.Do(s, "cas", u, o, nil, func() string {
		if u.v == old {
			u.v = new
			ok = true
			return "1:" + strconv.FormatUint(uint64(new), 10)
		}
		return "0:" + strconv.FormatUint(uint64(u.v), 10)
	})
	return
}
func (u *Uint32) Swap_(s int, o any, x uint32) (r uint32) {
	vt.Do(s, "swap", u, o, nil, func() string {
		r = u.v
		u.v = x
		return strconv.FormatUint(uint64(x), 10) + " " + strconv.FormatUint(uint64(r), 10) // new old
	})
	return
}
func (u *Uint32) Load() uint32   { return u.Load_(0, nil) }
func (u *Uint32) Store(x uint32) { u.Store_(0, nil, x) }
func (u *Uint32) Raw() uint32    { return u.v }

type Uint64 struct{ v uint64 }

func (u *Uint64) Load_(s int, o any) (r uint64) {
	vt.Do(s, "load", u, o, nil, func() string { r = u.v; return strconv.FormatUint(r, 10) })
	return
}
func (u *Uint64) Store_(s int, o any, x uint64) {
	vt.Do(s, "store", u, o, nil, func() string { u.v = x; return strconv.FormatUint(x, 10) })
}
func (u *Uint64) Add_(s int, o any, d uint64) (r uint64) {
	vt.Do(s, "add", u, o, nil, func() string { u.v += d; r = u.v; return strconv.FormatUint(r, 10) })
	return
}
func (u *Uint64) Raw() uint64 { return u.v }

type Int64 struct{ v int64 }

func (u *Int64) Load_(s int, o any) (r int64) {
	vt.Do(s, "load", u, o, nil, func() string { r = u.v; return strconv.FormatInt(r, 10) })
	return
}
func (u *Int64) Store_(s int, o any, x int64) {
	vt.Do(s, "store", u, o, nil, func() string { u.v = x; return strconv.FormatInt(x, 10) })
}
func (u *Int64) Add_(s int, o any, d int64) (r int64) {
	vt.Do(s, "add", u, o, nil, func() string { u.v += d; r = u.v; return strconv.FormatInt(r, 10) })
	return
}

type Int32 struct{ v int32 }

func (u *Int32) Load_(s int, o any) (r int32) {
	vt.Do(s, "load", u, o, nil, func() string { r = u.v; return strconv.FormatInt(int64(r), 10) })
	return
}
func (u *Int32) Store_(s int, o any, x int32) {
	vt.Do(s, "store", u, o, nil, func() string { u.v = x; return strconv.FormatInt(int64(x), 10) })
}
func (u *Int32) Add_(s int, o any, d int32) (r int32) {
	vt.Do(s, "add", u, o, nil, func() string { u.v += d; r = u.v; return strconv.FormatInt(int64(r), 10) })
	return
}

type Bool struct{ v bool }

func b2s(b bool) string {
	if b {
		return "1"
	}
	return "0"
}
func (u *Bool) Load_(s int, o any) (r bool) {
	vt.Do(s, "load", u, o, nil, func() string { r = u.v; return b2s(r) })
	return
}
func (u *Bool) Store_(s int, o any, x bool) {
	vt.Do(s, "store", u, o, nil, func() string { u.v = x; return b2s(x) })
}
func (u *Bool) CompareAndSwap_(s int, o any, old, new bool) (ok bool) {
	vt.Do(s, "cas", u, o, nil, func() string {
		if u.v == old {
			u.v = new
			ok = true
			return "1:" + b2s(new)
		}
		return "0:" + b2s(u.v)
	})
	return
}

type Value struct{ v any }

func (u *Value) Load_(s int, o any) (r any) {
	vt.Do(s, "load", u, o, nil, func() string { r = u.v; return "" })
	return
}
func (u *Value) Store_(s int, o any, x any) {
	vt.Do(s, "store", u, o, nil, func() string { u.v = x; return "" })
}
