// Package vt is the shim runtime injected (by `go test -overlay`) as internal/vt of the
// library under test: every synchronisation operation of the instrumented library goes
// through Do, which serialises execution under a controlled scheduler and logs the exact
// linear order of operations with the values they observed.
package vt

import (
	"fmt"
	"math/rand"
	"reflect"
	"runtime"
	"sort"
	"strings"
)

// ---------------------------------------------------------------- data

type G struct {
	ID     int
	Name   string
	wake   chan struct{}
	pend   *Op
	done   bool
	poison bool
	unw    bool
	exited chan struct{}
	prio   int // PCT priority
	Client bool
}

type Op struct {
	Site    int
	Kind    string
	Obj     any
	Enabled func() bool
	Idle    bool // enabled only when no other goroutine has an enabled operation
}

type Event struct {
	Tid   int
	Site  int
	Kind  string
	Obj   int // object number (first-appearance order), 0 = none
	Owner int
	Val   string
}

type TickerState struct {
	C       any
	Fire    func(now int64)
	Period  int64
	Next    int64
	Stopped bool
}

type Config struct {
	Seed      int64
	Strategy  string // "random" | "pct"
	PCTDepth  int
	TickProb  int // 1/TickProb chance of a tick move at a scheduling point (0 = only when idle)
	MaxEvents int
	MaxIdleTicks int // ticks delivered while nothing else is enabled before declaring quiescence
	PoolMissProb int // sync.Pool.Get: 1/PoolMissProb chance to drop the cache (0 = never)
	Script    []int // explicit schedule: sequence of goroutine ids (-1 = tick); overrides strategy while it lasts
}

type Sched struct {
	cfg     Config
	gs      []*G
	cur     *G
	rng     *rand.Rand
	Log     []Event
	objs    map[uintptr]int
	objKeep []any // keeps logged objects alive so addresses are not reused within an episode
	Hang    bool  // main scenario function did not finish
	Livelock bool
	Panics  []string
	endCh   chan struct{}
	Ticks   []*TickerState
	Clock   int64
	main    *G
	Choices []int // the schedule actually taken (for scripted replay)
	steps   int
	pctChange map[int]bool
	scriptPos int
	closedCh map[uintptr]bool
	idleTicks int // ticks delivered while nothing else could move (bounded per episode)
	hold      func(tid, site int, kind string) bool
}

var S *Sched

func ptrOf(o any) uintptr {
	if o == nil {
		return 0
	}
	v := reflect.ValueOf(o)
	switch v.Kind() {
	case reflect.Ptr, reflect.Chan, reflect.UnsafePointer, reflect.Func, reflect.Map, reflect.Slice:
		return v.Pointer()
	}
	return 0
}

func (s *Sched) ObjID(o any) int {
	p := ptrOf(o)
	if p == 0 {
		return 0
	}
	if id, ok := s.objs[p]; ok {
		return id
	}
	id := len(s.objs) + 1
	s.objs[p] = id
	s.objKeep = append(s.objKeep, o)
	return id
}

func Cur() *G {
	if S == nil {
		return nil
	}
	return S.cur
}

func Active() bool { return S != nil }

// ---------------------------------------------------------------- the scheduling point

// Do is called by the token holder for every shim operation: publish the pending operation,
// let the strategy choose who goes next, and once chosen (and enabled) perform the effect and
// log it. Called outside a controlled episode it just performs the effect.
func Do(site int, kind string, obj any, owner any, enabled func() bool, effect func() string) {
	s := S
	if s == nil {
		effect()
		return
	}
	g := s.cur
	if g.poison {
		if g.unw {
			return // deferred calls while unwinding: no-ops
		}
		g.unw = true
		runtime.Goexit()
	}
	g.pend = &Op{Site: site, Kind: kind, Obj: obj, Enabled: enabled, Idle: kind == "waitidle"}
	s.switchFrom(g)
	g.pend = nil
	val := effect()
	s.Log = append(s.Log, Event{g.ID, site, kind, s.ObjID(obj), s.ObjID(owner), val})
}

// Note logs an event of the running goroutine without being a scheduling point
// (frames, harness marks).
func Note(site int, kind string, obj any, owner any, val string) {
	s := S
	if s == nil || s.cur == nil || s.cur.poison {
		return
	}
	s.Log = append(s.Log, Event{s.cur.ID, site, kind, s.ObjID(obj), s.ObjID(owner), val})
}

// Plain logs a plain (non-atomic) access to a watched field of owner; kind is "R" or "W".
func Plain(site int, owner any, kind string) { Note(site, "plain"+kind, owner, nil, "") }

// Cancel logs the call of a context.CancelFunc (the Done channel is closed by the runtime).
func Cancel(site int) { Note(site, "cancel", nil, nil, "") }

func Enter(site int, recv any) int {
	Note(site, "enter", recv, nil, "")
	return site
}

func Leave(site int) { Note(site, "leave", nil, nil, "") }

// Hold lets a scenario keep one goroutine at a given operation (a directed schedule: "the event
// loop is descheduled right before it reserves a slot"): while fn(goroutine id, site, kind) is
// true the goroutine is treated as not enabled. nil = no hold.
func Hold(fn func(tid, site int, kind string) bool) {
	if S != nil {
		S.hold = fn
	}
}

// PendingOf reports the operation a goroutine is about to take (site 0, "" if none).
func PendingOf(tid int) (int, string) {
	if S == nil || tid < 0 || tid >= len(S.gs) || S.gs[tid].pend == nil {
		return 0, ""
	}
	return S.gs[tid].pend.Site, S.gs[tid].pend.Kind
}

func (s *Sched) enabledGs() []*G {
	var en, idle []*G
	for _, g := range s.gs {
		if g.done || g.pend == nil {
			continue
		}
		if s.hold != nil && s.hold(g.ID, g.pend.Site, g.pend.Kind) {
			continue
		}
		if g.pend.Idle {
			idle = append(idle, g)
		} else if g.pend.Enabled == nil || g.pend.Enabled() {
			en = append(en, g)
		}
	}
	if len(en) == 0 {
		return idle
	}
	return en
}

func (s *Sched) pick(en []*G) *G {
	if s.scriptPos < len(s.cfg.Script) {
		want := s.cfg.Script[s.scriptPos]
		for _, g := range en {
			if g.ID == want {
				s.scriptPos++
				return g
			}
		}
		// script diverged: fall through to the strategy
		s.scriptPos = len(s.cfg.Script)
	}
	switch s.cfg.Strategy {
	case "pct":
		s.steps++
		if s.pctChange[s.steps] {
			// lower the priority of the currently highest enabled goroutine
			best := en[0]
			for _, g := range en {
				if g.prio > best.prio {
					best = g
				}
			}
			best.prio = -s.steps
		}
		best := en[0]
		for _, g := range en {
			if g.prio > best.prio {
				best = g
			}
		}
		return best
	default:
		return en[s.rng.Intn(len(en))]
	}
}

func (s *Sched) tick() bool {
	var best *TickerState
	for _, t := range s.Ticks {
		if !t.Stopped && (best == nil || t.Next < best.Next) {
			best = t
		}
	}
	if best == nil {
		return false
	}
	s.Clock = best.Next
	best.Next += best.Period
	best.Fire(s.Clock)
	s.Log = append(s.Log, Event{-1, 0, "tick", s.ObjID(best.C), 0, fmt.Sprint(s.Clock)})
	s.Choices = append(s.Choices, -1)
	return true
}

func (s *Sched) fingerprint() string {
	var b strings.Builder
	for _, g := range s.gs {
		if g.done {
			continue
		}
		if g.pend != nil {
			fmt.Fprintf(&b, "%d@%d:%v;", g.ID, g.pend.Site, !g.pend.Idle && (g.pend.Enabled == nil || g.pend.Enabled()))
		}
	}
	return b.String()
}

// switchFrom: g has published its pending op (or is done). Choose next and transfer the token.
func (s *Sched) switchFrom(g *G) {
	for {
		if len(s.Log) > s.cfg.MaxEvents {
			s.Livelock = true
			s.finish(g)
			return
		}
		en := s.enabledGs()
		if len(en) > 0 && s.cfg.TickProb > 0 && len(s.Ticks) > 0 && s.scriptPos >= len(s.cfg.Script) && s.rng.Intn(s.cfg.TickProb) == 0 {
			s.tick()
			en = s.enabledGs()
		}
		if len(en) == 0 {
			// nothing can move: deliver ticks (virtual time passes) until something is enabled or
			// the parked configuration repeats
			if s.idleTicks < s.cfg.MaxIdleTicks && s.tick() {
				s.idleTicks++
				continue
			}
			if !s.main.done {
				s.Hang = true
			}
			s.finish(g)
			return
		}
		if s.scriptPos < len(s.cfg.Script) && s.cfg.Script[s.scriptPos] == -1 {
			s.scriptPos++
			s.tick()
			continue
		}
		next := s.pick(en)
		s.Choices = append(s.Choices, next.ID)
		if next == g {
			return
		}
		// read before the token is handed over: once the next goroutine runs, the episode may end
		// and the finisher mark g done while g is still on its way to its wake channel
		gone := g.done
		s.cur = next
		next.wake <- struct{}{}
		if gone {
			return
		}
		<-g.wake
		if g.poison {
			g.unw = true
			runtime.Goexit()
		}
		return
	}
}

// finish: the episode is over (quiescent, hung or cut). Parked goroutines are unwound one at a
// time; shim calls made by their deferred functions are no-ops.
func (s *Sched) finish(g *G) {
	self := !g.done
	go func() {
		if self {
			<-g.exited
		}
		for _, x := range s.gs {
			if !x.done && x != g {
				x.poison = true
				x.done = true
				s.cur = x
				x.wake <- struct{}{}
				<-x.exited
			}
		}
		close(s.endCh)
	}()
	if self {
		g.poison = true
		g.done = true
		g.unw = true
		runtime.Goexit()
	}
}

func (s *Sched) newG(name string, client bool) *G {
	g := &G{ID: len(s.gs), Name: name, wake: make(chan struct{}, 1), exited: make(chan struct{}), Client: client}
	g.prio = 1000 + s.rng.Intn(1000000)
	s.gs = append(s.gs, g)
	return g
}

func goImpl(site int, name string, client bool, f func()) {
	s := S
	if s == nil {
		go f()
		return
	}
	ng := s.newG(name, client)
	ng.pend = &Op{Site: site, Kind: "start"}
	go func() {
		defer close(ng.exited)
		<-ng.wake
		if ng.poison {
			return
		}
		ng.pend = nil
		s.Log = append(s.Log, Event{ng.ID, site, "start", 0, 0, name})
		defer func() {
			if ng.poison {
				return
			}
			if r := recover(); r != nil {
				s.Panics = append(s.Panics, fmt.Sprint(r))
				s.Log = append(s.Log, Event{ng.ID, 0, "panic", 0, 0, strings.ReplaceAll(fmt.Sprint(r), " ", "_")})
			}
			ng.done = true
			s.Log = append(s.Log, Event{ng.ID, 0, "exit", 0, 0, ""})
			s.switchFrom(ng)
		}()
		f()
	}()
	// the new goroutine may take its first step before the scheduling point below is logged:
	// "spawn" marks the instant of the go statement (what happens-before the goroutine's start)
	Note(site, "spawn", nil, nil, fmt.Sprint(ng.ID))
	Do(site, "go", nil, nil, nil, func() string { return fmt.Sprint(ng.ID) })
}

// Go replaces the go statement of the library.
func Go(site int, f func()) { goImpl(site, "lib", false, f) }

// GoClient starts a goroutine of the scenario (a client thread of the model).
func GoClient(name string, f func()) { goImpl(0, name, true, f) }

// Run executes main under the controlled scheduler and returns at quiescence.
func Run(cfg Config, main func()) *Sched {
	if cfg.MaxEvents == 0 {
		cfg.MaxEvents = 60000
	}
	if cfg.MaxIdleTicks == 0 {
		cfg.MaxIdleTicks = 12
	}
	s := &Sched{cfg: cfg, rng: rand.New(rand.NewSource(cfg.Seed)), objs: map[uintptr]int{}, endCh: make(chan struct{}),
		pctChange: map[int]bool{}, closedCh: map[uintptr]bool{}}
	if cfg.Strategy == "pct" {
		for i := 0; i < cfg.PCTDepth; i++ {
			s.pctChange[1+s.rng.Intn(1500)] = true
		}
	}
	S = s
	g0 := s.newG("main", true)
	s.main = g0
	s.cur = g0
	go func() {
		defer close(g0.exited)
		defer func() {
			if g0.poison {
				return
			}
			if r := recover(); r != nil {
				s.Panics = append(s.Panics, fmt.Sprint(r))
				s.Log = append(s.Log, Event{0, 0, "panic", 0, 0, strings.ReplaceAll(fmt.Sprint(r), " ", "_")})
			}
			g0.done = true
			s.Log = append(s.Log, Event{0, 0, "exit", 0, 0, ""})
			s.switchFrom(g0)
		}()
		main()
	}()
	<-s.endCh
	S = nil
	return s
}

// Parked lists the goroutines still alive at the end of the episode and where they are parked.
type ParkedG struct {
	ID     int
	Name   string
	Site   int
	Kind   string
	Client bool
}

func (s *Sched) Parked() []ParkedG {
	var r []ParkedG
	for _, g := range s.gs {
		if g.poison && g.pend != nil {
			r = append(r, ParkedG{g.ID, g.Name, g.pend.Site, g.pend.Kind, g.Client})
		}
	}
	sort.Slice(r, func(i, j int) bool { return r[i].ID < r[j].ID })
	return r
}

func (s *Sched) NumGoroutines() int { return len(s.gs) }

// LibAlive: library goroutines (started through the rewritten go statements) that have not exited
func LibAlive() int {
	s := S
	if s == nil {
		return 0
	}
	n := 0
	for _, g := range s.gs {
		if !g.Client && !g.done {
			n++
		}
	}
	return n
}

// LibPendingAt counts the live library goroutines whose next operation is at the given site
// (called by a client while everything else is at rest).
func LibPendingAt(siteOf func(site int) bool) int {
	s := S
	if s == nil {
		return 0
	}
	n := 0
	for _, g := range s.gs {
		if !g.Client && !g.done && g.pend != nil && siteOf(g.pend.Site) {
			n++
		}
	}
	return n
}

// PoolMiss decides whether sync.Pool.Get drops its cache (the real pool may, at any time).
func PoolMiss() bool {
	s := S
	return s != nil && s.cfg.PoolMissProb > 0 && s.rng.Intn(s.cfg.PoolMissProb) == 0
}

// ---------------------------------------------------------------- channels (real channels, used non-blockingly)

func chanKey(ch any) uintptr { return ptrOf(ch) }

// digest renders a channel payload for the log (used by the response slice to compare what was
// sent with what was received)
func digest(v any) string {
	s := fmt.Sprintf("%v", v)
	s = strings.Map(func(r rune) rune {
		if r == ' ' || r == '\n' || r == '\t' {
			return '_'
		}
		return r
	}, s)
	if len(s) > 80 {
		s = s[:80]
	}
	if s == "" {
		s = "-"
	}
	return s
}

func Send[T any](site int, owner any, ch chan<- T, v T) {
	Do(site, "send", ch, owner, func() bool { return ch != nil && len(ch) < cap(ch) }, func() string {
		ch <- v // panics if closed, like the real thing
		return digest(v)
	})
}

func TrySend[T any](site int, owner any, ch chan<- T, v T) bool {
	ok := false
	Do(site, "trysend", ch, owner, nil, func() string {
		select {
		case ch <- v:
			ok = true
		default:
		}
		if ok {
			return "1"
		}
		return "0"
	})
	return ok
}

func recvReady[T any](ch <-chan T) bool {
	if ch == nil {
		return false
	}
	if len(ch) > 0 {
		return true
	}
	if S != nil && S.closedCh[chanKey(ch)] {
		return true
	}
	if cap(ch) == 0 { // e.g. ctx.Done(): closed => ready; never carries values
		select {
		case _, k := <-ch:
			return !k
		default:
		}
	}
	return false
}

func Recv[T any](site int, owner any, ch <-chan T) (v T, ok bool) {
	Do(site, "recv", ch, owner, func() bool { return recvReady(ch) }, func() string {
		select {
		case v, ok = <-ch:
		default:
			panic(fmt.Sprintf("vt: recv not ready (episode seed %d %s, event %d)", S.cfg.Seed, S.cfg.Strategy, len(S.Log)))
		}
		if ok {
			return "1 " + digest(v)
		}
		return "0"
	})
	return
}

// Select2 models `select { case <-a: ...; case <-b: ... }` over two receive cases: returns the
// index of the case taken (chosen by the scheduler's PRNG when both are ready).
func Select2[A, B any](site int, a <-chan A, b <-chan B) (idx int, va A, vb B, ok bool) {
	Do(site, "select", a, b, func() bool { return recvReady(a) || recvReady(b) }, func() string {
		ra, rb := recvReady(a), recvReady(b)
		pickA := ra
		if ra && rb && S != nil {
			pickA = S.rng.Intn(2) == 0
		}
		if pickA {
			select {
			case va, ok = <-a:
			default:
				panic(fmt.Sprintf("vt: select not ready (episode seed %d %s, event %d)", S.cfg.Seed, S.cfg.Strategy, len(S.Log)))
			}
			idx = 0
		} else {
			select {
			case vb, ok = <-b:
			default:
				panic(fmt.Sprintf("vt: select not ready (episode seed %d %s, event %d)", S.cfg.Seed, S.cfg.Strategy, len(S.Log)))
			}
			idx = 1
		}
		if ok {
			return fmt.Sprintf("%d:1", idx)
		}
		return fmt.Sprintf("%d:0", idx)
	})
	return
}

func Close[T any](site int, owner any, ch chan T) {
	Do(site, "close", ch, owner, nil, func() string {
		if S != nil {
			S.closedCh[chanKey(ch)] = true
		}
		close(ch) // panics on double close / nil, like the real thing
		return ""
	})
}

// ---------------------------------------------------------------- harness-side primitives

// Gate blocks worker functions until the scenario opens it.
type Gate struct{ open bool }

func (g *Gate) Wait()  { Do(0, "gate.wait", g, nil, func() bool { return g.open }, func() string { return "" }) }
func (g *Gate) Open()  { Do(0, "gate.open", g, nil, nil, func() string { g.open = true; return "" }) }
func (g *Gate) IsOpen() bool { return g.open }

// Yield is a pure scheduling point for scenario code.
func Yield() { Do(0, "yield", nil, nil, nil, func() string { return "" }) }

// WaitUntil parks the scenario goroutine until pred holds (pred must only read shim/harness state).
func WaitUntil(pred func() bool) {
	Do(0, "waituntil", nil, nil, pred, func() string { return "" })
}

// WaitIdle parks the scenario goroutine until no other goroutine can take a step (the system
// is at rest apart from timers): the point where "exact at rest" statements are sampled.
func WaitIdle() { Do(0, "waitidle", nil, nil, nil, func() string { return "" }) }

// ForceTick advances virtual time to the next ticker deadline and delivers the tick (scenario
// code uses it, after WaitIdle, to let idle-expiry elapse).
func ForceTick() bool {
	ok := false
	Do(0, "forcetick", nil, nil, nil, func() string {
		if S != nil {
			ok = S.tick()
		}
		return ""
	})
	return ok
}

// Mark logs a scenario-level event (API call / return, worker-function enter / exit ...).
func Mark(kind string, obj any, val string) { Note(0, kind, obj, nil, val) }

// Rand exposes the episode PRNG to scenario code so that every random choice derives from one seed.
func Rand() *rand.Rand {
	if S == nil {
		return rand.New(rand.NewSource(1))
	}
	return S.rng
}
