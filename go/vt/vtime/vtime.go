// Package vtime mirrors the parts of time the library uses, on a virtual clock.
package vtime

import (
	"time"

	"github.com/goptics/varmq/internal/vt"
)

type Duration = time.Duration
type Time = time.Time

const (
	Nanosecond  = time.Nanosecond
	Microsecond = time.Microsecond
	Millisecond = time.Millisecond
	Second      = time.Second
	Minute      = time.Minute
	Hour        = time.Hour
)

func Now() Time {
	if vt.S == nil {
		return time.Unix(0, 0)
	}
	return time.Unix(0, vt.S.Clock)
}

func Since(t Time) Duration { return Now().Sub(t) }

type Ticker struct {
	C  <-chan Time
	st *vt.TickerState
	c  chan Time
}

func NewTicker(d Duration) *Ticker {
	if d <= 0 {
		panic("non-positive interval for NewTicker")
	}
	c := make(chan Time, 1)
	st := &vt.TickerState{C: c, Period: int64(d)}
	st.Fire = func(now int64) {
		select {
		case c <- time.Unix(0, now):
		default:
		}
	}
	if vt.S != nil {
		st.Next = vt.S.Clock + int64(d)
		vt.S.Ticks = append(vt.S.Ticks, st)
	}
	return &Ticker{st: st, C: c, c: c}
}

func (t *Ticker) Stop_(site int, owner any) {
	vt.Note(site, "tickerstop", t.c, owner, "")
	t.st.Stopped = true
}
func (t *Ticker) Stop() { t.st.Stopped = true }
