// Package vsync mirrors the parts of sync the library uses, on top of the controlled scheduler.
package vsync

import "github.com/goptics/varmq/internal/vt"

type Locker interface {
	Lock()
	Unlock()
}

type Mutex struct{ locked bool }

func (m *Mutex) Lock_(site int, owner any) {
	vt.Do(site, "lock", m, owner, func() bool { return !m.locked }, func() string { m.locked = true; return "" })
}
func (m *Mutex) Unlock_(site int, owner any) {
	vt.Do(site, "unlock", m, owner, nil, func() string {
		if !m.locked {
			panic("sync: unlock of unlocked mutex")
		}
		m.locked = false
		return ""
	})
}
func (m *Mutex) Lock()   { m.Lock_(0, nil) }
func (m *Mutex) Unlock() { m.Unlock_(0, nil) }

// RWMutex: as sync.RWMutex, a Lock that has been called and is waiting for the readers to leave
// keeps new readers out ("if any goroutine calls Lock while the lock is already held by one or
// more readers, concurrent calls to RLock will block until the writer has acquired (and
// released) the lock"). The call of Lock is a step of its own (lockreq), so that a writer can
// arrive at any point relative to the readers; recursive read locking deadlocks here exactly
// when it can in the real thing.
type RWMutex struct {
	w     bool
	r     int
	wwait int // writers that have called Lock and not yet acquired
}

func (m *RWMutex) Lock_(site int, owner any) {
	vt.Do(site, "lockreq", m, owner, nil, func() string { m.wwait++; return "" })
	vt.Do(site, "lock", m, owner, func() bool { return !m.w && m.r == 0 }, func() string { m.w = true; m.wwait--; return "" })
}
func (m *RWMutex) Unlock_(site int, owner any) {
	vt.Do(site, "unlock", m, owner, nil, func() string {
		if !m.w {
			panic("sync: Unlock of unlocked RWMutex")
		}
		m.w = false
		return ""
	})
}
func (m *RWMutex) RLock_(site int, owner any) {
	vt.Do(site, "rlock", m, owner, func() bool { return !m.w && m.wwait == 0 }, func() string { m.r++; return "" })
}
func (m *RWMutex) RUnlock_(site int, owner any) {
	vt.Do(site, "runlock", m, owner, nil, func() string {
		if m.r <= 0 {
			panic("sync: RUnlock of unlocked RWMutex")
		}
		m.r--
		return ""
	})
}
func (m *RWMutex) Lock()    { m.Lock_(0, nil) }
func (m *RWMutex) Unlock()  { m.Unlock_(0, nil) }
func (m *RWMutex) RLock()   { m.RLock_(0, nil) }
func (m *RWMutex) RUnlock() { m.RUnlock_(0, nil) }

// release is used by Cond.Wait: unlock without a scheduling point of its own
func release(l Locker) {
	switch x := l.(type) {
	case *RWMutex:
		x.w = false
	case *Mutex:
		x.locked = false
	}
}

type Cond struct {
	L       Locker
	waiters []*bool
}

func NewCond(l Locker) *Cond { return &Cond{L: l} }

// Wait = three operations: enqueue-and-unlock (atomic, as in sync.Cond), woken, re-lock.
func (c *Cond) Wait_(site int, owner any) {
	woken := new(bool)
	vt.Do(site, "cwait", c, owner, nil, func() string {
		c.waiters = append(c.waiters, woken)
		release(c.L)
		return ""
	})
	vt.Do(site, "cwoken", c, owner, func() bool { return *woken }, func() string { return "" })
	switch l := c.L.(type) {
	case *RWMutex:
		l.Lock_(site, owner)
	case *Mutex:
		l.Lock_(site, owner)
	default:
		c.L.Lock()
	}
}
func (c *Cond) Broadcast_(site int, owner any) {
	vt.Do(site, "broadcast", c, owner, nil, func() string {
		n := len(c.waiters)
		for _, w := range c.waiters {
			*w = true
		}
		c.waiters = nil
		return itoa(n)
	})
}
func (c *Cond) Signal_(site int, owner any) {
	vt.Do(site, "signal", c, owner, nil, func() string {
		if len(c.waiters) > 0 {
			*c.waiters[0] = true
			c.waiters = c.waiters[1:]
			return "1"
		}
		return "0"
	})
}
func (c *Cond) NumWaiters() int { return len(c.waiters) }

type WaitGroup struct{ n int }

func (w *WaitGroup) Add_(site int, owner any, d int) {
	vt.Do(site, "wgadd", w, owner, nil, func() string {
		w.n += d
		if w.n < 0 {
			panic("sync: negative WaitGroup counter")
		}
		return itoa(w.n)
	})
}
func (w *WaitGroup) Done_(site int, owner any) { w.Add_(site, owner, -1) }
func (w *WaitGroup) Wait_(site int, owner any) {
	vt.Do(site, "wgwait", w, owner, func() bool { return w.n == 0 }, func() string { return "" })
}
func (w *WaitGroup) Add(d int) { w.Add_(0, nil, d) }
func (w *WaitGroup) Done()     { w.Add_(0, nil, -1) }
func (w *WaitGroup) Wait()     { w.Wait_(0, nil) }
func (w *WaitGroup) Count() int { return w.n }

// Pool: Get returns a cached item or calls New; the real pool may drop its cache at any time,
// which the scheduler models as a PRNG choice.
type Pool struct {
	New   func() any
	items []any
}

func (p *Pool) Get_(site int, owner any) any {
	var r any
	vt.Do(site, "poolget", p, owner, nil, func() string {
		if vt.PoolMiss() {
			p.items = nil
		}
		if n := len(p.items); n > 0 {
			r = p.items[n-1]
			p.items = p.items[:n-1]
			return "hit"
		}
		return "miss"
	})
	if r == nil && p.New != nil {
		r = p.New()
	}
	return r
}
func (p *Pool) Put_(site int, owner any, x any) {
	vt.Do(site, "poolput", p, owner, nil, func() string { p.items = append(p.items, x); return "" })
}
func (p *Pool) Get() any  { return p.Get_(0, nil) }
func (p *Pool) Put(x any) { p.Put_(0, nil, x) }

func itoa(n int) string {
	if n == 0 {
		return "0"
	}
	neg := n < 0
	if neg {
		n = -n
	}
	var b [24]byte
	i := len(b)
	for n > 0 {
		i--
		b[i] = byte('0' + n%10)
		n /= 10
	}
	if neg {
		i--
		b[i] = '-'
	}
	return string(b[i:])
}
