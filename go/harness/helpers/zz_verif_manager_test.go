package helpers

// Differential-test writer for the Coq model Manager.v (injected into internal/helpers by
// `go test -overlay`; never written into /repo).
// It drives Manager[*vItem] with generated sequences of Register / UnregisterItem / set-length /
// GetRoundRobinItem / GetMaxLenItem / GetMinLenItem / Len / Count and records every observable
// result, one record per line; ocaml/validate (v_manager.ml) replays the records on the
// extracted model. Record formats: see the header of ocaml/v_manager.ml.
//
// Plain-Go reference oracles (independent of the Coq model) write
//   #VIOLATION mgr.<kind> episode=<n> op=<n> <detail>
// kinds: mgr.rr (next non-empty in cyclic order from the cursor, cursor just past it),
//        mgr.max (first longest, non-empty; only evaluated when all lengths are >= 0),
//        mgr.min (first shortest non-empty), mgr.fair (equal share / no starvation between
//        membership changes), mgr.len (Len = sum, Count = number registered),
//        mgr.unreg (UnregisterItem removes exactly one occurrence of exactly that item).

import (
	"bufio"
	"fmt"
	"math"
	"math/rand"
	"os"
	"sort"
	"strconv"
	"strings"
	"testing"
)

type vItem struct {
	id int
	n  int
}

func (v *vItem) Len() int { return v.n }

type vmRec struct {
	w     *bufio.Writer
	stats map[string]int
	ep    int
	op    int
	viols int
}

func (r *vmRec) p(format string, a ...any) { fmt.Fprintf(r.w, format+"\n", a...) }

func (r *vmRec) viol(kind string, format string, a ...any) {
	r.viols++
	r.stats["viol."+kind]++
	if r.viols <= 20 {
		fmt.Fprintf(r.w, "#VIOLATION %s episode=%d op=%d %s\n", kind, r.ep, r.op, fmt.Sprintf(format, a...))
	}
}

func vmEnvInt(name string, def int) int {
	if v, err := strconv.Atoi(os.Getenv(name)); err == nil {
		return v
	}
	return def
}

func vmPos(m *Manager[*vItem], it *vItem) int {
	for i, x := range m.items {
		if x == it {
			return i
		}
	}
	return -1
}

func vmLens(m *Manager[*vItem]) []int {
	ls := make([]int, len(m.items))
	for i, it := range m.items {
		ls[i] = it.n
	}
	return ls
}

func vmJoin(xs []int) string {
	var b strings.Builder
	b.WriteString(strconv.Itoa(len(xs)))
	for _, x := range xs {
		b.WriteByte(' ')
		b.WriteString(strconv.Itoa(x))
	}
	return b.String()
}

func vmRes(m *Manager[*vItem], it *vItem, err error) string {
	switch err {
	case nil:
		return strconv.Itoa(vmPos(m, it))
	case ErrNoItemsRegistered:
		return "E0"
	case ErrAllItemsEmpty:
		return "E1"
	}
	return "E?"
}

// fairness bookkeeping, by position, valid between two membership changes
type vmFair struct {
	k      int     // number of RoundRobin calls in this epoch
	since  []int   // first call index since which the position was non-empty at every call; -1
	pickAt [][]int // call indices at which the position was picked
}

func (f *vmFair) reset(n int) {
	f.k = 0
	f.since = make([]int, n)
	f.pickAt = make([][]int, n)
	for i := range f.since {
		f.since[i] = -1
	}
}

func vmCountFrom(xs []int, t int) int {
	return len(xs) - sort.SearchInts(xs, t)
}

type vmEpisode struct {
	r       *vmRec
	rng     *rand.Rand
	m       Manager[*vItem]
	fair    vmFair
	nextID  int
	spare   []*vItem // created but currently not registered
	pinned  map[*vItem]bool
	lenMode int
}

var vmExtremes = []int{math.MaxInt64, math.MinInt64, math.MaxInt64 - 1, math.MinInt64 + 1, 1 << 62, -(1 << 62)}

func (e *vmEpisode) genLen(it *vItem) int {
	rng := e.rng
	if e.pinned[it] {
		return 1 + rng.Intn(4)
	}
	switch k := rng.Intn(1000); {
	case k < 12:
		e.r.stats["gen.negative_len"]++
		return -1 - rng.Intn(3)
	case k < 15:
		e.r.stats["gen.extreme_len"]++
		return vmExtremes[rng.Intn(len(vmExtremes))]
	}
	switch e.lenMode {
	case 0: // mostly empty
		if rng.Intn(4) != 0 {
			return 0
		}
		return 1 + rng.Intn(3)
	case 1: // many ties
		return rng.Intn(3)
	case 2: // all empty
		return 0
	case 3: // wide
		return rng.Intn(1000)
	default: // busy: mostly non-empty, small
		return rng.Intn(5)
	}
}

// the dispatcher dequeues one job from the selected queue (pinned items never run dry)
func (e *vmEpisode) deq(it *vItem) {
	if it.n > 0 && !(e.pinned[it] && it.n <= 1) && e.rng.Intn(3) != 0 {
		it.n--
	}
}

func (e *vmEpisode) register(it *vItem) {
	e.m.Register(it)
	e.r.p("M+ %d %d %d", it.id, len(e.m.items), e.m.roundRobinIndex)
	e.fair.reset(len(e.m.items))
	e.r.stats["op.register"]++
}

func (e *vmEpisode) unregister(it *vItem) {
	m := &e.m
	before := append([]*vItem(nil), m.items...)
	pos := vmPos(m, it)
	if pos < 0 {
		pos = len(m.items)
		e.r.stats["op.unregister_absent"]++
	} else {
		e.r.stats["op.unregister"]++
	}
	m.UnregisterItem(it)
	ids := make([]int, len(m.items))
	for i, x := range m.items {
		ids[i] = x.id
	}
	line := fmt.Sprintf("M- %d %d %d", pos, len(m.items), m.roundRobinIndex)
	for _, id := range ids {
		line += " " + strconv.Itoa(id)
	}
	e.r.p("%s", line)
	// oracle: exactly one occurrence of exactly that item is gone
	cnt := map[*vItem]int{}
	for _, x := range before {
		cnt[x]++
	}
	if cnt[it] > 0 {
		cnt[it]--
	}
	for _, x := range m.items {
		cnt[x]--
	}
	for x, c := range cnt {
		if c != 0 {
			e.r.viol("mgr.unreg", "after UnregisterItem(id %d): item id %d count off by %d", it.id, x.id, c)
		}
	}
	if m.roundRobinIndex < 0 || (m.roundRobinIndex >= len(m.items) && m.roundRobinIndex != 0) {
		e.r.viol("mgr.unreg", "cursor %d out of range for %d items", m.roundRobinIndex, len(m.items))
	}
	e.fair.reset(len(m.items))
}

func (e *vmEpisode) callRR() {
	m := &e.m
	r := e.r
	n := len(m.items)
	lens := vmLens(m)
	before := m.roundRobinIndex
	f := &e.fair
	for p := 0; p < n; p++ {
		if lens[p] > 0 {
			if f.since[p] < 0 {
				f.since[p] = f.k
			}
		} else {
			f.since[p] = -1
		}
	}
	it, err := m.GetRoundRobinItem()
	after := m.roundRobinIndex
	r.p("MRR %s %s %d", vmJoin(lens), vmRes(m, it, err), after)
	r.stats["op.rr"]++
	// oracle mgr.rr
	exp, expCur := -1, before
	for k := 0; k < n; k++ {
		i := (before + k) % n
		if lens[i] > 0 {
			exp, expCur = i, (i+1)%n
			break
		}
	}
	switch {
	case n == 0:
		if err != ErrNoItemsRegistered || after != before {
			r.viol("mgr.rr", "no items: err=%v cursor %d->%d", err, before, after)
		}
		r.stats["rr.noitems"]++
	case exp < 0:
		if err != ErrAllItemsEmpty || after != before {
			r.viol("mgr.rr", "lens=%v cursor=%d: want ErrAllItemsEmpty, cursor unchanged; got err=%v cursor=%d", lens, before, err, after)
		}
		r.stats["rr.allempty"]++
	default:
		if err != nil || it != m.items[exp] || after != expCur {
			r.viol("mgr.rr", "lens=%v cursor=%d: want position %d, cursor %d; got %s err=%v cursor=%d", lens, before, exp, expCur, vmRes(m, it, err), err, after)
		}
		r.stats["rr.picked"]++
		if exp != before {
			r.stats["rr.skipped_empty"]++
		}
	}
	// oracle mgr.fair (positions; the picked position is the one just before the new cursor)
	if err == nil && n > 0 {
		p := (after - 1 + n) % n
		f.pickAt[p] = append(f.pickAt[p], f.k)
		e.deq(it)
	}
	for a := 0; a < n; a++ {
		if f.since[a] < 0 {
			continue
		}
		if f.k-f.since[a]+1 >= n {
			r.stats["fair.window_checks"]++
			if vmCountFrom(f.pickAt[a], f.k-n+1) == 0 {
				r.viol("mgr.fair", "position %d non-empty during the last %d RoundRobin calls but not picked", a, n)
			}
		}
		for b := a + 1; b < n; b++ {
			if f.since[b] < 0 {
				continue
			}
			t := f.since[a]
			if f.since[b] > t {
				t = f.since[b]
			}
			ca, cb := vmCountFrom(f.pickAt[a], t), vmCountFrom(f.pickAt[b], t)
			r.stats["fair.pair_checks"]++
			if f.k-t+1 >= 2*n {
				r.stats["fair.pair_checks_long"]++
			}
			if ca-cb > 1 || cb-ca > 1 {
				r.viol("mgr.fair", "positions %d and %d both non-empty over the last %d RoundRobin calls, picked %d vs %d times", a, b, f.k-t+1, ca, cb)
			}
		}
	}
	f.k++
}

func (e *vmEpisode) callMax() {
	m := &e.m
	r := e.r
	lens := vmLens(m)
	before := m.roundRobinIndex
	it, err := m.GetMaxLenItem()
	r.p("MMAX %s %s %d", vmJoin(lens), vmRes(m, it, err), m.roundRobinIndex)
	r.stats["op.max"]++
	if m.roundRobinIndex != before {
		r.viol("mgr.max", "cursor moved %d->%d", before, m.roundRobinIndex)
	}
	neg := false
	best := -1
	for i, l := range lens {
		if l < 0 {
			neg = true
		}
		if best < 0 || l > lens[best] {
			best = i
		}
	}
	if neg {
		r.stats["max.skipped_negative"]++
		return
	}
	switch {
	case len(lens) == 0:
		if err != ErrNoItemsRegistered {
			r.viol("mgr.max", "no items: err=%v", err)
		}
	case lens[best] == 0:
		if err != ErrAllItemsEmpty {
			r.viol("mgr.max", "lens=%v: want ErrAllItemsEmpty, got %s err=%v", lens, vmRes(m, it, err), err)
		}
		r.stats["max.allempty"]++
	default:
		if err != nil || it != m.items[best] {
			r.viol("mgr.max", "lens=%v: want position %d, got %s err=%v", lens, best, vmRes(m, it, err), err)
		}
		ties := 0
		for _, l := range lens {
			if l == lens[best] {
				ties++
			}
		}
		if ties > 1 {
			r.stats["max.ties"]++
		}
		if err == nil {
			e.deq(it)
		}
	}
}

func (e *vmEpisode) callMin() {
	m := &e.m
	r := e.r
	lens := vmLens(m)
	before := m.roundRobinIndex
	it, err := m.GetMinLenItem()
	r.p("MMIN %s %s %d", vmJoin(lens), vmRes(m, it, err), m.roundRobinIndex)
	r.stats["op.min"]++
	if m.roundRobinIndex != before {
		r.viol("mgr.min", "cursor moved %d->%d", before, m.roundRobinIndex)
	}
	best := -1
	for i, l := range lens {
		if l > 0 && (best < 0 || l < lens[best]) {
			best = i
		}
	}
	switch {
	case len(lens) == 0:
		if err != ErrNoItemsRegistered {
			r.viol("mgr.min", "no items: err=%v", err)
		}
	case best < 0:
		if err != ErrAllItemsEmpty {
			r.viol("mgr.min", "lens=%v: want ErrAllItemsEmpty, got %s err=%v", lens, vmRes(m, it, err), err)
		}
		r.stats["min.allempty"]++
	default:
		if err != nil || it != m.items[best] {
			r.viol("mgr.min", "lens=%v: want position %d, got %s err=%v", lens, best, vmRes(m, it, err), err)
		}
		ties := 0
		for _, l := range lens {
			if l == lens[best] {
				ties++
			}
		}
		if ties > 1 {
			r.stats["min.ties"]++
		}
		if err == nil {
			e.deq(it)
		}
	}
}

func (e *vmEpisode) callLen() {
	m := &e.m
	lens := vmLens(m)
	got := m.Len()
	e.r.p("MLEN %s %d", vmJoin(lens), got)
	e.r.stats["op.len"]++
	sum := 0
	for _, l := range lens {
		sum += l
	}
	if got != sum {
		e.r.viol("mgr.len", "Len()=%d, sum of %v = %d", got, lens, sum)
	}
}

func (e *vmEpisode) callCount(want int) {
	got := e.m.Count()
	e.r.p("MCNT %d", got)
	e.r.stats["op.count"]++
	if got != want {
		e.r.viol("mgr.len", "Count()=%d, registered=%d", got, want)
	}
}

// one episode. stable = membership fixed after the initial registrations (long fairness windows)
func vmRunEpisode(r *vmRec, rng *rand.Rand, nops int) {
	e := &vmEpisode{r: r, rng: rng, m: CreateManager[*vItem](), pinned: map[*vItem]bool{}}
	r.p("MGR")
	e.fair.reset(0)
	stable := rng.Intn(2) == 0
	e.lenMode = rng.Intn(5)
	target := []int{0, 1, 1, 2, 2, 3, 3, 4, 5, 6, 8}[rng.Intn(11)]
	registered := 0
	newItem := func() *vItem {
		it := &vItem{id: e.nextID}
		e.nextID++
		if stable && rng.Intn(3) == 0 && e.lenMode != 2 {
			e.pinned[it] = true
		}
		it.n = e.genLen(it)
		return it
	}
	if stable {
		r.stats["episodes.stable"]++
	} else {
		r.stats["episodes.churn"]++
	}
	r.stats[fmt.Sprintf("episodes.lenmode%d", e.lenMode)]++
	for i := 0; i < target; i++ {
		e.register(newItem())
		registered++
	}
	e.callCount(registered)
	for i := 0; i < nops; i++ {
		r.op = i
		m := &e.m
		k := rng.Intn(100)
		if !stable && k < 12 {
			switch c := rng.Intn(20); {
			case c < 9:
				var it *vItem
				if len(e.spare) > 0 && rng.Intn(2) == 0 {
					it = e.spare[len(e.spare)-1]
					e.spare = e.spare[:len(e.spare)-1]
				} else {
					it = newItem()
				}
				e.register(it)
				registered++
			case c < 10 && len(m.items) > 0:
				// the same item a second time (nothing prevents it)
				e.register(m.items[rng.Intn(len(m.items))])
				registered++
				r.stats["op.register_twice"]++
			case c < 18 && len(m.items) > 0:
				it := m.items[rng.Intn(len(m.items))]
				e.unregister(it)
				registered--
				if vmPos(m, it) < 0 {
					e.spare = append(e.spare, it)
				}
			default:
				// an item that is not registered
				it := &vItem{id: e.nextID, n: 1}
				e.nextID++
				if len(e.spare) > 0 {
					it = e.spare[0]
				}
				e.unregister(it)
			}
			continue
		}
		switch {
		case k < 40 && len(m.items) > 0:
			it := m.items[rng.Intn(len(m.items))]
			switch rng.Intn(4) {
			case 0:
				it.n = e.genLen(it)
			case 1:
				if it.n < math.MaxInt64-4 && !(e.lenMode == 2) {
					it.n += 1 + rng.Intn(3) // enqueue
				}
			default:
				it.n = e.genLen(it)
			}
			r.stats["op.setlen"]++
		case k < 70:
			e.callRR()
		case k < 81:
			e.callMax()
		case k < 92:
			e.callMin()
		case k < 97:
			e.callLen()
		default:
			e.callCount(registered)
		}
	}
	e.callLen()
	e.callCount(registered)
	if n := len(e.m.items); n > r.stats["max_items"] {
		r.stats["max_items"] = n
	}
}

func TestVerifManagerDiff(t *testing.T) {
	out := os.Getenv("VERIF_OUT")
	if out == "" {
		t.Skip("VERIF_OUT not set")
	}
	seed := int64(vmEnvInt("VERIF_SEED", 1))
	episodes := vmEnvInt("VERIF_EPISODES", 300)
	f, err := os.Create(out)
	if err != nil {
		t.Fatal(err)
	}
	defer f.Close()
	r := &vmRec{w: bufio.NewWriterSize(f, 1<<20), stats: map[string]int{}}
	defer r.w.Flush()
	rng := rand.New(rand.NewSource(seed))
	for ep := 0; ep < episodes; ep++ {
		r.ep = ep
		vmRunEpisode(r, rng, 40+rng.Intn(260))
		r.stats["episodes"]++
	}
	r.stats["oracle_violations"] = r.viols
	keys := make([]string, 0, len(r.stats))
	for k := range r.stats {
		keys = append(keys, k)
	}
	sort.Strings(keys)
	r.w.WriteString("#STATS")
	for _, k := range keys {
		fmt.Fprintf(r.w, " %s=%d", k, r.stats[k])
	}
	r.w.WriteString("\n")
}
