package varmq

// Native-mode harness: the UNMODIFIED library, real goroutines, real scheduler; built with
// -race by the driver. It covers what the controlled mode cannot: the race detector (C19) and
// sizes that cross the FIFO's real segment boundaries / large batches (C01, C04, C05, C08).
//   VERIF_OUT            JSON lines: {"prop":..,"kind":..,"detail":..}
//   VERIF_SEED           PRNG seed
//   VERIF_NATIVE_ROUNDS  rounds of the race mix
// Data races are reported by the race detector on stderr; the driver parses them.

import (
	"context"
	"encoding/json"
	"fmt"
	"math/rand"
	"os"
	"runtime"
	"strconv"
	"sync"
	"sync/atomic"
	"testing"
	"time"
)

type nviol struct {
	Prop   string `json:"prop"`
	Kind   string `json:"kind"`
	Detail string `json:"detail"`
}

type nrec struct {
	mu  sync.Mutex
	out []nviol
	st  map[string]int
}

func (r *nrec) add(prop, kind, format string, a ...any) {
	r.mu.Lock()
	defer r.mu.Unlock()
	if len(r.out) < 50 {
		r.out = append(r.out, nviol{prop, kind, fmt.Sprintf(format, a...)})
	}
}

func (r *nrec) stat(k string, n int) {
	r.mu.Lock()
	r.st[k] += n
	r.mu.Unlock()
}

// settle: the barriers return when nothing is in flight; the goroutine that ran the last job still
// has its epilogue to finish (Completed is counted after the slot is released). "At rest" in native
// mode = give it up to two seconds.
func settle(ok func() bool) {
	for i := 0; i < 400 && !ok(); i++ {
		time.Sleep(5 * time.Millisecond)
	}
}

func within(d time.Duration, f func()) bool {
	done := make(chan struct{})
	go func() { f(); close(done) }()
	select {
	case <-done:
		return true
	case <-time.After(d):
		return false
	}
}

// N1: a batch larger than 1024 items; Wait before reading the stream
func nativeBigBatch(r *nrec, rng *rand.Rand) {
	n := 1100 + rng.Intn(600)
	var ran atomic.Int64
	w := NewResultWorker(func(j Job[int]) (int, error) { ran.Add(1); return j.Data() * 2, nil }, 4)
	q := w.BindQueue()
	items := make([]Item[int], n)
	for i := range items {
		items[i] = Item[int]{ID: strconv.Itoa(i), Data: i}
	}
	g := q.AddAll(items)
	if !within(20*time.Second, g.Wait) {
		r.add("C05", "batch-wait-blocked", "batch of %d items: Wait did not return within 20 s (%d items ran, NumPending %d) although nobody has to read the stream first", n, ran.Load(), g.NumPending())
		r.add("C08", "batch-wait-blocked", "batch of %d items: workers blocked sending results (%d ran)", n, ran.Load())
		r.add("C03", "hang", "batch of %d items on a running worker whose stream nobody reads yet: %d ran, %d still pending, %d in flight after 20 s", n, ran.Load(), w.NumPending(), w.NumProcessing())
		return
	}
	got := 0
	ok := within(20*time.Second, func() {
		for res := range g.Results() {
			got++
			id, _ := strconv.Atoi(res.JobId[len("g:"):])
			if res.Data != id*2 || res.Err != nil {
				r.add("C08", "wrong-result", "item %s delivered %d,%v", res.JobId, res.Data, res.Err)
			}
		}
	})
	if !ok {
		r.add("C08", "stream-not-closed", "batch of %d items: stream not closed after all results were read (%d read)", n, got)
	} else if got != n {
		r.add("C08", "missing-result", "batch of %d items delivered %d results", n, got)
	}
	if p := g.NumPending(); p != 0 {
		r.add("C08", "pending-after-wait", "NumPending=%d after Wait returned", p)
	}
	w.Stop()
	r.stat("bigbatch.items", n)
	nativeBigPurge(r, rng)
	nativeMixedErrBatch(r, rng)
}

// N1c: an error batch whose items fail, succeed and panic side by side on several pool
// goroutines: the error stream carries exactly one error per failed item, its own (C08, C07)
func nativeMixedErrBatch(r *nrec, rng *rand.Rand) {
	for round := 0; round < 3; round++ {
		n := 300 + rng.Intn(300)
		w := NewErrWorker(func(j Job[int]) error {
			switch j.Data() % 3 {
			case 0:
				return fmt.Errorf("e%d", j.Data())
			case 1:
				return nil
			}
			panic(fmt.Sprintf("p%d", j.Data()))
		}, 4+rng.Intn(4))
		go func() {
			for range w.Errs() {
			}
		}()
		q := w.BindQueue()
		items := make([]Item[int], n)
		for i := range items {
			items[i] = Item[int]{ID: strconv.Itoa(i), Data: i}
		}
		g := q.AddAll(items)
		if round == 0 {
			// nobody reads the stream until the batch is over: every failing item still finds its slot
			if !within(20*time.Second, g.Wait) {
				r.add("C07", "pool-disabled", "error batch of %d items (%d failing or panicking), stream unread: Wait did not return within 20 s — %d still pending, %d in flight", n, 2*n/3, w.NumPending(), w.NumProcessing())
				r.add("C08", "batch-wait-blocked", "error batch of %d items, stream unread: Wait did not return within 20 s", n)
				r.add("C05", "batch-wait-blocked", "error batch of %d items, stream unread: Wait did not return within 20 s", n)
				r.add("C03", "hang", "error batch of %d items, stream unread: %d still pending, %d in flight after 20 s", n, w.NumPending(), w.NumProcessing())
				continue
			}
		}
		seen := map[string]int{}
		ok := within(20*time.Second, func() {
			for e := range g.Errs() {
				seen[e.Error()]++
			}
		})
		if !ok {
			r.add("C08", "stream-not-closed", "mixed error batch of %d items: the stream was not closed within 20 s", n)
			w.Stop()
			continue
		}
		want := 0
		for i := 0; i < n; i++ {
			var key string
			switch i % 3 {
			case 0:
				key = fmt.Sprintf("e%d", i)
			case 2:
				key = fmt.Sprintf("p%d", i)
			default:
				continue
			}
			want++
			c := 0
			for k, v := range seen {
				if k == key || (len(k) > len(key)+2 && k[len(k)-len(key)-2:] == ": "+key) {
					c += v
				}
			}
			if c != 1 {
				r.add("C08", "wrong-result", "mixed error batch of %d items: the error of item %d (%s) was delivered %d times", n, i, key, c)
				r.add("C07", "wrong-outcome", "mixed error batch of %d items: the error of item %d (%s) was delivered %d times", n, i, key, c)
				break
			}
		}
		total := 0
		for _, v := range seen {
			total += v
		}
		if total != want {
			r.add("C08", "missing-result", "mixed error batch of %d items: %d items failed, the stream carried %d errors", n, want, total)
		}
		w.Stop()
		r.stat("mixederr.items", n)
	}
}

// N1b: a batch that spans several segments of the FIFO queue is purged while it is pending: every
// item not yet dispatched is closed by Purge, so Wait returns, NumPending reaches 0 and the stream is
// closed after the results of the items that did run (C08, C10); the same for an error worker
func nativeBigPurge(r *nrec, rng *rand.Rand) {
	for _, kind := range []string{"result", "error"} {
		n := 1100 + rng.Intn(1500)
		gate := make(chan struct{})
		var ran atomic.Int64
		var q interface{ Purge() }
		var wait, drain func()
		var pending func() int
		var stop func()
		items := make([]Item[int], n)
		for i := range items {
			items[i] = Item[int]{ID: strconv.Itoa(i), Data: i}
		}
		got := 0
		if kind == "result" {
			w := NewResultWorker(func(j Job[int]) (int, error) { <-gate; ran.Add(1); return j.Data(), nil }, 2)
			rq := w.BindQueue()
			g := rq.AddAll(items)
			q, wait, pending, stop = rq, g.Wait, g.NumPending, func() { w.Stop() }
			drain = func() {
				for range g.Results() {
					got++
				}
			}
		} else {
			w := NewErrWorker(func(j Job[int]) error { <-gate; ran.Add(1); return fmt.Errorf("e%d", j.Data()) }, 2)
			eq := w.BindQueue()
			g := eq.AddAll(items)
			q, wait, pending, stop = eq, g.Wait, g.NumPending, func() { w.Stop() }
			drain = func() {
				for range g.Errs() {
					got++
				}
			}
		}
		time.Sleep(5 * time.Millisecond) // two items are in flight (gated), the rest pending
		q.Purge()
		close(gate)
		if !within(20*time.Second, wait) {
			r.add("C08", "batch-wait-blocked", "%s batch of %d items purged while pending: Wait did not return within 20 s (%d ran, NumPending %d)", kind, n, ran.Load(), pending())
			r.add("C10", "purge-lost", "%s batch of %d items purged while pending: %d items were neither run nor closed by Purge", kind, n, pending())
			continue
		}
		if p := pending(); p != 0 {
			r.add("C08", "pending-after-wait", "%s batch: NumPending=%d after Wait returned (purged batch)", kind, p)
		}
		if !within(20*time.Second, drain) {
			r.add("C08", "stream-not-closed", "%s batch of %d items purged while pending: stream not closed (%d read, %d ran)", kind, n, got, ran.Load())
		} else if got != int(ran.Load()) {
			r.add("C08", "missing-result", "%s batch of %d items purged while pending: %d items ran, %d outcomes on the stream", kind, n, ran.Load(), got)
		}
		stop()
		r.stat("bigpurge.items", n)
	}
}

// N2: bursts that cross the FIFO's 1024- and 1536-slot segments; every job exactly once; with
// concurrency 1 in submission order
func nativeBigBurst(r *nrec, rng *rand.Rand) {
	for _, conc := range []int{1, 8} {
		producers := 1
		if conc > 1 {
			producers = 4
		}
		per := 1300 + rng.Intn(900)
		total := producers * per
		counts := make([]atomic.Int32, total)
		var order []int
		var omu sync.Mutex
		w := NewWorker(func(j Job[int]) {
			counts[j.Data()].Add(1)
			if conc == 1 {
				omu.Lock()
				order = append(order, j.Data())
				omu.Unlock()
			}
		}, conc)
		q := w.BindQueue()
		if conc == 1 {
			w.Pause() // preload: the whole burst sits in the queue across several segments
		}
		var wg sync.WaitGroup
		for p := 0; p < producers; p++ {
			wg.Add(1)
			go func(p int) {
				defer wg.Done()
				for i := 0; i < per; i++ {
					if _, ok := q.Add(p*per + i); !ok {
						r.add("C01", "rejected", "Add rejected on an open queue")
					}
				}
			}(p)
		}
		wg.Wait()
		if conc == 1 {
			// interleave some dequeues with a second wave so that segments are entered and left
			w.Resume()
		}
		if !within(30*time.Second, w.WaitUntilFinished) {
			r.add("C03", "hang", "WaitUntilFinished did not return within 30 s after a burst of %d jobs (pending %d, processing %d)", total, w.NumPending(), w.NumProcessing())
			r.add("C01", "never-ran", "burst of %d jobs did not drain", total)
			return
		}
		for i := range counts {
			if c := counts[i].Load(); c != 1 {
				r.add("C01", "not-exactly-once", "burst of %d jobs (concurrency %d): job %d was invoked %d times", total, conc, i, c)
				break
			}
		}
		if conc == 1 {
			for i, d := range order {
				if d != i {
					r.add("C04", "order", "concurrency 1, burst of %d: position %d ran job %d", total, i, d)
					break
				}
			}
		}
		if p := w.NumPending(); p != 0 {
			r.add("C17", "pending-at-rest", "NumPending=%d after the burst drained", p)
		}
		w.Stop()
		r.stat("bigburst.jobs", total)
	}
}

// N4: outcomes under real parallelism: every handle must report its own job's outcome
func nativeOutcomes(r *nrec, rng *rand.Rand) {
	type pv struct{ N int }
	expectErr := func(d int, kind string) string {
		switch d % 5 {
		case 1:
			return fmt.Sprintf("e%d", d)
		case 2:
			return fmt.Sprintf("panic recovered inside %s: %v", kind, d) // panic(int)
		case 3:
			return fmt.Sprintf("panic recovered inside %s: %v", kind, pv{d}) // panic(struct)
		}
		return ""
	}
	body := func(d int) error {
		switch d % 5 {
		case 1:
			return fmt.Errorf("e%d", d)
		case 2:
			panic(d)
		case 3:
			panic(pv{d})
		}
		return nil
	}
	n := 300
	{
		w := NewErrWorker(func(j Job[int]) error { return body(j.Data()) }, 6)
		q := w.BindQueue()
		go func() {
			for range w.Errs() {
			}
		}()
		hs := make([]EnqueuedErrJob, n)
		for i := 0; i < n; i++ {
			hs[i], _ = q.Add(i)
		}
		for i, h := range hs {
			got := ""
			if err := h.Err(); err != nil {
				got = err.Error()
			}
			if want := expectErr(i, "err-worker"); got != want {
				r.add("C07", "wrong-outcome", "error worker, concurrency 6: Err() of job %d returned %q, its worker function produced %q", i, got, want)
				break
			}
		}
		w.WaitUntilFinished()
		m := w.Metrics()
		settle(func() bool { return m.Completed() == uint64(n) })
		if m.Completed() != uint64(n) || m.Failed() != uint64(3*n/5) || m.Successful()+m.Failed() != m.Completed() {
			r.add("C07", "metrics", "error worker: Completed=%d Successful=%d Failed=%d for %d jobs of which %d fail", m.Completed(), m.Successful(), m.Failed(), n, 3*n/5)
		}
		w.Stop()
	}
	{
		w := NewResultWorker(func(j Job[int]) (int, error) { return j.Data() * 3, body(j.Data()) }, 6)
		q := w.BindPriorityQueue()
		go func() {
			for range w.Errs() {
			}
		}()
		hs := make([]EnqueuedResultJob[int], n)
		for i := 0; i < n; i++ {
			hs[i], _ = q.Add(i, i%3)
		}
		for i, h := range hs {
			v, err := h.Result()
			got := ""
			if err != nil {
				got = err.Error()
			}
			want := expectErr(i, "result-worker")
			if got != want || (want == "" && v != i*3) {
				r.add("C07", "wrong-outcome", "result worker, concurrency 6: Result() of job %d returned (%d, %q), its worker function produced (%d, %q)", i, v, got, i*3, want)
				break
			}
			if v2, err2 := h.Result(); (err2 == nil) != (err == nil) || v2 != v {
				r.add("C07", "unstable-outcome", "Result() of job %d differs between calls", i)
				break
			}
		}
		w.Stop()
	}
	{
		var ran atomic.Int64
		w := NewWorker(func(j Job[int]) {
			ran.Add(1)
			if j.Data()%4 == 0 {
				panic([]byte("bytes"))
			}
		}, 4)
		q := w.BindQueue()
		nerr := atomic.Int64{}
		done := make(chan struct{})
		go func() {
			for range w.Errs() {
				nerr.Add(1)
			}
			close(done)
		}()
		for i := 0; i < 100; i++ {
			q.Add(i)
		}
		w.WaitUntilFinished()
		m := w.Metrics()
		settle(func() bool { return m.Failed()+m.Successful() == 100 })
		if ran.Load() != 100 || m.Failed() != 25 || m.Successful() != 75 {
			r.add("C07", "panic-not-contained", "plain worker: %d of 100 jobs ran, Failed=%d Successful=%d (25 of them panic with a []byte)", ran.Load(), m.Failed(), m.Successful())
		}
		w.Stop()
	}
	r.stat("outcomes.jobs", 2*n+100)
}

// N3: race mix — concurrent use of the whole public API under the race detector
func nativeRaceMix(r *nrec, rng *rand.Rand, round int) {
	kind := round % 3
	cfgs := []any{WithConcurrency(1 + rng.Intn(4))}
	if rng.Intn(2) == 0 {
		cfgs = append(cfgs, WithIdleWorkerExpiryDuration(time.Millisecond), WithMinIdleWorkerRatio(uint8(1+rng.Intn(100))))
	}
	var cancel context.CancelFunc
	if rng.Intn(3) == 0 {
		var ctx context.Context
		ctx, cancel = context.WithCancel(context.Background())
		cfgs = append(cfgs, WithContext(ctx))
	}
	var wg sync.WaitGroup
	stop := make(chan struct{})
	var W Worker
	type closer interface{ Close() error }
	var hmu sync.Mutex
	var handles []any
	addH := func(h any) { hmu.Lock(); handles = append(handles, h); hmu.Unlock() }
	pickH := func(rg *rand.Rand) any {
		hmu.Lock()
		defer hmu.Unlock()
		if len(handles) == 0 {
			return nil
		}
		return handles[rg.Intn(len(handles))]
	}
	var add func(rg *rand.Rand)
	var addAll func(rg *rand.Rand)
	var purge func()
	switch kind {
	case 0:
		w := NewWorker(func(j Job[int]) {
			if j.Data()%17 == 0 {
				panic("boom")
			}
		}, cfgs...)
		q := w.BindQueue()
		pq := w.BindPriorityQueue()
		W = w
		add = func(rg *rand.Rand) {
			if rg.Intn(2) == 0 {
				if h, ok := q.Add(rg.Intn(100)); ok {
					addH(h)
				}
			} else if h, ok := pq.Add(rg.Intn(100), rg.Intn(3)); ok {
				addH(h)
			}
		}
		addAll = func(rg *rand.Rand) {
			g := q.AddAll([]Item[int]{{ID: "a", Data: 1}, {ID: "b", Data: 2}, {ID: "c", Data: 3}})
			go func() { g.Wait(); _ = g.NumPending() }()
		}
		purge = func() { q.Purge(); _ = pq.NumPending() }
	case 1:
		w := NewErrWorker(func(j Job[int]) error {
			if j.Data()%5 == 0 {
				return fmt.Errorf("e%d", j.Data())
			}
			return nil
		}, cfgs...)
		q := w.BindQueue()
		W = w
		add = func(rg *rand.Rand) {
			if h, ok := q.Add(rg.Intn(100)); ok {
				addH(h)
			}
		}
		addAll = func(rg *rand.Rand) {
			g := q.AddAll([]Item[int]{{ID: "a", Data: 5}, {ID: "b", Data: 10}, {ID: "c", Data: 3}})
			go func() {
				for range g.Errs() {
				}
			}()
			go g.Wait()
		}
		purge = func() { q.Purge() }
	default:
		w := NewResultWorker(func(j Job[int]) (int, error) {
			if j.Data()%7 == 0 {
				return 0, fmt.Errorf("e%d", j.Data())
			}
			return j.Data() + 1, nil
		}, cfgs...)
		q := w.BindPriorityQueue()
		W = w
		add = func(rg *rand.Rand) {
			if h, ok := q.Add(rg.Intn(100), rg.Intn(4)); ok {
				addH(h)
			}
		}
		addAll = func(rg *rand.Rand) {
			g := q.AddAll([]Item[int]{{ID: "a", Data: 7, Priority: 1}, {ID: "b", Data: 2}, {ID: "c", Data: 3, Priority: 2}, {ID: "d", Data: 4}})
			go func() {
				for range g.Results() {
				}
			}()
			go func() { g.Wait(); g.NumPending() }()
		}
		purge = func() { q.Purge() }
	}
	errs := W.Errs()
	go func() {
		for range errs {
		}
	}()
	spawn := func(seed int64, f func(rg *rand.Rand)) {
		wg.Add(1)
		go func() {
			defer wg.Done()
			rg := rand.New(rand.NewSource(seed))
			for {
				select {
				case <-stop:
					return
				default:
				}
				f(rg)
			}
		}()
	}
	base := rng.Int63()
	spawn(base+1, func(rg *rand.Rand) { add(rg) })
	spawn(base+2, func(rg *rand.Rand) { add(rg); time.Sleep(time.Duration(rg.Intn(50)) * time.Microsecond) })
	spawn(base+3, func(rg *rand.Rand) {
		if rg.Intn(40) == 0 {
			addAll(rg)
		}
		time.Sleep(20 * time.Microsecond)
	})
	spawn(base+4, func(rg *rand.Rand) { // handle users
		switch h := pickH(rg).(type) {
		case EnqueuedResultJob[int]:
			switch rg.Intn(5) {
			case 0:
				h.Close()
			case 1:
				go h.Result()
			case 2:
				_ = h.Status()
			case 3:
				h.Drain()
			default:
				_ = h.IsClosed()
			}
		case EnqueuedErrJob:
			switch rg.Intn(5) {
			case 0:
				h.Close()
			case 1:
				go h.Err()
			case 2:
				_ = h.Status()
			case 3:
				h.Drain()
			default:
				_ = h.ID()
			}
		case EnqueuedJob:
			switch rg.Intn(4) {
			case 0:
				h.Close()
			case 1:
				go h.Wait()
			default:
				_ = h.Status()
			}
		}
	})
	spawn(base+5, func(rg *rand.Rand) { // introspection
		_ = W.NumPending() + W.NumProcessing() + W.NumConcurrency() + W.NumIdleWorkers()
		m := W.Metrics()
		_ = m.Submitted() + m.Completed() + m.Successful() + m.Failed()
		_ = W.Status()
		_ = W.Context()
		_ = W.Errs()
		_ = W.IsRunning() || W.IsPaused() || W.IsStopped()
		time.Sleep(10 * time.Microsecond)
	})
	spawn(base+7, func(rg *rand.Rand) { // a second controller: control calls overlap each other
		switch rg.Intn(10) {
		case 0, 1:
			W.Restart()
		case 2:
			W.Stop()
			W.Restart()
		case 3:
			W.Resume()
		case 4:
			W.TunePool(1 + rg.Intn(5))
		}
		time.Sleep(time.Duration(80+rg.Intn(300)) * time.Microsecond)
	})
	spawn(base+6, func(rg *rand.Rand) { // control
		switch rg.Intn(12) {
		case 0:
			W.Pause()
		case 1, 2:
			W.Resume()
		case 3:
			W.TunePool(1 + rg.Intn(5))
		case 4:
			W.PauseAndWait()
			W.Resume()
		case 5:
			W.Restart()
		case 6:
			purge()
		case 7:
			W.Metrics().Reset()
		}
		time.Sleep(time.Duration(50+rg.Intn(200)) * time.Microsecond)
	})
	time.Sleep(time.Duration(15+rng.Intn(25)) * time.Millisecond)
	close(stop)
	if !within(20*time.Second, wg.Wait) {
		r.add("C03", "hang", "race mix round %d: API callers did not come back within 20 s", round)
		return
	}
	W.Resume()
	if cancel != nil && rng.Intn(2) == 0 {
		cancel()
	}
	if !within(20*time.Second, func() { W.Stop() }) {
		r.add("C06", "barrier-hang", "race mix round %d: Stop did not return within 20 s", round)
	}
	r.stat("racemix.rounds", 1)
	r.stat("racemix.handles", len(handles))
}

// N5: a concurrency value below 1 means the number of CPUs, whatever GOMAXPROCS has been set to (C02)
func nativeCpus(r *nrec, rng *rand.Rand) {
	ncpu := runtime.NumCPU()
	old := runtime.GOMAXPROCS(ncpu + 3)
	defer runtime.GOMAXPROCS(old)
	for _, how := range []string{"config", "tune"} {
		var in, peak atomic.Int64
		gate := make(chan struct{})
		fn := func(j Job[int]) {
			n := in.Add(1)
			for {
				p := peak.Load()
				if n <= p || peak.CompareAndSwap(p, n) {
					break
				}
			}
			<-gate
			in.Add(-1)
		}
		var w IWorkerBinder[int]
		if how == "config" {
			w = NewWorker(fn, WithConcurrency(0))
		} else {
			w = NewWorker(fn, WithConcurrency(2))
		}
		q := w.BindQueue()
		if how == "tune" {
			w.TunePool(-1)
		}
		total := ncpu + 8
		for i := 0; i < total; i++ {
			q.Add(i)
		}
		settle(func() bool { return int(in.Load()) >= ncpu+1 }) // gives an over-dispatch up to 2 s to show
		time.Sleep(20 * time.Millisecond)
		if p := int(peak.Load()); p > ncpu {
			r.add("C02", "over-limit", "concurrency < 1 (%s) with GOMAXPROCS=%d on %d CPUs: %d worker functions in flight at once, the limit is the number of CPUs", how, ncpu+3, ncpu, p)
		}
		if c := w.NumConcurrency(); c != ncpu {
			r.add("C02", "wrong-limit", "concurrency < 1 (%s) with GOMAXPROCS=%d on %d CPUs: NumConcurrency reports %d", how, ncpu+3, ncpu, c)
		}
		close(gate)
		w.WaitUntilFinished()
		w.Stop()
		r.stat("cpus.jobs", total)
	}
}

func TestVerifNative(t *testing.T) {
	out := os.Getenv("VERIF_OUT")
	if out == "" {
		t.Skip("VERIF_OUT not set")
	}
	seed, _ := strconv.ParseInt(os.Getenv("VERIF_SEED"), 10, 64)
	rounds, _ := strconv.Atoi(os.Getenv("VERIF_NATIVE_ROUNDS"))
	if rounds == 0 {
		rounds = 30
	}
	want := os.Getenv("VERIF_NATIVE_SCENARIOS")
	has := func(s string) bool { return want == "" || strings_contains(","+want+",", ","+s+",") }
	rng := rand.New(rand.NewSource(seed))
	r := &nrec{st: map[string]int{}}
	if has("bigbatch") {
		nativeBigBatch(r, rng)
	}
	if has("bigburst") {
		nativeBigBurst(r, rng)
	}
	if has("cpus") {
		nativeCpus(r, rng)
	}
	if has("outcomes") {
		nativeOutcomes(r, rng)
	}
	if has("racemix") {
		for i := 0; i < rounds; i++ {
			nativeRaceMix(r, rng, i)
		}
	}
	f, err := os.Create(out)
	if err != nil {
		t.Fatal(err)
	}
	defer f.Close()
	enc := json.NewEncoder(f)
	for _, v := range r.out {
		enc.Encode(v)
	}
	enc.Encode(map[string]any{"stats": r.st})
}

func strings_contains(s, sub string) bool {
	for i := 0; i+len(sub) <= len(s); i++ {
		if s[i:i+len(sub)] == sub {
			return true
		}
	}
	return false
}
