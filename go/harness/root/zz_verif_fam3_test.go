package varmq

// Families for adapters (persist, dist, crash), multi-queue selection and the lifecycle state
// machine, plus the monitors that only apply to them.

import (
	"fmt"
	"sort"
	"strconv"
	"strings"

	"github.com/goptics/varmq/internal/vt"
	"github.com/goptics/varmq/utils"
)

func monitorsExtra(m *mon) {
	for _, n := range m.e.notes {
		if strings.HasPrefix(n, "SATURATION:") {
			m.add("C03", "not-saturated", "%s", n)
			if strings.Contains(n, "after TunePool") {
				m.add("C18", "tunepool-not-effective", "%s", n)
			}
		}
		if strings.HasPrefix(n, "LIFECYCLE:") {
			m.add("C14", "state-machine", "%s", n)
		}
		if strings.HasPrefix(n, "PENDING:") {
			m.add("C17", "pending-inexact", "%s", n)
		}
		if strings.HasPrefix(n, "SELECT:") {
			m.add("C15", "selection", "%s", n)
		}
		if strings.HasPrefix(n, "ORDER:") {
			m.add("C04", "order", "%s", n)
		}
		if strings.HasPrefix(n, "TUNE:") {
			m.add("C02", "wrong-limit", "%s", n)
			m.add("C18", "tunepool-not-effective", "%s", n)
		}
		if strings.HasPrefix(n, "WFSTATUS:") {
			m.add("C16", "not-processing", "%s", n)
		}
		if strings.HasPrefix(n, "wf invoked with unknown data") {
			m.add("C12", "payload", "%s", n)
			m.add("C01", "identity", "%s", n)
		}
	}
	for _, sm := range m.e.samples {
		switch sm.what {
		case "idle-after-expiry":
			if m.clean() && sm.v > sm.aux {
				m.add("C18", "not-trimmed", "%d idle workers at t=%d after the expiry elapsed, configured minimum %d", sm.v, sm.t, sm.aux)
			}
		case "reapers-at-rest":
			if sm.v > 1 {
				m.add("C18", "reapers-accumulate", "%d idle-worker reaper goroutines alive at rest (t=%d): Restart cycles leave goroutines behind", sm.v, sm.t)
			}
		case "goroutines-after-stop":
			if m.clean() && sm.v > 0 {
				m.add("C18", "leak-after-stop", "%d library goroutines still alive at t=%d after Stop returned and the system came to rest", sm.v, sm.t)
			}
		case "b.pending":
			if sm.v < 0 || (sm.aux < len(m.e.batches) && sm.v > len(m.e.batches[sm.aux].items)) {
				m.add("C08", "pending-bound", "batch b%d NumPending read %d", sm.aux, sm.v)
			}
			for _, c := range m.e.calls {
				if c.name == "BWait" && c.arg == "b"+strconv.Itoa(sm.aux) && c.tRet >= 0 && c.tRet < sm.t && sm.v != 0 {
					m.add("C08", "pending-after-wait", "batch b%d NumPending read %d at t=%d after its Wait returned (t=%d)", sm.aux, sm.v, sm.t, c.tRet)
				}
			}
		}
	}
	m.c04()
	m.c11()
	m.c13()
}

// C04 — dispatch order. At every dispatch (the dispatcher's status.Store(processing) on job j at
// time t) no other job k of the same queue may be pending that should have gone first: k
// definitely enqueued before t (its Add returned before t), not dispatched before t, not
// cancelled, and k before j in the queue's order — FIFO: k's Add returned before j's Add was
// called (real-time precedence of non-overlapping Adds); priority: smaller priority number, or
// equal priority and real-time precedence. With concurrency 1 the start order equals the
// dispatch order (checked too).
func (m *mon) c04() {
	if !m.props["C04"] {
		return
	}
	// "with concurrency n the set of started jobs is a prefix of the order": a job counts as started
	// when it is handed to a pool goroutine, so that goroutine must be free to run it. A pool
	// goroutine that has put its node back on the idle list calls nothing of the user's (the
	// adapter's Acknowledge, a worker function) before it is back at its receive: otherwise the
	// next job of the order waits behind that call while later ones start on other goroutines.
	freed := map[int]bool{}
	for _, ev := range m.s.Log {
		fn := siteFunc(ev.Site)
		switch {
		case ev.Kind == "lock" && fn == "List.PushNode":
			freed[ev.Tid] = true
		case ev.Kind == "recv" && fn == "Node.Serve":
			freed[ev.Tid] = false
		case (ev.Kind == "ad:ack" || ev.Kind == "uq:ack" || ev.Kind == "wf+") && freed[ev.Tid]:
			m.add("C04", "prefix", "pool goroutine g%d put its node back on the idle list and then went into %s before returning to its receive: the next job of the order, dispatched to that node, waits behind it while later jobs start", ev.Tid, ev.Kind)
			freed[ev.Tid] = false
		}
	}
	disp := func(s *sub) int {
		if s.jobPtr != nil {
			if x, ok := m.dequeueAt[m.s.ObjID(s.jobPtr)]; ok {
				return x
			}
			if x, ok := m.dispatchAt[m.s.ObjID(s.jobPtr)]; ok {
				return x
			}
		}
		if len(s.tEnter) > 0 {
			return s.tEnter[0]
		}
		return -1
	}
	// the items of one AddAll are accepted in slice order
	batchPos := map[*sub]int{}
	for _, b := range m.e.batches {
		for i, it := range b.items {
			batchPos[it] = i
		}
	}
	for _, j := range m.e.subs {
		tj := disp(j)
		if tj < 0 || (j.handle == nil && j.batch == nil) {
			continue
		}
		isPrio := m.e.qkinds[j.q] == qPrio
		for _, k := range m.e.subs {
			if k == j || k.q != j.q || k.tAddRet > tj || m.cancelledBeforeStart(k) || len(k.closeNil) > 0 {
				continue
			}
			if k.batch == nil && (!k.accepted || k.handle == nil) {
				continue
			}
			if k.batch != nil && (len(k.tEnter) == 0 || k.tAddRet < 0) {
				continue // an item of a batch counts as accepted if it ran in the end
			}
			tk := disp(k)
			if tk >= 0 && tk < tj {
				continue // already dispatched
			}
			before := k.tAddRet < j.tAddCall
			if k.batch != nil && k.batch == j.batch {
				before = batchPos[k] < batchPos[j]
			}
			first := before
			if isPrio {
				first = k.prio < j.prio || (k.prio == j.prio && before)
			}
			if first {
				m.add("C04", "order", "q%d: job d%d (prio %d, added [%d..%d]) was dispatched at t=%d while d%d (prio %d, added [%d..%d]) was pending and should go first",
					j.q, j.data, j.prio, j.tAddCall, j.tAddRet, tj, k.data, k.prio, k.tAddCall, k.tAddRet)
			}
		}
	}
	if m.e.conc == 1 && m.e.orderCheck {
		type st struct{ d, e, data int }
		var xs []st
		for _, s := range m.e.subs {
			if d := disp(s); d >= 0 && len(s.tEnter) > 0 {
				xs = append(xs, st{d, s.tEnter[0], s.data})
			}
		}
		sort.Slice(xs, func(a, b int) bool { return xs[a].d < xs[b].d })
		for i := 1; i < len(xs); i++ {
			if xs[i].e < xs[i-1].e {
				m.add("C04", "exec-order", "concurrency 1: d%d was dispatched before d%d but started after it", xs[i-1].data, xs[i].data)
			}
		}
	}
}

// C11 — acknowledge only after processing, at most once; crash invariant at every prefix
func (m *mon) c11() {
	if !m.props["C11"] {
		return
	}
	for _, a := range m.e.adapters {
		acked := map[string]bool{}
		delivered := map[string]int{} // ackID -> data
		for _, op := range a.ops {
			switch op.op {
			case "deq":
				delivered[op.ackID] = op.data
			case "ackbad":
				m.add("C11", "ack-unknown-id", "Acknowledge(%q) at t=%d: the adapter never issued that id (or it was already acknowledged)", op.ackID, op.t)
			case "ack", "ack!":
				d, ok := delivered[op.ackID]
				if !ok {
					m.add("C11", "ack-unknown-id", "Acknowledge(%q) for an id never issued", op.ackID)
					continue
				}
				if d < 0 {
					m.add("C11", "acked-unprocessed", "an entry that could not be decoded (so was never processed) was acknowledged (%s) at t=%d", op.ackID, op.t)
					continue
				}
				if acked[op.ackID] {
					m.add("C11", "ack-twice", "item d%d acknowledged twice (%s)", d, op.ackID)
				}
				if op.op == "ack" {
					acked[op.ackID] = true
				}
				s := m.e.byData[d]
				if s == nil {
					continue
				}
				fin := false
				for _, t := range s.tExit {
					if t < op.t {
						fin = true
					}
				}
				if !fin {
					m.add("C11", "ack-before-processed", "item d%d acknowledged at t=%d before its worker function returned (exits %v)", d, op.t, s.tExit)
				}
			}
		}
		// crash invariant: at every prefix, every accepted item is pending | unacked | (acked & processed):
		// follows from the adapter's own bookkeeping unless an item is acknowledged without having been
		// processed (checked above) or dropped: an accepted item that is neither pending, unacked nor acked at the end
		inAd := map[int]int{}
		for _, it := range a.pending {
			inAd[it.data]++
		}
		for _, it := range a.unacked {
			inAd[it.data]++
		}
		for _, it := range a.acked {
			inAd[it.data]++
		}
		purged := false
		for _, op := range a.ops {
			if op.op == "purge" {
				purged = true
			}
		}
		for _, op := range a.ops {
			if op.op == "enq" && inAd[op.data] == 0 && !purged {
				m.add("C11", "lost", "item d%d was accepted by the adapter but is neither pending, unacknowledged nor acknowledged", op.data)
			}
		}
		// pending items at rest with a running consumer: also when the scenario hangs in WaitUntilFinished because of it
		if !m.s.Livelock && len(m.s.Panics) == 0 && m.finalWorkerStatus() == 1 && !m.e.noFinalDrain && len(a.pending) > 0 {
			m.add("C11", "not-drained", "adapter %d still holds %d pending items at rest with a running consumer (nothing is in flight)", a.idx, len(a.pending))
			m.add("C12", "not-drained", "adapter %d still holds %d pending items at rest with a running consumer (%d undecodable entries were stored)", a.idx, len(a.pending), m.e.params["bad"])
		}
		if m.clean() && m.finalWorkerStatus() == 1 && !m.e.noFinalDrain && a.failAck == 0 && a.failDeq == 0 {
			for id, it := range a.unacked {
				if it.data >= 0 {
					if s := m.e.byData[it.data]; s != nil && len(s.tExit) > 0 {
						m.add("C11", "processed-not-acked", "item d%d (%s) was processed but never acknowledged", it.data, id)
					}
				}
			}
		}
	}
}

// C13 — distributed consumers: each item executed by exactly one; all drained; Submitted = notifications
func (m *mon) c13() {
	if !m.props["C13"] && !(m.props["C17"] && m.e.family == "dist") {
		return
	}
	for _, s := range m.e.subs {
		if len(s.tEnter) > 1 {
			m.add("C13", "executed-twice", "item d%d was executed %d times across the consumers", s.data, len(s.tEnter))
		}
	}
	if m.clean() && !m.e.noFinalDrain {
		for _, a := range m.e.adapters {
			if len(a.pending) > 0 && a.failDeq == 0 {
				m.add("C13", "not-drained", "shared adapter %d still has %d pending items at rest", a.idx, len(a.pending))
			}
		}
		for _, s := range m.e.subs {
			if s.accepted && len(s.tEnter) == 0 && m.e.family == "dist" {
				m.add("C13", "never-executed", "item d%d was accepted by the shared adapter and is no longer pending there, yet no consumer ran it", s.data)
			}
		}
		for _, n := range m.e.notes {
			if strings.HasPrefix(n, "SUBMITTED:") {
				m.add("C13", "submitted", "%s", n)
				m.add("C17", "submitted-inexact", "%s", n)
			}
		}
	}
}

func init() {
	// order: concurrency 1, one producer per queue kind; execution order must be the queue order (C04 system level)
	registerFamily("order", []string{"C01", "C03", "C04"}, func(e *env) {
		r := vt.Rand()
		e.kind = e.p("kind", r.Intn(3))
		e.conc = 1
		e.orderCheck = true
		e.mkWorker()
		q := e.bind(pick(r, qFifo, qPrio))
		if r.Intn(2) == 0 {
			e.lifecycle("Pause", 0)
		}
		n := e.p("jobs", 2+r.Intn(8))
		for i := 0; i < n; i++ {
			e.add(q, pick(r, 0, 0, 1, 2, -1, 5), oOK, false, "")
			if r.Intn(3) == 0 {
				vt.Yield()
			}
		}
		if r.Intn(2) == 0 {
			// one large batch with many equal priorities: accepted in slice order
			var specs []itemSpec
			for i, nb := 0, e.p("batch", 13+r.Intn(30)); i < nb; i++ {
				specs = append(specs, itemSpec{prio: pick(r, 0, 0, 0, 1, 2), outcome: oOK})
			}
			e.addAll(q, specs)
		}
		purged := false
		if e.qkinds[q] == qPrio && r.Intn(3) == 0 {
			// a Purge racing a submission, then more submissions of the same priority: whatever the
			// purge left in the queue keeps its place in front of what is accepted afterwards
			purged = true
			e.p("purgerace", 1)
			var jn joiner
			jn.goClient("purger", func() {
				e.params["purgeT"] = now()
				e.purge(q)
			})
			jn.goClient("adder", func() { e.add(q, 1, oOK, false, "") })
			jn.wait()
			for i := 2 + r.Intn(3); i > 0; i-- {
				e.add(q, 1, oOK, false, "")
			}
		}
		if r.Intn(2) == 0 {
			// Pause / Resume while the queue is being worked off: a job the dispatcher has in its hands
			// when the Pause lands keeps its place
			var jn joiner
			jn.goClient("toggler", func() {
				for k := 1 + r.Intn(3); k > 0; k-- {
					for y := r.Intn(6); y > 0; y-- {
						vt.Yield()
					}
					e.lifecycle("Pause", 0)
					for y := r.Intn(4); y > 0; y-- {
						vt.Yield()
					}
					e.lifecycle("Resume", 0)
				}
			})
			e.ensureRunning()
			jn.wait()
		}
		e.drain()
		_ = purged
	})

	// persist: persistent queues (plain / priority) with adapter faults
	registerFamily("persist", []string{"C01", "C03", "C11", "C12", "C17"}, func(e *env) {
		r := vt.Rand()
		e.kind = kPlain
		e.conc = e.p("conc", 1+r.Intn(3))
		e.mkWorker()
		kind := pick(r, qPersist, qPersistPrio)
		q := e.bind(kind)
		ad := e.adapters[0]
		if r.Intn(3) == 0 {
			ad.failAck = e.p("failAck", 3)
		}
		if r.Intn(4) == 0 {
			ad.failDeq = e.p("failDeq", 4)
		}
		if r.Intn(4) == 0 {
			ad.failEnq = e.p("failEnq", 4)
		}
		if r.Intn(2) == 0 {
			e.drainErrs()
		}
		var jn joiner
		for p := 0; p < 1+r.Intn(2); p++ {
			n := 1 + r.Intn(4)
			jn.goClient("producer", func() {
				for i := 0; i < n; i++ {
					id := fmt.Sprintf("pid-%d", e.nextData+1)
					if r.Intn(4) == 0 {
						id = "  " + id + " " // carried verbatim, surrounding white space included
					}
					e.add(q, r.Intn(3), randOutcome(r), false, id)
				}
			})
		}
		if r.Intn(3) == 0 {
			// a foreign producer stores entries the library cannot decode, among valid ones
			jn.goClient("foreign", func() {
				vt.Yield()
				bad := [][]byte{[]byte(`{"id":"x","status":"Bogus","data":1}`), []byte(`not json`), []byte(`{"id":7}`), []byte(`{"id":"y","status":"Queued","data":"str"}`),
					// valid JSON, but not an entry this library wrote: no status
					[]byte(`{}`), []byte(`null`), []byte(`{"id":"z","data":77}`), []byte(`{"kind":"email","to":"a@b"}`)}
				ad.inject(bad[r.Intn(len(bad))], r.Intn(3), -1)
				e.params["bad"]++
				e.w.notifyToPullNextJobs()
			})
		}
		jn.wait()
		e.drain()
	})

	// recover: a new worker bound to an adapter that already holds items (recovered pending + unacked)
	registerFamily("recover", []string{"C01", "C03", "C11", "C13"}, func(e *env) {
		r := vt.Rand()
		e.kind = kPlain
		e.conc = e.p("conc", 1+r.Intn(3))
		e.mkWorker()
		kind := pick(r, qPersist, qPersistPrio, qDist, qDistPrio)
		e.p("qkind", kind)
		prio := kind == qPersistPrio || kind == qDistPrio
		ad := newRecAdapter(prio, 0)
		n := e.p("preloaded", 1+r.Intn(5))
		for i := 0; i < n; i++ {
			if r.Intn(5) == 0 {
				// an entry the consumer cannot decode, among the valid ones
				ad.inject([]byte(`{"id":"bad","status":"Bogus","data":1}`), r.Intn(3), -1)
				e.params["bad"]++
			}
			s := e.newSub(0, r.Intn(3), oOK, false, fmt.Sprintf("rec-%d", i))
			s.accepted = true
			raw := []byte(fmt.Sprintf(`{"id":"rec-%d","status":"Created","data":%d}`, i, s.data))
			ad.inject(raw, s.prio, s.data)
			ad.ops[len(ad.ops)-1].op = "enq"
		}
		e.adapters = append(e.adapters, ad)
		if e.p("running", r.Intn(2)) == 1 {
			// the worker is already running (another queue was bound first): the bind must still
			// make it look at what the adapter holds
			e.bind(qFifo)
			vt.WaitIdle()
		}
		c := e.call("Bind", strconv.Itoa(kind))
		var q qh
		switch kind {
		case qPersist:
			vt.Mark("ad:binding", ad, "") // the next Manager.Register by this thread is this adapter's
			q = qPers{e.wPlain.WithPersistentQueue(ad)}
		case qPersistPrio:
			vt.Mark("ad:binding", ad, "") // the next Manager.Register by this thread is this adapter's
			q = qPersP{e.wPlain.WithPersistentPriorityQueue(adPrio{ad})}
		case qDist:
			vt.Mark("ad:binding", ad, "") // the next Manager.Register by this thread is this adapter's
			q = qDistQ{e.wPlain.WithDistributedQueue(ad)}
		case qDistPrio:
			vt.Mark("ad:binding", ad, "") // the next Manager.Register by this thread is this adapter's
			q = qDistP{e.wPlain.WithDistributedPriorityQueue(adPrio{ad})}
		}
		e.qs = append(e.qs, q)
		e.qkinds = append(e.qkinds, kind)
		for _, s := range e.subs {
			s.q = len(e.qs) - 1
		}
		c.ret(e.w.Status())
		// no further prompting: the system must drain on its own
		vt.WaitIdle()
		e.takeFinalCounts()
	})

	// dist: several consumers on one shared adapter, producers that are not consumers
	registerFamily("dist", []string{"C01", "C03", "C11", "C13"}, func(e *env) {
		r := vt.Rand()
		e.kind = kPlain
		e.conc = e.p("conc", 1+r.Intn(3))
		prio := r.Intn(2) == 0
		ad := newRecAdapter(prio, 0)
		e.adapters = append(e.adapters, ad)
		nw := e.p("consumers", 1+r.Intn(3))
		var ws []IWorkerBinder[int]
		consumerGen, cgen := r.Intn(3) == 0, 0
		withExpiry := r.Intn(3) == 0 // idle workers expire while notifications arrive
		if withExpiry {
			e.p("expiry", 1)
		}
		if consumerGen {
			e.p("consumerGen", 1)
		}
		bindAll := func() {
			for i := 0; i < nw; i++ {
				cfg := []any{WithConcurrency(1 + r.Intn(3))}
				if withExpiry {
					cfg = append(cfg, WithIdleWorkerExpiryDuration(1000), WithMinIdleWorkerRatio(1))
				}
				if consumerGen {
					// a consumer's own id generator has no say over the ids of stored entries
					cfg = append(cfg, WithJobIdGenerator(func() string { cgen++; return "cg" + strconv.Itoa(cgen) }))
				}
				w := NewWorker(func(j Job[int]) { e.wfBody(j) }, cfg...)
				ws = append(ws, w)
				if prio {
					vt.Mark("ad:binding", ad, "") // the next Manager.Register by this thread is this adapter's
					w.WithDistributedPriorityQueue(adPrio{ad})
				} else {
					vt.Mark("ad:binding", ad, "") // the next Manager.Register by this thread is this adapter's
					w.WithDistributedQueue(ad)
				}
			}
			e.w = ws[0]
		}
		var producer qh
		if prio {
			producer = qDistP{NewDistributedPriorityQueue[int](adPrio{ad})}
		} else {
			producer = qDistQ{NewDistributedQueue[int](ad)}
		}
		e.qs = append(e.qs, producer)
		e.qkinds = append(e.qkinds, map[bool]int{false: qDist, true: qDistPrio}[prio])
		bindFirst := r.Intn(2) == 0
		e.p("bindfirst", map[bool]int{false: 0, true: 1}[bindFirst])
		if bindFirst {
			bindAll()
		}
		if r.Intn(3) == 0 {
			// the backend refuses an acknowledgement now and then: the consumer reports it and goes on
			ad.failAck = e.p("failAck", 3)
		}
		// a consumer that is paused (or stopped) while items are announced still counts them, and
		// works them off once it is resumed / restarted
		halt := ""
		if bindFirst && r.Intn(3) == 0 {
			halt = []string{"PauseAndWait", "Pause", "Stop"}[r.Intn(3)]
			e.p("halted", 1)
			e.lifecycle(halt, 0)
		}
		var jn joiner
		for p := 0; p < 1+r.Intn(2); p++ {
			n := 1 + r.Intn(4)
			jn.goClient("producer", func() {
				for i := 0; i < n; i++ {
					e.add(0, r.Intn(3), oOK, false, "")
				}
			})
		}
		if !bindFirst {
			jn.goClient("binder", func() { vt.Yield(); bindAll() })
		}
		if withExpiry {
			jn.goClient("clock", func() {
				for k := 3 + r.Intn(6); k > 0; k-- {
					vt.Yield()
					vt.ForceTick()
				}
			})
		}
		if halt == "" && bindFirst && r.Intn(2) == 0 {
			// Pause / Resume of the first consumer while items are being delivered: an item it has
			// already taken from the adapter when the Pause lands is still run (by it, after Resume)
			e.p("toggled", 1)
			jn.goClient("toggler", func() {
				for k := 1 + r.Intn(3); k > 0; k-- {
					for y := r.Intn(6); y > 0; y-- {
						vt.Yield()
					}
					e.lifecycle("Pause", 0)
					for y := r.Intn(4); y > 0; y-- {
						vt.Yield()
					}
					e.lifecycle("Resume", 0)
				}
			})
		}
		if halt != "" {
			jn.goClient("resumer", func() {
				for k := r.Intn(6); k > 0; k-- {
					vt.Yield()
				}
				if halt == "Stop" {
					e.lifecycle("Restart", 0)
				} else {
					e.lifecycle("Resume", 0)
				}
			})
		}
		if r.Intn(3) == 0 {
			jn.goClient("foreign", func() {
				vt.Yield()
				ad.inject([]byte(`not json at all`), r.Intn(3), -1)
				e.params["bad"]++
				for _, w := range ws {
					w.notifyToPullNextJobs()
				}
			})
		}
		jn.wait()
		vt.WaitIdle()
		// Submitted across consumers = notifications delivered
		notified := 0
		for _, ev := range vt.S.Log {
			if ev.Kind == "ad:notify" {
				notified++
			}
		}
		sub := 0
		for _, w := range ws {
			sub += int(w.Metrics().Submitted())
		}
		if sub != notified {
			e.notes = append(e.notes, fmt.Sprintf("SUBMITTED: consumers report %d submissions in total, %d notifications were delivered", sub, notified))
		}
		st := 1
		for _, w := range ws {
			if w.Status() != "Running" {
				st = 0
			}
		}
		if st == 0 {
			e.noFinalDrain = true
		}
		e.statusOverride = 1
	})

	// multiq: several queues, a strategy, concurrency 1, preloaded while paused, then resumed:
	// the execution sequence must follow the reference selector (C15)
	registerFamily("multiq", []string{"C01", "C03", "C15", "C17"}, func(e *env) {
		r := vt.Rand()
		e.kind = kPlain
		e.conc = 1
		e.strat = Strategy(e.p("strategy", r.Intn(3)))
		e.mkWorker()
		nq := e.p("queues", 2+r.Intn(4))
		for i := 0; i < nq; i++ {
			e.bind(pick(r, qFifo, qPrio, qPersist, qPersistPrio, qDist))
		}
		// sometimes the adapters refuse a dequeue now and then: the dispatcher must come back to the
		// same queue, and acknowledge on the adapter the job came from (the selection sequence is
		// then not compared: a refused dequeue costs the queue its turn)
		faults := len(e.adapters) > 0 && r.Intn(3) == 0
		if faults {
			e.p("failDeq", 3)
			for _, a := range e.adapters {
				a.failDeq = 3
			}
		}
		e.lifecycle("PauseAndWait", 0)
		lens := make([]int, nq)
		for i := 0; i < nq; i++ {
			n := r.Intn(5)
			for k := 0; k < n; k++ {
				s := e.add(i, 0, oOK, false, "")
				if s.accepted {
					lens[i]++
				}
			}
		}
		// paused and at rest with everything still pending: the worker's count is the sum over its queues
		vt.WaitIdle()
		{
			sum, acc := 0, 0
			for _, q := range e.qs {
				sum += q.NumPending()
			}
			for _, l := range lens {
				acc += l
			}
			if wp := e.w.NumPending(); wp != sum || (!faults && sum != acc) {
				e.notes = append(e.notes, fmt.Sprintf("PENDING: paused at rest: worker NumPending=%d, sum over its queues=%d, accepted and not dispatched=%d", wp, sum, acc))
			}
		}
		// reference selection sequence from the initial populations (no submissions while draining)
		var want []int
		cur := append([]int(nil), lens...)
		rr := 0
		total := 0
		for _, l := range cur {
			total += l
		}
		for k := 0; k < total; k++ {
			sel := -1
			switch e.strat {
			case RoundRobin:
				for i := 0; i < nq; i++ {
					c := (rr + i) % nq
					if cur[c] > 0 {
						sel = c
						rr = (c + 1) % nq
						break
					}
				}
			case MaxLen:
				for i := 0; i < nq; i++ {
					if sel < 0 || cur[i] > cur[sel] {
						sel = i
					}
				}
			case MinLen:
				for i := 0; i < nq; i++ {
					if cur[i] > 0 && (sel < 0 || cur[i] < cur[sel]) {
						sel = i
					}
				}
			}
			want = append(want, sel)
			cur[sel]--
		}
		e.wantSel = want
		if r.Intn(3) == 0 {
			// an empty queue is closed: it stays where it is bound and the others keep their turns
			for i := 0; i < nq; i++ {
				if lens[i] == 0 && (e.qkinds[i] == qFifo || e.qkinds[i] == qPrio) {
					e.p("closedEmpty", 1)
					e.closeQueue(i)
					break
				}
			}
		}
		// a backend that refuses a few dequeues in a row although it holds items: under RoundRobin the
		// refused queue loses that turn and the other non-empty queues are served meanwhile
		var streakAd *recAdapter
		if !faults && e.strat == RoundRobin && r.Intn(3) == 0 {
			for _, a := range e.adapters {
				if len(a.pending) > 0 {
					streakAd = a
					a.failStreak = e.p("failStreak", 3+r.Intn(4))
					faults = true // the selection sequence is not compared
					break
				}
			}
		}
		e.lifecycle("Resume", 0)
		if r.Intn(2) == 0 {
			// pauses while draining: a pause must not cost a queue its turn
			var jn joiner
			np := e.p("pauses", 1+r.Intn(3))
			jn.goClient("pauser", func() {
				for i := 0; i < np; i++ {
					for k := r.Intn(4); k > 0; k-- {
						vt.Yield()
					}
					e.lifecycle("Pause", 0)
					for k := r.Intn(3); k > 0; k-- {
						vt.Yield()
					}
					e.lifecycle("Resume", 0)
				}
			})
			jn.wait()
		}
		e.drain()
		var got []int
		type st struct{ t, q int }
		var starts []st
		for _, s := range e.subs {
			if len(s.tEnter) > 0 {
				starts = append(starts, st{s.tEnter[0], s.q})
			}
		}
		sort.Slice(starts, func(i, j int) bool { return starts[i].t < starts[j].t })
		for _, x := range starts {
			got = append(got, x.q)
		}
		if streakAd != nil {
			// two refusals in a row on the same adapter with no dequeue anywhere in between, while
			// another queue still had jobs (it is served later): that queue was passed over
			var refusals, successes []int
			for _, op := range streakAd.ops {
				if op.op == "deq!" {
					refusals = append(refusals, op.t)
				}
			}
			for _, a := range e.adapters {
				for _, op := range a.ops {
					if op.op == "deq" {
						successes = append(successes, op.t)
					}
				}
			}
			otherLater := func(t int) bool { // a dequeue from another queue after t
				for _, a := range e.adapters {
					if a == streakAd {
						continue
					}
					for _, op := range a.ops {
						if op.op == "deq" && op.t > t {
							return true
						}
					}
				}
				for i, ev := range vt.S.Log {
					if ev.Kind == "q:deq" && i > t {
						return true
					}
				}
				return false
			}
			for i, ev := range vt.S.Log {
				if ev.Kind == "q:deq" {
					successes = append(successes, i)
				}
			}
			sort.Ints(successes)
			for k := 1; k < len(refusals); k++ {
				between := false
				for _, sc := range successes {
					if sc > refusals[k-1] && sc < refusals[k] {
						between = true
					}
				}
				if !between && otherLater(refusals[k]) {
					e.notes = append(e.notes, fmt.Sprintf("SELECT: round robin: adapter %d refused a dequeue at t=%d and was asked again at t=%d with nothing served in between, while another queue still had jobs waiting", streakAd.idx, refusals[k-1], refusals[k]))
					break
				}
			}
		}
		if !faults && fmt.Sprint(got) != fmt.Sprint(want) && !vt.S.Hang {
			e.notes = append(e.notes, fmt.Sprintf("SELECT: strategy %d, populations %v: queues served in order %v, the strategy prescribes %v", e.strat, lens, got, want))
		}
	})

	// lifeseq: sequential lifecycle call sequences against the documented state machine (C14)
	registerFamily("lifeseq", []string{"C03", "C14", "C18"}, func(e *env) {
		r := vt.Rand()
		e.kind = e.p("kind", r.Intn(3))
		e.conc = e.p("conc", 1+r.Intn(3))
		e.withCtx = r.Intn(3) == 0
		if r.Intn(3) == 0 {
			e.expiry = 1000
			e.p("expiry", 1)
		}
		e.mkWorker()
		vt.Mark("life:cfg", nil, fmt.Sprintf("%d %d %d", e.conc, int(utils.Cpus()), map[bool]int{false: 0, true: 1}[e.withCtx]))
		ref := "Initiated"
		refConc := e.conc
		q := -1
		cancelled := false
		ncalls := e.p("calls", 1+r.Intn(5))
		names := []string{"Bind", "Pause", "PauseAndWait", "Resume", "Stop", "WaitAndStop", "Restart", "TunePool", "Add"}
		if e.withCtx {
			names = append(names, "CtxCancel")
		}
		var seq []string
		for i := 0; i < ncalls && !cancelled; i++ {
			op := names[r.Intn(len(names))]
			arg := 0
			wantErr := "nil"
			switch op {
			case "Bind":
				if ref == "Initiated" {
					ref = "Running"
				}
			case "Pause", "PauseAndWait":
				switch ref {
				case "Running":
					ref = "Paused"
				case "Initiated":
					wantErr = "ErrNotRunningWorker"
				}
			case "Resume":
				switch ref {
				case "Paused", "Initiated":
					ref = "Running"
				case "Running":
					wantErr = "ErrRunningWorker"
				case "Stopped":
					wantErr = "ErrNotRunningWorker"
				}
			case "Stop", "WaitAndStop":
				switch ref {
				case "Running", "Paused":
					ref = "Stopped"
				case "Initiated":
					wantErr = "ErrNotRunningWorker"
				}
			case "Restart":
				ref = "Running"
			case "TunePool":
				arg = r.Intn(4)
				eff := arg
				if arg < 1 {
					eff = int(utils.Cpus())
				}
				if ref != "Running" {
					wantErr = "ErrNotRunningWorker"
				} else if eff == refConc {
					wantErr = "ErrSameConcurrency"
				} else {
					refConc = eff
				}
			case "CtxCancel":
				cancelled = true
				if ref == "Running" || ref == "Paused" {
					ref = "Stopped"
				}
			}
			seq = append(seq, op)
			var got string
			switch op {
			case "Bind":
				q = e.bind(qFifo)
				got = "nil/" + e.w.Status()
			case "Add":
				if q >= 0 {
					e.add(q, 0, oOK, false, "")
				}
				got = "nil/" + e.w.Status()
			default:
				got = e.lifecycle(op, arg)
			}
			vt.WaitIdle()
			if op == "CtxCancel" {
				got = "nil/" + e.w.Status()
			}
			if op != "Add" {
				vt.Mark("life:op", nil, fmt.Sprintf("%s %d %s", op, arg, strings.ReplaceAll(got, "/", " ")))
			}
			if want := wantErr + "/" + ref; got != want && !(op == "CtxCancel" && ref == "Initiated") {
				e.notes = append(e.notes, fmt.Sprintf("LIFECYCLE: after %v: %s returned %s, the documented machine gives %s", seq, op, got, want))
				// keep going from what the worker actually reports, so that later effects (jobs starting on a
				// worker that should be paused ...) are seen by the other monitors
				ref = strings.SplitN(got, "/", 2)[1]
			}
		}
		e.p("ctx", map[bool]int{false: 0, true: 1}[e.withCtx])
		// a worker that reports Running must be able to process a probe job
		if e.w.Status() == "Running" && q >= 0 && !cancelled {
			s := e.add(q, 0, oOK, false, "")
			vt.WaitIdle()
			if s.accepted && len(s.tExit) == 0 {
				e.notes = append(e.notes, fmt.Sprintf("LIFECYCLE: after %v the worker reports Running but a probe job was not processed", seq))
			}
		} else {
			e.noFinalDrain = true
		}
		if e.w.Status() == "Stopped" {
			e.samples = append(e.samples, sample{now(), "goroutines-after-stop", libGoroutinesAlive(), 0})
		}
	})
}
