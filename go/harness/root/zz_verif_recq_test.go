package varmq

// recQ / recPQ wrap the built-in queues (bound through the public WithQueue /
// WithPriorityQueue) so that every element handed in or out is marked in the linear log with
// the job object it carries. The marks are made by the thread that just left the queue's
// critical section, without a scheduling point in between, so they are atomic with it.

import (
	"strconv"

	"github.com/goptics/varmq/internal/queues"
	"github.com/goptics/varmq/internal/vt"
)

type innerQ interface {
	IQueue
	PurgeValues() []any
}

type recQ struct {
	in innerQ
	id string
}

var recQSeq int

// recEnqCount: enqueues on the recording queues so far in this episode (directed schedules)
var recEnqCount int

// noteEnq: set per episode; told the payload of every job offered to a recording queue and the answer
var noteEnq func(data int, ok bool)

// notePurged: set per episode; told the payload of every job a Purge took out of a recording queue
var notePurged func(data int)

func tellPurged(item any) {
	if j, isJob := item.(interface{ Data() int }); isJob && notePurged != nil {
		notePurged(j.Data())
	}
}

func tellEnq(item any, ok bool) {
	if j, isJob := item.(interface{ Data() int }); isJob && noteEnq != nil {
		noteEnq(j.Data(), ok)
	}
}

func nextQID(inner any) string {
	recQSeq++
	id := strconv.Itoa(recQSeq)
	vt.Mark("q:new", inner, id)
	return id
}

func b01(b bool) string {
	if b {
		return "1"
	}
	return "0"
}

func (q recQ) Len() int {
	n := q.in.Len()
	vt.Mark("q:len", nil, q.id+" "+strconv.Itoa(n))
	return n
}
func (q recQ) Values() []any { return q.in.Values() }
func (q recQ) Purge()        { q.in.Purge() }
func (q recQ) Close() error  { return q.in.Close() }
func (q recQ) Enqueue(item any) bool {
	ok := q.in.Enqueue(item)
	recEnqCount++
	tellEnq(item, ok)
	vt.Mark("q:enq", item, b01(ok)+" "+q.id)
	return ok
}
func (q recQ) Dequeue() (any, bool) {
	v, ok := q.in.Dequeue()
	if ok {
		vt.Mark("q:deq", v, q.id)
	}
	return v, ok
}
func (q recQ) PurgeValues() []any {
	vs := q.in.PurgeValues()
	vt.Mark("q:purge", nil, q.id+" "+strconv.Itoa(len(vs)))
	for _, v := range vs {
		vt.Mark("q:purged", v, q.id)
		tellPurged(v)
	}
	return vs
}

type innerPQ interface {
	IPriorityQueue
	PurgeValues() []any
}

type recPQ struct {
	in innerPQ
	id string
}

func (q recPQ) Len() int {
	n := q.in.Len()
	vt.Mark("q:len", nil, q.id+" "+strconv.Itoa(n))
	return n
}
func (q recPQ) Values() []any { return q.in.Values() }
func (q recPQ) Purge()        { q.in.Purge() }
func (q recPQ) Close() error  { return q.in.Close() }
func (q recPQ) Enqueue(item any, prio int) bool {
	ok := q.in.Enqueue(item, prio)
	recEnqCount++
	tellEnq(item, ok)
	vt.Mark("q:enq", item, b01(ok)+" "+q.id)
	return ok
}
func (q recPQ) Dequeue() (any, bool) {
	v, ok := q.in.Dequeue()
	if ok {
		vt.Mark("q:deq", v, q.id)
	}
	return v, ok
}
func (q recPQ) PurgeValues() []any {
	vs := q.in.PurgeValues()
	vt.Mark("q:purge", nil, q.id+" "+strconv.Itoa(len(vs)))
	for _, v := range vs {
		vt.Mark("q:purged", v, q.id)
		tellPurged(v)
	}
	return vs
}

func newRecQ[J any]() recQ {
	in := queues.NewQueue[J]()
	return recQ{in, nextQID(in)}
}
func newRecPQ[J any]() recPQ {
	in := queues.NewPriorityQueue[J]()
	return recPQ{in, nextQID(in)}
}

// recAckQ / recAckPQ: an in-memory queue of the user's own that also implements IAcknowledgeable
// (a broker-like queue bound through WithQueue / WithPriorityQueue, handing typed jobs out with a
// delivery id). The library has nothing to acknowledge for a job it holds as a value; whatever it
// does with the id, the handle of the job must complete (C05). Acknowledge refuses now and then.
type recAckQ struct {
	recQ
	st *ackState
}

type recAckPQ struct {
	recPQ
	st *ackState
}

type ackState struct {
	n    int
	fail int
}

func (a *ackState) next() string { a.n++; return "ua" + strconv.Itoa(a.n) }
func (a *ackState) ack(id string) bool {
	ok := !(a.fail > 0 && vt.Rand().Intn(a.fail) == 0)
	vt.Mark("uq:ack", nil, id+" "+b01(ok))
	return ok
}

func (q recAckQ) DequeueWithAckId() (any, bool, string) {
	v, ok := q.Dequeue()
	if !ok {
		return nil, false, ""
	}
	return v, true, q.st.next()
}
func (q recAckQ) Acknowledge(id string) bool { return q.st.ack(id) }

func (q recAckPQ) DequeueWithAckId() (any, bool, string) {
	v, ok := q.Dequeue()
	if !ok {
		return nil, false, ""
	}
	return v, true, q.st.next()
}
func (q recAckPQ) Acknowledge(id string) bool { return q.st.ack(id) }

func newUserQ[J any](ackable bool) IQueue {
	q := newRecQ[J]()
	if ackable {
		return recAckQ{q, &ackState{fail: 2}}
	}
	return q
}

func newUserPQ[J any](ackable bool) IPriorityQueue {
	q := newRecPQ[J]()
	if ackable {
		return recAckPQ{q, &ackState{fail: 2}}
	}
	return q
}
