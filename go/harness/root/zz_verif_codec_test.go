package varmq

// Differential-test writer for the Coq model Codec.v (injected into the root package of /repo by
// `go test -overlay`; never written into /repo).
// It drives job.Json / parseToJob[T] / the four Add methods of persistent and distributed queues
// with generated IDs, statuses and payloads and records every observable result, one record per
// line; ocaml/validate replays the records on the extracted model (ocaml/v_codec.ml).
//
// Records (fields separated by one blank; <cps> = "<n> cp1 .. cpn" decimal code points or raw
// bytes; <hex> = lower-case hex, "-" for the empty byte string):
//   CJ v|b <status> <cps> <payloadhex> <outhex>      job.Json() succeeded; v: id given as runes (valid
//                                                    UTF-8), b: id given as raw bytes (malformed UTF-8)
//   CJE <type>                                       job.Json() failed (unencodable payload)
//   CP <outhex> <payloadhex> ok <status> <cps> <gothex> | CP <outhex> <payloadhex> parse|status|other
//                                                    parseToJob[T] on the bytes Json() produced
//   CA <path> 1 <cps> <payloadhex> <entryhex> | CA <path> 0 <cps> - -
//                                                    Add(...) on a stub queue: result and what was enqueued
//   CM r|t <class> <inhex> ok <status> <cps> <datahex> | CM r|t <class> <inhex> parse|status|other
//                                                    parseToJob on a hand-made / mutated entry;
//                                                    r: T = json.RawMessage (datahex = raw bytes kept),
//                                                    t: typed T (datahex = re-marshalled)

import (
	"bufio"
	"encoding/hex"
	"encoding/json"
	"errors"
	"fmt"
	"math"
	"math/rand"
	"os"
	"sort"
	"strconv"
	"strings"
	"sync"
	"testing"
	"time"
	"unicode/utf8"
)

type vcRec struct {
	w     *bufio.Writer
	stats map[string]int
	ep    int
	op    int
	viols int
}

// viol records a failure of a model-independent oracle (plain Go): a concrete failing input for C12.
func (r *vcRec) viol(kind string, format string, a ...any) {
	r.viols++
	r.stats["viol."+kind]++
	if r.viols <= 20 {
		fmt.Fprintf(r.w, "#VIOLATION codec.%s episode=%d op=%d %s\n", kind, r.ep, r.op, fmt.Sprintf(format, a...))
	}
}

func (r *vcRec) p(format string, a ...any) { fmt.Fprintf(r.w, format+"\n", a...) }

func vcEnvInt(name string, def int) int {
	if v, err := strconv.Atoi(os.Getenv(name)); err == nil {
		return v
	}
	return def
}

func vcHex(b []byte) string {
	if len(b) == 0 {
		return "-"
	}
	return hex.EncodeToString(b)
}

func vcRunes(s string) string {
	rs := []rune(s)
	var sb strings.Builder
	sb.WriteString(strconv.Itoa(len(rs)))
	for _, c := range rs {
		sb.WriteByte(' ')
		sb.WriteString(strconv.Itoa(int(c)))
	}
	return sb.String()
}

func vcBytes(s string) string {
	var sb strings.Builder
	sb.WriteString(strconv.Itoa(len(s)))
	for i := 0; i < len(s); i++ {
		sb.WriteByte(' ')
		sb.WriteString(strconv.Itoa(int(s[i])))
	}
	return sb.String()
}

var vcStatusNames = []string{"Created", "Queued", "Processing", "Finished", "Closed"}

// ---------------------------------------------------------------- generators

var vcRuneClasses = []struct {
	name  string
	runes []rune
}{
	{"plain", []rune("abcXYZ019 _-.:/'")},
	{"quote", []rune{'"', '\\'}},
	{"short", []rune{'\b', '\f', '\n', '\r', '\t'}},
	{"ctrl", []rune{0x00, 0x01, 0x07, 0x0b, 0x0e, 0x1b, 0x1f, 0x7f}},
	{"html", []rune{'<', '>', '&'}},
	{"linesep", []rune{0x2028, 0x2029, 0x2027, 0x202a}},
	{"two", []rune{0x80, 0xe9, 0x3a9, 0x7ff}},
	{"three", []rune{0x800, 0x20ac, 0x4e16, 0xd7ff, 0xe000, 0xfffd, 0xffff}},
	{"astral", []rune{0x10000, 0x1f600, 0x1f9ea, 0xe0001, 0x10ffff}},
}

func vcRandRune(rng *rand.Rand) rune {
	for {
		c := rune(rng.Intn(0x110000))
		if c < 0xd800 || c >= 0xe000 {
			return c
		}
	}
}

// valid UTF-8 id, covering every escape class of encoding/json
func vcGenID(r *vcRec, rng *rand.Rand) string {
	switch k := rng.Intn(40); {
	case k == 0:
		r.stats["id.empty"]++
		return ""
	case k == 1:
		r.stats["id.injection"]++
		return []string{`","status":"Closed","data":1}`, vcU("0041"), `\"`, `{"id":"x"}`, `\`, `"`, `a\`, "\\ud83d\\ude00"}[rng.Intn(8)]
	case k == 2:
		r.stats["id.long"]++
		var sb strings.Builder
		for i := 0; i < 150+rng.Intn(200); i++ {
			sb.WriteRune(vcRandRune(rng))
		}
		return sb.String()
	}
	n := 1 + rng.Intn(10)
	var sb strings.Builder
	used := map[string]bool{}
	for i := 0; i < n; i++ {
		if rng.Intn(4) == 0 {
			sb.WriteRune(vcRandRune(rng))
			used["random"] = true
			continue
		}
		c := vcRuneClasses[rng.Intn(len(vcRuneClasses))]
		sb.WriteRune(c.runes[rng.Intn(len(c.runes))])
		used[c.name] = true
	}
	for k := range used {
		r.stats["id.has_"+k]++
	}
	return sb.String()
}

var vcBadSeqs = []string{"\x80", "\xbf", "\xc0\xaf", "\xc1\xbf", "\xff", "\xfe", "\xe2\x82", "\xe0\x80\x80", "\xed\xa0\x80",
	"\xed\xbf\xbf", "\xf0\x80\x80\x80", "\xf0\x9f\x98", "\xf4\x90\x80\x80", "\xf5\x80\x80\x80", "\xf8\x88\x80\x80\x80", "\xc3", "\xe2\x28\xa1"}

// id with malformed UTF-8 in it
func vcGenBadID(rng *rand.Rand) string {
	var sb strings.Builder
	n := 1 + rng.Intn(6)
	bad := rng.Intn(n)
	for i := 0; i < n; i++ {
		if i == bad || rng.Intn(3) == 0 {
			sb.WriteString(vcBadSeqs[rng.Intn(len(vcBadSeqs))])
		} else if rng.Intn(2) == 0 {
			sb.WriteRune(vcRandRune(rng))
		} else {
			c := vcRuneClasses[rng.Intn(len(vcRuneClasses))]
			sb.WriteRune(c.runes[rng.Intn(len(c.runes))])
		}
	}
	return sb.String()
}

type vcInner struct {
	X int     `json:"x"`
	Y *string `json:"y,omitempty"`
}

type vcStruct struct {
	A int64
	B string `json:"b"`
	C []float64
	D map[string]bool
	E *int
	F vcInner
	G []vcInner
	H any
	i int // unexported: not encoded
}

type vcBadStruct struct {
	A int
	C chan int
}

var vcInt64s = []int64{0, 1, -1, math.MaxInt64, math.MinInt64, math.MaxInt64 - 1, 1 << 53, (1 << 53) + 1, -(1 << 53) - 1, 1 << 31, 42}
var vcFloats = []float64{0, math.Copysign(0, -1), 1, -1.5, 1e21, 1e20, 1e-6, 1e-7, math.MaxFloat64, math.SmallestNonzeroFloat64,
	0.1, 1.0 / 3, 123456789.125, float64(1 << 53), 5e-324, 2.5e+100}

func vcGenStruct(r *vcRec, rng *rand.Rand) vcStruct {
	s := vcStruct{A: vcInt64s[rng.Intn(len(vcInt64s))], B: vcGenID(r, rng), i: 7}
	for i := rng.Intn(4); i > 0; i-- {
		s.C = append(s.C, vcFloats[rng.Intn(len(vcFloats))])
	}
	if rng.Intn(2) == 0 {
		s.D = map[string]bool{}
		for i := rng.Intn(4); i > 0; i-- {
			s.D[vcGenID(r, rng)] = rng.Intn(2) == 0
		}
	}
	if rng.Intn(2) == 0 {
		v := rng.Intn(1000) - 500
		s.E = &v
	}
	s.F.X = rng.Intn(10)
	if rng.Intn(2) == 0 {
		y := vcGenID(r, rng)
		s.F.Y = &y
	}
	for i := rng.Intn(3); i > 0; i-- {
		s.G = append(s.G, vcInner{X: i})
	}
	s.H = vcGenAny(r, rng, 2)
	return s
}

func vcGenAny(r *vcRec, rng *rand.Rand, depth int) any {
	k := rng.Intn(9)
	if depth == 0 && k >= 6 {
		k = rng.Intn(6)
	}
	switch k {
	case 0:
		return nil
	case 1:
		return rng.Intn(2) == 0
	case 2:
		return vcFloats[rng.Intn(len(vcFloats))]
	case 3:
		return vcGenID(r, rng)
	case 4:
		return vcInt64s[rng.Intn(len(vcInt64s))]
	case 5:
		return []byte(vcGenID(r, rng))
	case 6:
		var l []any
		for i := rng.Intn(4); i > 0; i-- {
			l = append(l, vcGenAny(r, rng, depth-1))
		}
		return l
	case 7:
		m := map[string]any{}
		for i := rng.Intn(4); i > 0; i-- {
			m[vcGenID(r, rng)] = vcGenAny(r, rng, depth-1)
		}
		return m
	default:
		return [][]int{{1, 2}, {}, nil, {rng.Intn(100)}}
	}
}

// ---------------------------------------------------------------- one well-formed case

func vcClass(err error) string {
	switch {
	case err == nil:
		return "ok"
	case errors.Is(err, ErrParseJob):
		return "parse"
	case strings.HasPrefix(err.Error(), "invalid status"):
		return "status"
	default:
		return "other"
	}
}

// JSON round trip of a value of type T, computed on the payload alone (independent of the envelope)
func vcRoundTrip[T any](pb []byte) ([]byte, error) {
	var x T
	if err := json.Unmarshal(pb, &x); err != nil {
		return nil, err
	}
	return json.Marshal(x)
}

func vcCase[T any](r *vcRec, id string, st status, v T, tname string) {
	r.op++
	r.stats["type."+tname]++
	j := newJob(v, jobConfigs{Id: id})
	j.changeStatus(st)
	out, err := j.Json()
	pb, perr := json.Marshal(v)
	if perr != nil {
		r.stats["json.unencodable"]++
		r.p("CJE %s", tname)
		if err == nil {
			r.viol("unencodable-accepted", "type=%s payload does not marshal (%v) but Json() returned %q", tname, perr, out)
		}
		return
	}
	if err != nil {
		r.viol("encodable-rejected", "type=%s Json() failed: %v", tname, err)
		return
	}
	valid := utf8.ValidString(id)
	if valid {
		r.p("CJ v %s %s %s %s", vcStatusNames[st], vcRunes(id), vcHex(pb), vcHex(out))
	} else {
		r.p("CJ b %s %s %s %s", vcStatusNames[st], vcBytes(id), vcHex(pb), vcHex(out))
	}
	r.stats["json.ok"]++
	if !json.Valid(out) {
		r.viol("invalid-json", "Json() output is not valid JSON: %q", out)
	}
	res, err := parseToJob[T](out)
	cl := vcClass(err)
	r.stats["parse."+cl]++
	if err != nil {
		r.p("CP %s %s %s", vcHex(out), vcHex(pb), cl)
		r.viol("lost", "entry produced by Json() does not parse: %v; entry=%q", err, out)
		return
	}
	jj, ok := res.(*job[T])
	if !ok {
		r.viol("lost", "parseToJob returned %T", res)
		return
	}
	got, gerr := json.Marshal(jj.Data())
	if gerr != nil {
		r.viol("payload", "decoded payload does not marshal: %v", gerr)
	}
	r.p("CP %s %s ok %s %s %s", vcHex(out), vcHex(pb), jj.Status(), vcRunes(jj.ID()), vcHex(got))
	// oracles (plain Go)
	wantID := id
	if !valid {
		wantID = string([]rune(id)) // each malformed byte becomes U+FFFD: such ids are outside C12
		r.stats["id.malformed_utf8"]++
		if jj.ID() == id {
			r.viol("id", "malformed id %q unexpectedly preserved", id)
		}
	}
	if jj.ID() != wantID {
		r.viol("id", "id %q came back as %q; entry=%q", id, jj.ID(), out)
	}
	if jj.Status() != vcStatusNames[st] {
		r.viol("status", "status %s came back as %s", vcStatusNames[st], jj.Status())
	}
	rt, rerr := vcRoundTrip[T](pb)
	if rerr != nil {
		r.viol("payload", "payload %q does not round-trip on its own: %v", pb, rerr)
	} else if string(rt) != string(got) {
		r.viol("payload", "type=%s payload %q: JSON round trip is %q, consumer got %q", tname, pb, rt, got)
	}
	if string(rt) == string(pb) {
		r.stats["payload.rt_identical"]++
	} else {
		r.stats["payload.rt_differs"]++
	}
}

// ---------------------------------------------------------------- stub queues for the Add paths

type vcStub struct {
	mu      sync.Mutex
	items   [][]byte
	enq     int
	acks    int
	refuse  bool
	foreign int
}

func (q *vcStub) push(b []byte) {
	q.mu.Lock()
	q.items = append(q.items, b)
	q.mu.Unlock()
}
func (q *vcStub) Len() int { q.mu.Lock(); defer q.mu.Unlock(); return len(q.items) }
func (q *vcStub) Dequeue() (any, bool) {
	q.mu.Lock()
	defer q.mu.Unlock()
	if len(q.items) == 0 {
		return nil, false
	}
	v := q.items[0]
	q.items = q.items[1:]
	return v, true
}
func (q *vcStub) Values() []any {
	q.mu.Lock()
	defer q.mu.Unlock()
	var vs []any
	for _, b := range q.items {
		vs = append(vs, b)
	}
	return vs
}
func (q *vcStub) Purge()       { q.mu.Lock(); q.items = nil; q.mu.Unlock() }
func (q *vcStub) Close() error { return nil }
func (q *vcStub) enqueue(item any) bool {
	q.mu.Lock()
	defer q.mu.Unlock()
	q.enq++
	if q.refuse {
		return false
	}
	b, ok := item.([]byte)
	if !ok {
		q.foreign++
		return false
	}
	q.items = append(q.items, b)
	return true
}
func (q *vcStub) Acknowledge(string) bool { q.mu.Lock(); q.acks++; q.mu.Unlock(); return true }
func (q *vcStub) DequeueWithAckId() (any, bool, string) {
	v, ok := q.Dequeue()
	return v, ok, "ack"
}
func (q *vcStub) Subscribe(func(string)) {}

type vcStubFifo struct{ vcStub }

func (q *vcStubFifo) Enqueue(item any) bool { return q.enqueue(item) }

type vcStubPrio struct{ vcStub }

func (q *vcStubPrio) Enqueue(item any, priority int) bool { return q.enqueue(item) }

// Add on each of the four queue kinds; the worker of the persistent kinds is never started, so
// that nothing consumes the stub.
func vcAdd[T any](r *vcRec, rng *rand.Rand, id string, v T, tname string) {
	r.op++
	path := []string{"persistent", "persistent_priority", "distributed", "distributed_priority"}[rng.Intn(4)]
	r.stats["add."+path]++
	var st *vcStub
	var ok bool
	switch path {
	case "persistent":
		q := &vcStubFifo{}
		st = &q.vcStub
		ok = newPersistentQueue[T](newWorker[T](func(iJob[T]) {}), q).Add(v, WithJobId(id))
	case "persistent_priority":
		q := &vcStubPrio{}
		st = &q.vcStub
		ok = newPersistentPriorityQueue[T](newWorker[T](func(iJob[T]) {}), q).Add(v, rng.Intn(5), WithJobId(id))
	case "distributed":
		q := &vcStubFifo{}
		st = &q.vcStub
		ok = NewDistributedQueue[T](q).Add(v, WithJobId(id))
	default:
		q := &vcStubPrio{}
		st = &q.vcStub
		ok = NewDistributedPriorityQueue[T](q).Add(v, rng.Intn(5), WithJobId(id))
	}
	pb, perr := json.Marshal(v)
	if perr != nil {
		r.stats["add.unencodable"]++
		r.p("CA %s 0 %s - -", path, vcRunes(id))
		if ok || st.enq != 0 || len(st.items) != 0 {
			r.viol("unencodable-accepted", "path=%s type=%s Add=%v enqueue-calls=%d stored=%d", path, tname, ok, st.enq, len(st.items))
		}
		return
	}
	if !ok || len(st.items) != 1 || st.enq != 1 {
		r.viol("add", "path=%s type=%s Add=%v enqueue-calls=%d stored=%d", path, tname, ok, st.enq, len(st.items))
		return
	}
	r.p("CA %s 1 %s %s %s", path, vcRunes(id), vcHex(pb), vcHex(st.items[0]))
	res, err := parseToJob[T](st.items[0])
	if err != nil {
		r.viol("lost", "path=%s entry stored by Add does not parse: %v; entry=%q", path, err, st.items[0])
		return
	}
	jj := res.(*job[T])
	if jj.ID() != id || jj.Status() != "Created" {
		r.viol("id", "path=%s Add(id=%q) stored id=%q status=%s", path, id, jj.ID(), jj.Status())
	}
}

// ---------------------------------------------------------------- malformed / foreign entries

func vcQuote(s string) string { b, _ := json.Marshal(s); return string(b) }

var vcPayloadTexts = []string{`1`, `-0`, `0`, `1e5`, `1E+2`, `-12.5e-3`, `"x"`, `""`, `"a\"b\\c\/é😀"`, `true`, `false`, `null`,
	`[]`, `{}`, `[1,2,[3,{"a":null}]]`, `{"a":{"b":[1,"}",{"c":"]"}]}}`, `[ 1 , 2 ]`, `{ "a" : 1 }`, `[[[[[[[[[[1]]]]]]]]]]`,
	`" "`, "\"\xff\"", `12345678901234567890123`, `0.000000000000000000000001`}

var vcBadPayloadTexts = []string{``, `01`, `1.`, `.5`, `+1`, `-`, `1e`, `tru`, `nul`, `nil`, `[1,]`, `[1 2]`, `{"a":}`, `{"a"}`, `{a:1}`, `"unterminated`,
	`"bad\xescape"`, "\"ctl\x01\"", `[`, `{`, `]`, `}`, `1}`, `1,"x":2`, `'x'`, `NaN`, `Infinity`, `0x10`, `"\ud800\u12"`}

func vcU(h string) string { return "\\" + "u" + h }

var vcIDLiterals = []string{`"a"`, `""`, `"` + vcU("0041") + `"`, `"` + vcU("d83d") + vcU("de00") + `"`, `"` + vcU("d800") + `"`, `"` + vcU("dc00") + `"`,
	`"` + vcU("d83d") + vcU("0041") + `"`, `"` + vcU("d83d") + `x"`, `"` + vcU("d83d") + vcU("d83d") + vcU("de00") + `"`, `"` + vcU("dbff") + vcU("dfff") + `"`,
	`"\/"`, `"\b\f\n\r\t"`, `"` + vcU("0000") + `"`, `"` + vcU("2028") + `"`, `"` + vcU("D83D") + vcU("DE00") + `"`, `"` + vcU("ffff") + `"`, `"` + vcU("FFFE") + `"`,
	`"` + vcU("00e9") + vcU("003c") + vcU("0022") + vcU("005C") + `"`, "\"\x7f\"", "\"\xff\"", "\"\xc0\xaf\"", "\"\xed\xa0\x80\"",
	"\"\xe2\x82\"", "\"\xf4\x90\x80\x80\"", "\"\xf0\x9f\x98\x80\"", "\"\xe2\x80\xa8\"", "\"\xc3\xa9\""}

var vcBadIDLiterals = []string{`"\x41"`, `"\'"`, `"\u12"`, `"\u12G4"`, `"\U0041"`, "\"\x01\"", "\"\n\"", "\"\t\"", `"a`, `a"`, `'a'`, `"\"`, `"\u"`, `"\ud800\u12"`, `"\a"`, `"\0"`}

var vcStatusLiterals = []string{`"Created"`, `"Queued"`, `"Processing"`, `"Finished"`, `"Closed"`,
	`"Fin` + vcU("0069") + `shed"`, `"` + vcU("0043") + `losed"`, `"Queue` + vcU("0064") + `"`}

var vcBadStatusLiterals = []string{`""`, `"created"`, `"CLOSED"`, `"Unknown"`, `"Done"`, `"Finished "`, `" Queued"`, `"Closed` + vcU("0000") + `"`, `"Queue"`, `"Queuedd"`,
	`"Processing\n"`, `"0"`, `"Cl` + vcU("00f6") + `sed"`, `"Clos\/ed"`, `"` + vcU("d83d") + `"`}

func vcPick(rng *rand.Rand, l []string) string { return l[rng.Intn(len(l))] }

// vcMalformed returns (class, entry bytes)
func vcMalformed(r *vcRec, rng *rand.Rand) (string, []byte) {
	id := vcPick(rng, vcIDLiterals)
	if rng.Intn(3) == 0 {
		id = vcQuote(vcGenID(r, rng))
	}
	st := vcPick(rng, vcStatusLiterals)
	data := vcPick(rng, vcPayloadTexts)
	strict := func() string { return `{"id":` + id + `,"status":` + st + `,"data":` + data + `}` }
	switch k := rng.Intn(20); k {
	case 0:
		return "strict", []byte(strict())
	case 1:
		s := strict()
		return "truncated", []byte(s[:rng.Intn(len(s))])
	case 2:
		st = vcPick(rng, vcBadStatusLiterals)
		return "bad_status", []byte(strict())
	case 3:
		id = vcPick(rng, vcBadIDLiterals)
		return "bad_id_literal", []byte(strict())
	case 4:
		id = vcPick(rng, []string{`5`, `null`, `true`, `[]`, `{}`, `["a"]`, `1.5`, `{"id":"a"}`})
		return "id_wrong_type", []byte(strict())
	case 5:
		st = vcPick(rng, []string{`3`, `null`, `false`, `[]`, `{}`, `["Closed"]`})
		return "status_wrong_type", []byte(strict())
	case 6:
		data = vcPick(rng, vcBadPayloadTexts)
		return "bad_payload", []byte(strict())
	case 7:
		extra := vcPick(rng, []string{`"x":1`, `"extra":"y"`, `"Id":"other"`, `"id":"dup"`, `"status":"Closed"`, `"data":0`, `"":null`, `"payload":[1]`})
		parts := []string{`"id":` + id, `"status":` + st, `"data":` + data}
		pos := rng.Intn(4)
		parts = append(parts[:pos], append([]string{extra}, parts[pos:]...)...)
		return "extra_field", []byte(`{` + strings.Join(parts, ",") + `}`)
	case 8:
		parts := []string{`"id":` + id, `"status":` + st, `"data":` + data}
		drop := rng.Intn(3)
		parts = append(parts[:drop], parts[drop+1:]...)
		return "missing_field", []byte(`{` + strings.Join(parts, ",") + `}`)
	case 9:
		parts := []string{`"id":` + id, `"status":` + st, `"data":` + data}
		rng.Shuffle(3, func(i, j int) { parts[i], parts[j] = parts[j], parts[i] })
		return "field_order", []byte(`{` + strings.Join(parts, ",") + `}`)
	case 10:
		ws := func() string { return vcPick(rng, []string{"", " ", "\n", "\t", "\r\n", "  "}) }
		return "whitespace", []byte(ws() + `{` + ws() + `"id"` + ws() + `:` + ws() + id + ws() + `,` + ws() + `"status"` + ws() + `:` + ws() + st + ws() +
			`,` + ws() + `"data"` + ws() + `:` + ws() + data + ws() + `}` + ws())
	case 11:
		keys := vcPick(rng, []string{"ID,Status,Data", "Id,STATUS,data", "iD,status,DATA", "id,status,Data", "id,statuſ,data"})
		ks := strings.Split(keys, ",")
		return "key_case", []byte(`{"` + ks[0] + `":` + id + `,"` + ks[1] + `":` + st + `,"` + ks[2] + `":` + data + `}`)
	case 12:
		g := vcPick(rng, []string{"x", "}", "{}", " 1", ",", "\x00", "null"})
		if rng.Intn(2) == 0 {
			return "garbage_after", []byte(strict() + g)
		}
		return "garbage_before", []byte(g + strict())
	case 13:
		return "not_object", []byte(vcPick(rng, []string{``, `null`, `[]`, `{}`, `"x"`, `1`, `[{"id":"a","status":"Queued","data":1}]`, `{"id":"a"}`, ` `, `{`, `}`}))
	case 14, 15, 16:
		// one random byte edit of a strict entry
		b := []byte(strict())
		pos := rng.Intn(len(b))
		switch rng.Intn(3) {
		case 0:
			b[pos] = byte(rng.Intn(256))
		case 1:
			b = append(b[:pos], b[pos+1:]...)
		default:
			b = append(b[:pos], append([]byte{"\"\\{}[]:, x0\x00\xff"[rng.Intn(13)]}, b[pos:]...)...)
		}
		return "byte_edit", b
	case 17:
		// escaped key names are still the same keys for encoding/json
		return "key_escaped", []byte(`{"` + vcU("0069") + `d":` + id + `,"stat` + vcU("0075") + `s":` + st + `,"d` + vcU("0061") + `ta":` + data + `}`)
	case 18:
		st = vcPick(rng, vcBadStatusLiterals)
		data = vcPick(rng, vcBadPayloadTexts)
		return "bad_status_and_payload", []byte(strict())
	default:
		return "strict", []byte(strict())
	}
}

func vcMalformedCase(r *vcRec, rng *rand.Rand) {
	r.op++
	class, in := vcMalformed(r, rng)
	r.stats["mal."+class]++
	res, err := parseToJob[json.RawMessage](in)
	cl := vcClass(err)
	r.stats["mal.result_"+cl]++
	if err != nil {
		r.p("CM r %s %s %s", class, vcHex(in), cl)
		if res != nil {
			r.viol("malformed-yields-job", "error %v together with a job for entry %q", err, in)
		}
		if cl == "other" {
			r.viol("error-class", "unclassified error %v for entry %q", err, in)
		}
		return
	}
	jj := res.(*job[json.RawMessage])
	r.p("CM r %s %s ok %s %s %s", class, vcHex(in), jj.Status(), vcRunes(jj.ID()), vcHex(jj.Data()))
	// plain-Go oracle: what is accepted is valid JSON, an object, and carries one of the five statuses
	var generic map[string]json.RawMessage
	if !json.Valid(in) || json.Unmarshal(in, &generic) != nil {
		r.viol("malformed-yields-job", "entry %q is not a JSON object but parsed to a job", in)
	}
	okStatus := false
	for _, s := range vcStatusNames {
		okStatus = okStatus || s == jj.Status()
	}
	if !okStatus {
		r.viol("malformed-yields-job", "entry %q parsed to a job with status %q", in, jj.Status())
	}
}

// typed payloads that do not fit T
func vcTypedCase(r *vcRec, rng *rand.Rand) {
	r.op++
	id := vcQuote(vcGenID(r, rng))
	st := vcPick(rng, vcStatusLiterals)
	mk := func(data string) []byte { return []byte(`{"id":` + id + `,"status":` + st + `,"data":` + data + `}`) }
	rec := func(in []byte, res any, err error, data func() any) {
		cl := vcClass(err)
		r.stats["typed.result_"+cl]++
		if err != nil {
			r.p("CM t typed %s %s", vcHex(in), cl)
			if res != nil {
				r.viol("malformed-yields-job", "error %v together with a job for entry %q", err, in)
			}
			return
		}
		got, _ := json.Marshal(data())
		ij := res.(interface {
			ID() string
			Status() string
		})
		r.p("CM t typed %s ok %s %s %s", vcHex(in), ij.Status(), vcRunes(ij.ID()), vcHex(got))
	}
	switch rng.Intn(5) {
	case 0:
		in := mk(vcPick(rng, []string{`"x"`, `1.5`, `9223372036854775808`, `-9223372036854775809`, `1e400`, `null`, `7`, `[1]`, `true`, `1e2`}))
		res, err := parseToJob[int64](in)
		rec(in, res, err, func() any { return res.(*job[int64]).Data() })
	case 1:
		in := mk(vcPick(rng, []string{`5`, `null`, `"ok"`, `["a"]`, `{}`, `false`}))
		res, err := parseToJob[string](in)
		rec(in, res, err, func() any { return res.(*job[string]).Data() })
	case 2:
		in := mk(vcPick(rng, []string{`"true"`, `1`, `null`, `true`, `[]`}))
		res, err := parseToJob[bool](in)
		rec(in, res, err, func() any { return res.(*job[bool]).Data() })
	case 3:
		in := mk(vcPick(rng, []string{`{"A":"x"}`, `{"A":1,"b":2}`, `[]`, `{"A":1,"unknown":[1,2]}`, `{"F":{"x":"y"}}`, `null`, `{"C":[1,"2"]}`, `{"a":5,"B":"z"}`}))
		res, err := parseToJob[vcStruct](in)
		rec(in, res, err, func() any { return res.(*job[vcStruct]).Data() })
	default:
		in := mk(vcPick(rng, []string{`1e400`, `"1"`, `1`, `null`, `-1.5e-300`, `{}`}))
		res, err := parseToJob[float64](in)
		rec(in, res, err, func() any { return res.(*job[float64]).Data() })
	}
}

// ---------------------------------------------------------------- end to end through a running worker

type vcSeen struct{ id, data string }

// payloads that look like parts of the envelope (a map with a "status", an "id", a "data" key; a
// string that spells a whole entry) go through a running worker unchanged, every one of them
func vcEndToEndStructured(r *vcRec, rng *rand.Rand) {
	r.op++
	stub := &vcStubFifo{}
	var mu sync.Mutex
	var seen []string
	pq := NewWorker(func(j Job[map[string]string]) {
		b, _ := json.Marshal(j.Data())
		mu.Lock()
		seen = append(seen, j.ID()+"="+string(b))
		mu.Unlock()
	}, 1).WithPersistentQueue(stub)
	w := pq.Worker()
	go func() {
		for range w.Errs() {
		}
	}()
	payloads := []map[string]string{
		{"status": "Closed"}, {"status": "Finished", "id": "x"}, {"note": "plain"},
		{"data": "{\"id\":\"q\",\"status\":\"Closed\"}"}, {"status": "Processing", "data": "1"}, {"id": "", "status": "Created"},
	}
	var want []string
	for i, p := range payloads {
		id := "s" + strconv.Itoa(i)
		if !pq.Add(p, WithJobId(id)) {
			r.viol("e2e", "Add of a structured payload failed (%v)", p)
			continue
		}
		b, _ := json.Marshal(p)
		want = append(want, id+"="+string(b))
	}
	deadline := time.Now().Add(10 * time.Second)
	for {
		mu.Lock()
		k := len(seen)
		mu.Unlock()
		if k >= len(want) || time.Now().After(deadline) {
			break
		}
		time.Sleep(200 * time.Microsecond)
	}
	mu.Lock()
	got := append([]string(nil), seen...)
	mu.Unlock()
	r.stats["e2e.structured"] += len(want)
	if strings.Join(got, " ") != strings.Join(want, " ") {
		r.viol("e2e", "structured payloads: the worker saw %q, stored were %q", got, want)
	}
	w.Stop()
}

// good and bad entries interleaved in a stub persistent queue consumed by a real worker
// (concurrency 1): the worker function must see exactly the good ones, in order, with their ids
// and payloads. Oracle only (no records): the system-level part of C12 is decided elsewhere.
func vcEndToEnd(r *vcRec, rng *rand.Rand) {
	r.op++
	stub := &vcStubFifo{}
	var mu sync.Mutex
	var seen []vcSeen
	pq := NewWorker(func(j Job[string]) {
		mu.Lock()
		seen = append(seen, vcSeen{j.ID(), j.Data()})
		mu.Unlock()
	}, 1).WithPersistentQueue(stub)
	w := pq.Worker()
	nerr := 0
	var emu sync.Mutex
	done := make(chan struct{})
	go func() {
		defer close(done)
		for range w.Errs() {
			emu.Lock()
			nerr++
			emu.Unlock()
		}
	}()
	var want []vcSeen
	bad := 0
	n := 3 + rng.Intn(10)
	for i := 0; i < n; i++ {
		switch rng.Intn(5) {
		case 0, 1:
			_, in := vcMalformed(r, rng)
			if _, err := parseToJob[string](in); err != nil {
				stub.push(in)
				bad++
			}
		case 2:
			// a well-formed entry that is already closed: skipped silently by processNextJob
			j := newJob(vcGenID(r, rng), jobConfigs{Id: vcGenID(r, rng)})
			j.changeStatus(closed)
			b, _ := j.Json()
			stub.push(b)
			r.stats["e2e.closed_entries"]++
		default:
			id, v := vcGenID(r, rng), vcGenID(r, rng)
			if !pq.Add(v, WithJobId(id)) {
				r.viol("e2e", "Add(%q) failed", id)
			}
			want = append(want, vcSeen{id, v})
		}
	}
	// a final good job: its Add also wakes the event loop for the raw entries pushed before it
	pq.Add("last", WithJobId("last"))
	want = append(want, vcSeen{"last", "last"})
	deadline := time.Now().Add(10 * time.Second)
	for {
		mu.Lock()
		k := len(seen)
		mu.Unlock()
		if k >= len(want) || time.Now().After(deadline) {
			break
		}
		time.Sleep(200 * time.Microsecond)
	}
	mu.Lock()
	got := append([]vcSeen(nil), seen...)
	mu.Unlock()
	r.stats["e2e.episodes"]++
	r.stats["e2e.good_entries"] += len(want)
	r.stats["e2e.bad_entries"] += bad
	if len(got) != len(want) {
		r.viol("e2e", "worker saw %d jobs, %d good entries stored (%d bad in between): got=%q want=%q", len(got), len(want), bad, got, want)
	} else {
		for i := range want {
			if got[i] != want[i] {
				r.viol("e2e", "job %d: worker saw %q, stored %q (bad entries in between: %d)", i, got[i], want[i], bad)
				break
			}
		}
	}
	stopped := make(chan struct{})
	go func() { w.Stop(); close(stopped) }()
	select {
	case <-stopped:
		<-done
	case <-time.After(5 * time.Second):
		r.stats["e2e.stop_timeout"]++
	}
	emu.Lock()
	r.stats["e2e.errors_reported"] += nerr
	emu.Unlock()
}

// ---------------------------------------------------------------- driver

func vcWellFormed(r *vcRec, rng *rand.Rand, id string) {
	st := status(rng.Intn(5))
	switch rng.Intn(16) {
	case 0:
		vcCase(r, id, st, vcGenID(r, rng), "string")
	case 1:
		vcCase(r, id, st, vcInt64s[rng.Intn(len(vcInt64s))], "int64")
	case 2:
		vcCase(r, id, st, vcFloats[rng.Intn(len(vcFloats))], "float64")
	case 3:
		vcCase(r, id, st, rng.Intn(2) == 0, "bool")
	case 4:
		vcCase(r, id, st, [][]int{{1, 2, 3}, {}, nil, {rng.Intn(1000), -rng.Intn(1000)}}, "[][]int")
	case 5:
		vcCase(r, id, st, map[string][]string{vcGenID(r, rng): {vcGenID(r, rng)}, "k": nil, "": {}}, "map[string][]string")
	case 6:
		vcCase(r, id, st, vcGenStruct(r, rng), "struct")
	case 7:
		vcCase[*int](r, id, st, nil, "*int(nil)")
	case 8:
		s := vcGenStruct(r, rng)
		vcCase(r, id, st, &s, "*struct")
	case 9:
		vcCase[any](r, id, st, vcGenAny(r, rng, 3), "any")
	case 10:
		vcCase(r, id, st, []byte(vcGenID(r, rng)), "[]byte")
	case 11:
		vcCase(r, id, st, vcGenBadID(rng), "string(malformed utf8)")
	case 12:
		vcCase(r, id, st, json.RawMessage(vcPick(rng, vcPayloadTexts)), "json.RawMessage")
	case 13:
		vcCase(r, id, st, uint64(math.MaxUint64)-uint64(rng.Intn(2)), "uint64")
	case 14:
		vcCase(r, id, st, map[int]string{rng.Intn(100) - 50: vcGenID(r, rng), 7: "x"}, "map[int]string")
	default:
		vcCase(r, id, st, [3]float32{float32(rng.Float64()), 0.1, -2.5e10}, "[3]float32")
	}
}

func vcUnencodable(r *vcRec, rng *rand.Rand, id string) {
	st := status(rng.Intn(5))
	add := rng.Intn(2) == 0
	switch rng.Intn(7) {
	case 0:
		if add {
			vcAdd(r, rng, id, math.NaN(), "float64(NaN)")
		} else {
			vcCase(r, id, st, math.NaN(), "float64(NaN)")
		}
	case 1:
		if add {
			vcAdd(r, rng, id, math.Inf(1-2*rng.Intn(2)), "float64(Inf)")
		} else {
			vcCase(r, id, st, math.Inf(1-2*rng.Intn(2)), "float64(Inf)")
		}
	case 2:
		if add {
			vcAdd(r, rng, id, make(chan int), "chan")
		} else {
			vcCase(r, id, st, make(chan int), "chan")
		}
	case 3:
		if add {
			vcAdd(r, rng, id, func() {}, "func")
		} else {
			vcCase(r, id, st, func() {}, "func")
		}
	case 4:
		if add {
			vcAdd(r, rng, id, vcBadStruct{A: 1}, "struct{chan}")
		} else {
			vcCase(r, id, st, vcBadStruct{A: 1}, "struct{chan}")
		}
	case 5:
		v := map[string]any{"ok": 1, "f": func() {}}
		if add {
			vcAdd[any](r, rng, id, v, "any{func}")
		} else {
			vcCase[any](r, id, st, v, "any{func}")
		}
	default:
		v := []any{1.5, []float64{math.NaN()}}
		if add {
			vcAdd[any](r, rng, id, v, "any{NaN}")
		} else {
			vcCase[any](r, id, st, v, "any{NaN}")
		}
	}
}

func TestVerifCodecDiff(t *testing.T) {
	out := os.Getenv("VERIF_OUT")
	if out == "" {
		t.Skip("VERIF_OUT not set")
	}
	seed := int64(vcEnvInt("VERIF_SEED", 1))
	cases := vcEnvInt("VERIF_CODEC_CASES", 4000)
	e2e := vcEnvInt("VERIF_CODEC_E2E", 25)
	f, err := os.Create(out)
	if err != nil {
		t.Fatal(err)
	}
	defer f.Close()
	r := &vcRec{w: bufio.NewWriterSize(f, 1<<20), stats: map[string]int{}}
	defer r.w.Flush()
	rng := rand.New(rand.NewSource(seed))

	// every status x a fixed id, every single rune class on its own
	for st := status(0); st < 5; st++ {
		vcCase(r, "job-1", st, int64(st), "int64")
	}
	for _, c := range vcRuneClasses {
		for _, x := range c.runes {
			vcCase(r, string(x), queued, "p", "string")
		}
	}
	for c := rune(0); c < 0x80; c++ { // all of ASCII
		vcCase(r, "a"+string(c)+"b", created, true, "bool")
	}
	for _, s := range vcBadSeqs {
		vcCase(r, "a"+s+"b", created, true, "bool")
	}

	for i := 0; i < cases; i++ {
		r.ep = i
		switch k := rng.Intn(100); {
		case k < 40:
			vcWellFormed(r, rng, vcGenID(r, rng))
		case k < 46:
			r.stats["id.stream_malformed_utf8"]++
			vcWellFormed(r, rng, vcGenBadID(rng))
		case k < 52:
			vcUnencodable(r, rng, vcGenID(r, rng))
		case k < 60:
			id := vcGenID(r, rng)
			switch rng.Intn(4) {
			case 0:
				vcAdd(r, rng, id, vcGenID(r, rng), "string")
			case 1:
				vcAdd(r, rng, id, vcGenStruct(r, rng), "struct")
			case 2:
				vcAdd[any](r, rng, id, vcGenAny(r, rng, 2), "any")
			default:
				vcAdd(r, rng, id, vcInt64s[rng.Intn(len(vcInt64s))], "int64")
			}
		case k < 94:
			vcMalformedCase(r, rng)
		default:
			vcTypedCase(r, rng)
		}
	}
	for i := 0; i < e2e; i++ {
		r.ep = cases + i
		vcEndToEnd(r, rng)
	}
	vcEndToEndStructured(r, rng)

	r.stats["cases"] = cases
	r.stats["oracle_violations"] = r.viols
	keys := make([]string, 0, len(r.stats))
	for k := range r.stats {
		keys = append(keys, k)
	}
	sort.Strings(keys)
	r.w.WriteString("#STATS")
	for _, k := range keys {
		fmt.Fprintf(r.w, " %s=%d", strings.ReplaceAll(k, " ", "_"), r.stats[k])
	}
	r.w.WriteString("\n")
}
