package varmq

// Recording adapter: the specification object for persistent / distributed queues (C11, C12,
// C13). Every method is one atomic event of the controlled scheduler; deliveries,
// acknowledgements and faults are logged so that the adapter state at every prefix (= crash
// point) can be reconstructed.

import (
	"encoding/json"
	"fmt"
	"sort"
	"strconv"

	"github.com/goptics/varmq/internal/vt"
)

type adItem struct {
	raw  []byte
	prio int
	seq  int
	data int // payload of the envelope (-1 when undecodable)
}

type adOp struct {
	t     int
	op    string // enq, enq!, deq, deq!, deq0, ack, ack!, ackbad, purge, close
	data  int
	ackID string
	tid   int
}

type recAdapter struct {
	idx      int
	prio     bool
	pending  []adItem
	unacked  map[string]adItem
	acked    []adItem
	seq      int
	deliv    int
	closed   bool
	subs     []func(string)
	notifyQ  []int // pending notifications per subscriber
	ops      []adOp
	failEnq  int // 1/n chance to refuse (0 = never)
	failDeq  int
	failStreak int // the next failStreak dequeues are refused although items are pending (backend hiccup)
	failAck  int
	preload  int
	retain   bool // keep the []byte handed to Enqueue instead of copying it
}

func newRecAdapter(prio bool, idx int) *recAdapter {
	a := &recAdapter{idx: idx, prio: prio, unacked: map[string]adItem{}}
	if vt.S != nil {
		a.retain = vt.Rand().Intn(2) == 0
	}
	return a
}

func envData(raw []byte) int {
	var v struct {
		Data *int `json:"data"`
	}
	if err := json.Unmarshal(raw, &v); err != nil || v.Data == nil {
		return -1
	}
	return *v.Data
}

func (a *recAdapter) log(op string, data int, ack string) {
	tid := -1
	if g := vt.Cur(); g != nil {
		tid = g.ID
	}
	a.ops = append(a.ops, adOp{now(), op, data, ack, tid})
}

func (a *recAdapter) chance(n int) bool { return n > 0 && vt.Rand().Intn(n) == 0 }

func (a *recAdapter) Len() int {
	n := 0
	vt.Do(0, "ad:len", a, nil, nil, func() string { n = len(a.pending); return strconv.Itoa(n) })
	return n
}

func (a *recAdapter) enqueue(item any, prio int) bool {
	ok := false
	vt.Do(0, "ad:enq", a, nil, nil, func() string {
		raw, isBytes := item.([]byte)
		if !isBytes || a.closed || a.chance(a.failEnq) {
			d := -1
			if isBytes {
				d = envData(raw)
			}
			a.log("enq!", d, "")
			return "0"
		}
		// an adapter may keep the slice it was handed (the repository's own mocks do): the library
		// must not write into it afterwards. Half of the adapters keep it, half copy it.
		kept := raw
		if !a.retain {
			kept = append([]byte(nil), raw...)
		}
		it := adItem{raw: kept, prio: prio, seq: a.seq, data: envData(raw)}
		a.seq++
		a.pending = append(a.pending, it)
		if a.prio {
			sort.SliceStable(a.pending, func(i, j int) bool { return a.pending[i].prio < a.pending[j].prio })
		}
		for i := range a.notifyQ {
			a.notifyQ[i]++
		}
		a.log("enq", it.data, "")
		ok = true
		return "1"
	})
	return ok
}

func (a *recAdapter) Enqueue(item any) bool { return a.enqueue(item, 0) }

// raw insertion by a "foreign producer" (bad entries for C12): no event of the library involved
func (a *recAdapter) inject(raw []byte, prio int, data int) {
	it := adItem{raw: raw, prio: prio, seq: a.seq, data: data}
	a.seq++
	a.pending = append(a.pending, it)
	if a.prio {
		sort.SliceStable(a.pending, func(i, j int) bool { return a.pending[i].prio < a.pending[j].prio })
	}
	for i := range a.notifyQ {
		a.notifyQ[i]++
	}
	a.ops = append(a.ops, adOp{now(), "inject", data, "", -1})
	vt.Mark("ad:inject", a, strconv.Itoa(data))
}

func (a *recAdapter) DequeueWithAckId() (any, bool, string) {
	var v any
	ok := false
	id := ""
	vt.Do(0, "ad:deq", a, nil, nil, func() string {
		if len(a.pending) == 0 {
			a.log("deq0", -1, "")
			return "0"
		}
		if a.failStreak > 0 {
			a.failStreak--
			a.log("deq!", -1, "")
			return "0"
		}
		if a.chance(a.failDeq) {
			a.log("deq!", -1, "")
			return "0"
		}
		it := a.pending[0]
		a.pending = a.pending[1:]
		a.deliv++
		id = fmt.Sprintf("ack-%d-%d", a.idx, a.deliv)
		a.unacked[id] = it
		a.log("deq", it.data, id)
		v, ok = append([]byte(nil), it.raw...), true
		return "1:" + id
	})
	return v, ok, id
}

func (a *recAdapter) Dequeue() (any, bool) {
	v, ok, _ := a.DequeueWithAckId()
	return v, ok
}

func (a *recAdapter) Acknowledge(ackID string) bool {
	ok := false
	vt.Do(0, "ad:ack", a, nil, nil, func() string {
		it, known := a.unacked[ackID]
		if !known {
			a.log("ackbad", -1, ackID)
			return "0"
		}
		if a.chance(a.failAck) {
			a.log("ack!", it.data, ackID)
			return "0"
		}
		delete(a.unacked, ackID)
		a.acked = append(a.acked, it)
		a.log("ack", it.data, ackID)
		ok = true
		return "1"
	})
	return ok
}

func (a *recAdapter) Values() []any {
	var vs []any
	vt.Do(0, "ad:values", a, nil, nil, func() string {
		for _, it := range a.pending {
			vs = append(vs, it.raw)
		}
		return strconv.Itoa(len(vs))
	})
	return vs
}

func (a *recAdapter) Purge() {
	vt.Do(0, "ad:purge", a, nil, nil, func() string {
		n := len(a.pending)
		a.log("purge", n, "")
		a.pending = nil
		return strconv.Itoa(n)
	})
}

func (a *recAdapter) Close() error {
	vt.Do(0, "ad:close", a, nil, nil, func() string { a.closed = true; a.log("close", -1, ""); return "" })
	return nil
}

// Subscribe: notifications are delivered by a goroutine of their own, so that delay and
// reordering relative to the consumers' steps are schedule choices.
func (a *recAdapter) Subscribe(fn func(action string)) {
	i := len(a.subs)
	a.subs = append(a.subs, fn)
	a.notifyQ = append(a.notifyQ, 0)
	vt.Mark("ad:subscribe", a, strconv.Itoa(i))
	vt.GoClient("notifier", func() {
		for {
			vt.WaitUntil(func() bool { return a.notifyQ[i] > 0 })
			a.notifyQ[i]--
			vt.Mark("ad:notify", a, strconv.Itoa(i))
			fn("enqueued")
		}
	})
}

type adPrio struct{ *recAdapter }

func (a adPrio) Enqueue(item any, priority int) bool { return a.recAdapter.enqueue(item, priority) }
