package varmq

// C19: data races. Three things are computed from the linear event log of an episode:
//
//  1. projectHB: the reduction of the log to the alphabet of coq/HB.v (plain accesses,
//     acquire / release on sync objects, barriers). The block is replayed by the extracted,
//     proved vector-clock detector (race_check) in ocaml/v_slices.ml.
//  2. c19 (monitor): an independent vector-clock detector written in Go (per-thread counters,
//     last write + reads per location), used to search for and to report concrete racing
//     schedules; a disagreement between the two detectors is itself a broken correspondence.
//  3. writeLockSlices: per mutex, the lock operations and the plain accesses to the locations
//     it guards, for the lock-discipline model coq/Lockset.v.
//
// How a logged operation synchronises (Go memory model, "Synchronization"):
//   lock            acquire m.W, acquire m.R        unlock   release m.W
//   rlock           acquire m.W                     runlock  release m.R
//   cond wait       release of the condition's mutex (the re-lock is logged as a lock)
//   atomic load     acquire a      store  release a      add / cas / swap  acquire + release a
//   chan send / successful trysend / receive of a value     acquire + release ch
//   close           release ch     receive on a closed channel   acquire ch, acquire CTX
//   context cancel  release CTX    (the Done channel of a context is closed by the runtime)
//   go statement    release g<child> (at the "spawn" note)               first step of the goroutine  acquire g<self>
//   WaitGroup.Add / Done   acquire + release wg    Wait     acquire wg
//   sync.Pool Put   release p      Get that hits   acquire p
//   adapter methods (harness object with a lock of its own)   acquire + release ad
//   scenario: gate.open release gate, gate.wait acquire gate, any mark release H,
//             waituntil acquire H, waitidle barrier (everything so far happens before it)

import (
	"sort"
	"bufio"
	"fmt"
	"strconv"
	"strings"

	"github.com/goptics/varmq/internal/vt"
)

type hbEvent struct {
	kind byte // 'a' access, 's' sync, 'b' barrier
	t    int
	loc  int
	w    bool
	acq  int // 0 = none
	rel  int
	src  int // position in the log
}

type hbProj struct {
	evs      []hbEvent
	locName  []string
	syncName []string
}

func isAtomicKind(k string) (acq, rel, ok bool) {
	switch k {
	case "load":
		return true, false, true
	case "store":
		return false, true, true
	case "add", "cas", "swap", "and", "or":
		return true, true, true
	}
	return false, false, false
}

func projectHB(s *vt.Sched) *hbProj {
	p := &hbProj{locName: []string{""}, syncName: []string{""}}
	locs := map[string]int{}
	syncs := map[string]int{}
	loc := func(k string) int {
		if id, ok := locs[k]; ok {
			return id
		}
		id := len(p.locName)
		locs[k] = id
		p.locName = append(p.locName, k)
		return id
	}
	sy := func(k string) int {
		if id, ok := syncs[k]; ok {
			return id
		}
		id := len(p.syncName)
		syncs[k] = id
		p.syncName = append(p.syncName, k)
		return id
	}
	held := map[int][]int{} // thread -> write-locked mutexes, in order of acquisition
	syn := func(i, t, acq, rel int) { p.evs = append(p.evs, hbEvent{kind: 's', t: t, acq: acq, rel: rel, src: i}) }
	// structs that are overwritten as a whole (*p = T{...}): a plain write of every word, the
	// atomic ones included. Their atomic operations then also count as accesses of that word
	// (reads: atomics never race with each other), placed between the operation's acquire and release.
	whole := map[int]bool{}
	for _, ev := range s.Log {
		if ev.Kind == "plainW*" {
			whole[ev.Obj] = true
		}
	}
	wholeWords := map[int]map[string]bool{} // struct -> locations written by a whole-struct write
	if len(whole) > 0 {
		for _, ev := range s.Log {
			if ev.Kind == "plainR" || ev.Kind == "plainW" {
				if whole[ev.Obj] {
					if wholeWords[ev.Obj] == nil {
						wholeWords[ev.Obj] = map[string]bool{}
					}
					wholeWords[ev.Obj][siteTab[ev.Site].Field+"@o"+strconv.Itoa(ev.Obj)] = true
				}
			} else if _, _, ok := isAtomicKind(ev.Kind); ok && whole[ev.Owner] {
				if wholeWords[ev.Owner] == nil {
					wholeWords[ev.Owner] = map[string]bool{}
				}
				wholeWords[ev.Owner]["atomic@o"+strconv.Itoa(ev.Obj)] = true
			}
		}
	}
	for i, ev := range s.Log {
		t := ev.Tid
		if t < 0 {
			continue
		}
		k := ev.Kind
		o := strconv.Itoa(ev.Obj)
		switch {
		case k == "plainR" || k == "plainW":
			f := siteTab[ev.Site].Field
			p.evs = append(p.evs, hbEvent{kind: 'a', t: t, loc: loc(f + "@o" + o), w: k == "plainW", src: i})
		case k == "plainW*":
			var ws []string
			for l := range wholeWords[ev.Obj] {
				ws = append(ws, l)
			}
			sort.Strings(ws)
			for _, l := range ws {
				p.evs = append(p.evs, hbEvent{kind: 'a', t: t, loc: loc(l), w: true, src: i})
			}
		case k == "lock":
			syn(i, t, sy("mW"+o), 0)
			syn(i, t, sy("mR"+o), 0)
			held[t] = append(held[t], ev.Obj)
		case k == "unlock":
			syn(i, t, 0, sy("mW"+o))
			for j := len(held[t]) - 1; j >= 0; j-- {
				if held[t][j] == ev.Obj {
					held[t] = append(held[t][:j], held[t][j+1:]...)
					break
				}
			}
		case k == "rlock":
			syn(i, t, sy("mW"+o), 0)
		case k == "runlock":
			syn(i, t, 0, sy("mR"+o))
		case k == "cwait":
			if h := held[t]; len(h) > 0 {
				m := h[len(h)-1]
				held[t] = h[:len(h)-1]
				syn(i, t, 0, sy("mW"+strconv.Itoa(m)))
			}
		case k == "send" || (k == "trysend" && ev.Val == "1"):
			x := sy("ch" + o)
			syn(i, t, x, x)
		case k == "recv":
			x := sy("ch" + o)
			if strings.HasPrefix(ev.Val, "1") {
				syn(i, t, x, x)
			} else {
				syn(i, t, x, 0)
				syn(i, t, sy("CTX"), 0)
			}
		case k == "select":
			ch := ev.Obj
			if strings.HasPrefix(ev.Val, "1:") {
				ch = ev.Owner
			}
			x := sy("ch" + strconv.Itoa(ch))
			if strings.HasSuffix(ev.Val, ":1") {
				syn(i, t, x, x)
			} else {
				syn(i, t, x, 0)
				syn(i, t, sy("CTX"), 0)
			}
		case k == "close":
			syn(i, t, 0, sy("ch"+o))
		case k == "cancel":
			syn(i, t, 0, sy("CTX"))
		case k == "spawn":
			syn(i, t, 0, sy("g"+ev.Val))
		case k == "go":
		case k == "start":
			syn(i, t, sy("g"+strconv.Itoa(t)), 0)
		case k == "wgadd":
			x := sy("wg" + o)
			syn(i, t, x, x)
		case k == "wgwait":
			syn(i, t, sy("wg"+o), 0)
		case k == "poolput":
			syn(i, t, 0, sy("pool"+o))
		case k == "poolget":
			if ev.Val == "hit" {
				syn(i, t, sy("pool"+o), 0)
			}
		case strings.HasPrefix(k, "ad:") && ev.Obj != 0 && k != "ad:inject" && k != "ad:subscribe" && k != "ad:notify":
			x := sy("ad" + o)
			syn(i, t, x, x)
		case k == "gate.open":
			syn(i, t, 0, sy("gate"+o))
		case k == "gate.wait":
			syn(i, t, sy("gate"+o), 0)
		case k == "waituntil":
			syn(i, t, sy("H"), 0)
		case k == "waitidle":
			p.evs = append(p.evs, hbEvent{kind: 'b', t: t, src: i})
		default:
			if a, r, ok := isAtomicKind(k); ok {
				x := sy("at" + o)
				ai, ri := 0, 0
				if a {
					ai = x
				}
				if r {
					ri = x
				}
				if whole[ev.Owner] {
					syn(i, t, ai, 0)
					p.evs = append(p.evs, hbEvent{kind: 'a', t: t, loc: loc("atomic@o" + o), w: false, src: i})
					syn(i, t, 0, ri)
				} else {
					syn(i, t, ai, ri)
				}
			} else if ev.Site == 0 && k != "exit" && k != "panic" && k != "yield" && k != "forcetick" && k != "tick" {
				// a mark of the scenario: what the client published so far
				syn(i, t, 0, sy("H"))
			}
		}
	}
	return p
}

func writeHBSlices(w *bufio.Writer, s *vt.Sched, tag string) int {
	p := projectHB(s)
	fmt.Fprintf(w, "HB %s\n", tag)
	for _, e := range p.evs {
		switch e.kind {
		case 'a':
			wv := 0
			if e.w {
				wv = 1
			}
			fmt.Fprintf(w, "h a %d %d %d\n", e.t, e.loc, wv)
		case 's':
			fmt.Fprintf(w, "h s %d %d %d\n", e.t, e.acq, e.rel)
		case 'b':
			fmt.Fprintf(w, "h b %d\n", e.t)
		}
	}
	// what the independent detector found, for the cross-check
	if r := hbDetect(p); r != nil {
		fmt.Fprintf(w, "hrace %d %d\n", r.i, r.j)
	} else {
		fmt.Fprintf(w, "hrace none\n")
	}
	fmt.Fprintf(w, "ENDHB\n")
	return 1
}

type hbRace struct{ i, j int } // positions in p.evs

// hbDetect: vector clocks with per-thread event counters; per location the last write and the
// reads since. Returns the first racing pair in trace order of its second access.
func hbDetect(p *hbProj) *hbRace {
	type vc map[int]int
	join := func(a vc, b vc) {
		for k, v := range b {
			if v > a[k] {
				a[k] = v
			}
		}
	}
	tc := map[int]vc{}
	sc := map[int]vc{}
	clk := func(t int) vc {
		if c, ok := tc[t]; ok {
			return c
		}
		c := vc{}
		tc[t] = c
		return c
	}
	type acc struct {
		t, c, pos int
		w       bool
	}
	hist := map[int][]acc{}
	for pos, e := range p.evs {
		c := clk(e.t)
		c[e.t]++
		switch e.kind {
		case 's':
			if e.acq != 0 {
				if x, ok := sc[e.acq]; ok {
					join(c, x)
				}
			}
			if e.rel != 0 {
				x, ok := sc[e.rel]
				if !ok {
					x = vc{}
					sc[e.rel] = x
				}
				join(x, c)
			}
		case 'b':
			for _, o := range tc {
				join(c, o)
			}
		case 'a':
			for _, a := range hist[e.loc] {
				if a.t != e.t && (a.w || e.w) && a.c > c[a.t] {
					return &hbRace{a.pos, pos}
				}
			}
			hist[e.loc] = append(hist[e.loc], acc{e.t, c[e.t], pos, e.w})
		}
	}
	return nil
}

func (m *mon) c19() {
	if !m.props["C19"] {
		return
	}
	p := projectHB(m.s)
	r := hbDetect(p)
	if r == nil {
		return
	}
	a, b := p.evs[r.i], p.evs[r.j]
	atomicWord := strings.HasPrefix(p.locName[b.loc], "atomic@")
	rw := func(w bool) string {
		if w {
			return "write"
		}
		if atomicWord {
			return "atomic operation" // on a word that is also overwritten by a plain struct assignment
		}
		return "read"
	}
	ea, eb := m.s.Log[a.src], m.s.Log[b.src]
	m.add("C19", "data-race", "%s: %s by t%d at #%d (%s) and %s by t%d at #%d (%s) are not ordered by happens-before",
		p.locName[b.loc], rw(a.w), a.t, a.src, siteName(ea.Site), rw(b.w), b.t, b.src, siteName(eb.Site))
}

// ---------------------------------------------------------------- lock discipline (coq/Lockset.v)

// the mutex that guards a field: "" / absent = none (written before publication only, or ownership
// is handed over, not locked: judged by happens-before alone);
// "held:T" = the mutex the thread took in a method of T (the container the element belongs to);
// otherwise the name of the mutex field of the owner
var guardOf = map[string]string{
	"Node.next": "held:List", "Node.prev": "held:List", "List.len": "mx",
	"Chunk.Data": "held:Queue", "Chunk.Next": "held:Queue", "Chunk.NextReadIndex": "held:Queue", "Chunk.NextWriteIndex": "held:Queue",
	"heapQueue.items": "held:PriorityQueue",
	"Manager.items": "mx", "Manager.roundRobinIndex": "mx",
	"Response.res": "mx",
	"worker.eventLoopSignal": "mx", "worker.errorChan": "mx", "worker.tickers": "mx", "worker.tickerStops": "mx",
	"worker.ctx": "mx", "worker.cancel": "mx",
	"Queue.readChunk": "mx", "Queue.writeChunk": "mx",
	"PriorityQueue.insertionCount": "mx", "PriorityQueue.internal": "mx",
	"job.ackId": "", "job.queue": "",
}

func mutexField(expr string) string {
	// "l.mx.Lock" -> "mx"
	parts := strings.Split(expr, ".")
	if len(parts) >= 2 {
		return parts[len(parts)-2]
	}
	return expr
}

func writeLockSlices(w *bufio.Writer, s *vt.Sched, tag string) int {
	lines := map[int][]string{}
	var order []int
	emit := func(m int, l string) {
		if _, ok := lines[m]; !ok {
			order = append(order, m)
		}
		lines[m] = append(lines[m], l)
	}
	ownerMutex := map[string]int{} // "o<owner>.<field>" -> mutex object
	type heldM struct {
		m  int
		ty string
	}
	heldBy := map[int][]heldM{} // thread -> held mutexes with the receiver type of the method that took them
	heldW := map[int][]int{}       // thread -> write-held mutexes (for cond wait)
	first := map[string]int{}      // location -> its only accessor so far (-2 = shared)
	nodeGuard := map[string]int{}  // node location -> mutex it has been accessed under
	for _, ev := range s.Log {
		t := ev.Tid
		if t < 0 {
			continue
		}
		switch ev.Kind {
		case "lock", "rlock":
			ownerMutex["o"+strconv.Itoa(ev.Owner)+"."+mutexField(siteExpr(ev.Site))] = ev.Obj
			if ev.Kind == "lock" {
				emit(ev.Obj, fmt.Sprintf("lk %d", t))
				heldW[t] = append(heldW[t], ev.Obj)
			} else {
				emit(ev.Obj, fmt.Sprintf("rl %d", t))
			}
			ty := siteFunc(ev.Site)
			if i := strings.Index(ty, "."); i >= 0 {
				ty = ty[:i]
			}
			heldBy[t] = append(heldBy[t], heldM{ev.Obj, ty})
		case "unlock", "runlock":
			if ev.Kind == "unlock" {
				emit(ev.Obj, fmt.Sprintf("ul %d", t))
				for j := len(heldW[t]) - 1; j >= 0; j-- {
					if heldW[t][j] == ev.Obj {
						heldW[t] = append(heldW[t][:j], heldW[t][j+1:]...)
						break
					}
				}
			} else {
				emit(ev.Obj, fmt.Sprintf("ru %d", t))
			}
			for j := len(heldBy[t]) - 1; j >= 0; j-- {
				if heldBy[t][j].m == ev.Obj {
					heldBy[t] = append(heldBy[t][:j], heldBy[t][j+1:]...)
					break
				}
			}
		case "cwait":
			if h := heldW[t]; len(h) > 0 {
				m := h[len(h)-1]
				heldW[t] = h[:len(h)-1]
				emit(m, fmt.Sprintf("ul %d", t))
			}
		case "plainR", "plainW":
			f := siteTab[ev.Site].Field
			g := guardOf[f]
			if g == "" {
				continue // not a lock-guarded field (set once before publication, or handed over): happens-before only
			}
			lk := f + "@o" + strconv.Itoa(ev.Obj)
			// exclusive phase: only its creator has touched the location so far
			if ft, ok := first[lk]; !ok {
				first[lk] = t
				continue
			} else if ft == t {
				continue
			} else if ft != -2 {
				first[lk] = -2
			}
			m := 0
			if strings.HasPrefix(g, "held:") {
				for j := len(heldBy[t]) - 1; j >= 0; j-- {
					if heldBy[t][j].ty == g[5:] {
						m = heldBy[t][j].m
						break
					}
				}
				if m != 0 {
					if prev, ok := nodeGuard[lk]; ok && prev != m {
						emit(m, fmt.Sprintf("? %s accessed under two different container mutexes (%s)", lk, siteName(ev.Site)))
						continue
					}
					nodeGuard[lk] = m
				}
			} else {
				m = ownerMutex["o"+strconv.Itoa(ev.Obj)+"."+g]
			}
			if m == 0 {
				emit(0, fmt.Sprintf("? %s of %s by t%d with its guard never locked so far (%s)", ev.Kind, lk, t, siteName(ev.Site)))
				continue
			}
			if ev.Kind == "plainW" {
				emit(m, fmt.Sprintf("wr %d %s", t, siteName(ev.Site)))
			} else {
				emit(m, fmt.Sprintf("rd %d %s", t, siteName(ev.Site)))
			}
		}
	}
	k := 0
	for _, m := range order {
		acc := false
		for _, l := range lines[m] {
			if l[0] == 'w' || (l[0] == 'r' && l[1] == 'd') || l[0] == '?' {
				acc = true
				break
			}
		}
		if !acc {
			continue // a mutex guarding no watched location in this episode
		}
		fmt.Fprintf(w, "LOCK %s o%d\n", tag, m)
		for _, l := range lines[m] {
			w.WriteString("lk " + l + "\n")
		}
		fmt.Fprintf(w, "ENDLOCK\n")
		k++
	}
	return k
}
