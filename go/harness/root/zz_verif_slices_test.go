package varmq

// Projection of the linear event log onto the slice models of the Coq development
// (coq/Slice*.v). One block per object; the extracted model replays each block
// (ocaml/v_slices.ml). Events that belong to the object but that the projection does not
// know how to name are written as "? ..." lines, which the validator reports as a broken
// correspondence — a new operation on a job's status word cannot go unnoticed.

import (
	"bufio"
	"fmt"
	"sort"
	"strconv"
	"strings"

	"github.com/goptics/varmq/internal/vt"
)

// normStatus: a compare-and-swap on the worker's status word is, for the models, a store of the
// new value when it succeeds and a load of the current one when it fails
func normStatus(ev vt.Event) vt.Event {
	if ev.Kind != "cas" {
		return ev
	}
	si := siteTab[ev.Site]
	if si.Field != "status" || !strings.HasPrefix(si.Func, "worker.") {
		return ev
	}
	if strings.HasPrefix(ev.Val, "1:") {
		ev.Kind, ev.Val = "store", ev.Val[2:]
	} else if strings.HasPrefix(ev.Val, "0:") {
		ev.Kind, ev.Val = "load", ev.Val[2:]
	}
	return ev
}

type frame struct {
	fn   string
	recv int
}

func isJobCloseFrame(fn string) bool {
	return strings.HasSuffix(fn, "roupJob.Close") || fn == "job.Close" || fn == "errorJob.Close" || fn == "resultJob.Close"
}

// writeJobSlices emits, per job object, the raw events of coq/SliceJob.v
func writeJobSlices(w *bufio.Writer, s *vt.Sched, tag string) int {
	lines := map[int][]string{}
	order := []int{}
	seenNew := map[int]bool{}
	emit := func(job int, tid int, line string) {
		if job == 0 {
			return
		}
		if _, ok := lines[job]; !ok {
			order = append(order, job)
		}
		if !seenNew[job] {
			seenNew[job] = true
			if !strings.HasPrefix(line, "new ") {
				lines[job] = append(lines[job], fmt.Sprintf("new %d 0", tid))
			}
		}
		lines[job] = append(lines[job], line)
	}
	stacks := map[int][]frame{}
	for _, ev := range s.Log {
		st := stacks[ev.Tid]
		switch ev.Kind {
		case "enter":
			stacks[ev.Tid] = append(st, frame{siteFunc(ev.Site), ev.Obj})
			continue
		case "leave":
			if len(st) > 0 {
				stacks[ev.Tid] = st[:len(st)-1]
			}
			continue
		}
		si := siteTab[ev.Site]
		fn := si.Func
		switch ev.Kind {
		case "load", "store", "cas":
			if si.Field != "status" || !(strings.HasPrefix(fn, "job.") || fn == "parseToJob") {
				continue
			}
			j := ev.Owner
			switch {
			case ev.Kind == "load" && (fn == "job.Status" || fn == "job.IsClosed"):
				emit(j, ev.Tid, fmt.Sprintf("ldplain %d %s", ev.Tid, ev.Val))
			case ev.Kind == "load" && fn == "job.isCloseable":
				emit(j, ev.Tid, fmt.Sprintf("ldcloseable %d %s", ev.Tid, ev.Val))
			case ev.Kind == "load" && fn == "job.startProcessing":
				emit(j, ev.Tid, fmt.Sprintf("ldclaim %d %s", ev.Tid, ev.Val))
			case ev.Kind == "cas" && fn == "job.startProcessing":
				emit(j, ev.Tid, fmt.Sprintf("casclaim %d %s", ev.Tid, ev.Val[:1]))
			case ev.Kind == "load" && fn == "job.closeStatus":
				emit(j, ev.Tid, fmt.Sprintf("ldclose %d %s", ev.Tid, ev.Val))
			case ev.Kind == "cas" && fn == "job.closeStatus":
				emit(j, ev.Tid, fmt.Sprintf("casclose %d %s", ev.Tid, ev.Val[:1]))
			case ev.Kind == "store" && fn == "job.changeStatus" && ev.Val == "1":
				emit(j, ev.Tid, fmt.Sprintf("stqueued %d", ev.Tid))
			case ev.Kind == "store" && fn == "job.changeStatus" && ev.Val == "3":
				emit(j, ev.Tid, fmt.Sprintf("stfinished %d", ev.Tid))
			case ev.Kind == "store" && fn == "parseToJob":
				emit(j, ev.Tid, fmt.Sprintf("stparse %d %s", ev.Tid, ev.Val))
			default:
				emit(j, ev.Tid, fmt.Sprintf("? %d %s %s %s", ev.Tid, ev.Kind, si.Name, ev.Val))
			}
		case "wgadd":
			switch {
			case si.Field == "wg" && (fn == "newJob" || fn == "newErrorJob" || fn == "newResultJob"):
				emit(ev.Owner, ev.Tid, fmt.Sprintf("new %d 1", ev.Tid))
			case si.Field == "wg" && fn == "job.Close":
				emit(ev.Owner, ev.Tid, fmt.Sprintf("signal %d", ev.Tid))
			case fn == "WgCounter.Done":
				// the completion signal of a batch item: attribute it to the job whose Close is running
				for k := len(st) - 1; k >= 0; k-- {
					if isJobCloseFrame(st[k].fn) {
						emit(st[k].recv, ev.Tid, fmt.Sprintf("signal %d", ev.Tid))
						break
					}
				}
			}
		case "wgwait":
			if fn == "job.Wait" {
				emit(ev.Owner, ev.Tid, fmt.Sprintf("wait %d", ev.Tid))
			}
		case "ad:ack":
			for k := len(st) - 1; k >= 0; k-- {
				if st[k].fn == "job.ack" {
					emit(st[k].recv, ev.Tid, fmt.Sprintf("ack %d %s", ev.Tid, ev.Val))
					break
				}
			}
		case "q:enq":
			emit(ev.Obj, ev.Tid, fmt.Sprintf("enq %d %s", ev.Tid, strings.Fields(ev.Val)[0]))
		case "q:deq":
			emit(ev.Obj, ev.Tid, fmt.Sprintf("deq %d", ev.Tid))
		case "q:purged":
			emit(ev.Obj, ev.Tid, fmt.Sprintf("purged %d", ev.Tid))
		case "wf+":
			emit(ev.Obj, ev.Tid, fmt.Sprintf("wfenter %d", ev.Tid))
		case "wf-":
			emit(ev.Obj, ev.Tid, fmt.Sprintf("wfexit %d", ev.Tid))
		case "hret:Close":
			code := map[string]string{"nil": "0", "ErrJobProcessing": "2", "ErrJobAlreadyClosed": "4"}[ev.Val]
			if code == "" {
				code = "9"
			}
			emit(ev.Obj, ev.Tid, fmt.Sprintf("retclose %d %s", ev.Tid, code))
		}
	}
	n := 0
	for _, j := range order {
		// jobs of adapters' queues never pass the recording wrapper: they have no enq mark; blocks without
		// any status event (pure handle marks) are skipped
		fmt.Fprintf(w, "JOB %s o%d\n", tag, j)
		for _, l := range lines[j] {
			w.WriteString("j " + l + "\n")
		}
		fmt.Fprintf(w, "ENDJOB\n")
		n++
	}
	return n
}

// writeBatchSlices emits, per batch (keyed by its WgCounter), the raw events of coq/SliceBatch.v
func writeBatchSlices(w *bufio.Writer, s *vt.Sched, tag string) int {
	wgcOf := map[string]int{}  // batch idx -> wgc object
	respOf := map[int]int{}    // Response object -> wgc object
	chanOf := map[int]int{}    // channel object -> wgc object
	for _, ev := range s.Log {
		switch ev.Kind {
		case "batch:wgc":
			wgcOf[ev.Val] = ev.Obj
		}
	}
	capOf := map[int]string{} // wgc object -> capacity of the batch's stream (as made by the library)
	for _, ev := range s.Log {
		switch ev.Kind {
		case "batch:resp":
			respOf[ev.Obj] = wgcOf[ev.Val]
		case "batch:chan":
			chanOf[ev.Obj] = wgcOf[ev.Val]
		case "batch:cap":
			capOf[ev.Obj] = ev.Val
		}
	}
	lines := map[int][]string{}
	order := []int{}
	size := map[int]string{}
	emit := func(b int, line string) {
		if b == 0 {
			return
		}
		if _, ok := lines[b]; !ok {
			order = append(order, b)
		}
		lines[b] = append(lines[b], line)
	}
	for _, ev := range s.Log {
		si := siteTab[ev.Site]
		fn := si.Func
		switch {
		case ev.Kind == "add" && fn == "NewWgCounter":
			size[ev.Owner] = ev.Val
			c, ok := capOf[ev.Owner]
			if !ok {
				c = ev.Val // a batch of a plain worker has no stream
			}
			emit(ev.Owner, "bnew "+ev.Val+" "+c)
		case ev.Kind == "wgadd" && fn == "NewWgCounter":
			// part of bnew
		case ev.Kind == "load" && fn == "WgCounter.Done":
			emit(ev.Owner, fmt.Sprintf("bdoneload %d %s", ev.Tid, ev.Val))
		case ev.Kind == "cas" && fn == "WgCounter.Done":
			emit(ev.Owner, fmt.Sprintf("bdonecas %d %s", ev.Tid, ev.Val[:1]))
		case ev.Kind == "wgadd" && fn == "WgCounter.Done":
			emit(ev.Owner, fmt.Sprintf("bwgdone %d", ev.Tid))
		case ev.Kind == "load" && fn == "WgCounter.Count":
			emit(ev.Owner, fmt.Sprintf("bload %d %s", ev.Tid, ev.Val))
		case ev.Kind == "wgwait" && fn == "WgCounter.Wait":
			emit(ev.Owner, fmt.Sprintf("bwait %d", ev.Tid))
		case (ev.Kind == "load" || ev.Kind == "store" || ev.Kind == "add" || ev.Kind == "cas" || ev.Kind == "wgadd" || ev.Kind == "wgwait") && strings.HasPrefix(fn, "WgCounter."):
			emit(ev.Owner, fmt.Sprintf("? %d %s %s", ev.Tid, ev.Kind, si.Name))
		case ev.Kind == "send" && fn == "Response.Send":
			emit(respOf[ev.Owner], fmt.Sprintf("bsend %d", ev.Tid))
		case ev.Kind == "close" && fn == "Response.Close":
			b := respOf[ev.Owner]
			if b != 0 && size[b] == "0" {
				emit(b, "bcloseempty")
			} else {
				emit(b, fmt.Sprintf("bclose %d", ev.Tid))
			}
		case ev.Kind == "recv" && ev.Site == 0:
			emit(chanOf[ev.Obj], fmt.Sprintf("brecv %d %s", ev.Tid, ev.Val[:1]))
		}
	}
	n := 0
	for _, b := range order {
		if _, ok := size[b]; !ok {
			continue
		}
		fmt.Fprintf(w, "BATCH %s o%d\n", tag, b)
		for _, l := range lines[b] {
			w.WriteString("b " + l + "\n")
		}
		fmt.Fprintf(w, "ENDBATCH\n")
		n++
	}
	return n
}

// writeLifeSlices emits the lifecycle call sequence of a lifeseq episode for coq/Lifecycle.v
func writeLifeSlices(w *bufio.Writer, s *vt.Sched, tag string) int {
	n := 0
	open := false
	for _, ev := range s.Log {
		switch ev.Kind {
		case "life:cfg":
			fmt.Fprintf(w, "LIFE %s %s\n", tag, ev.Val)
			open = true
			n++
		case "life:op":
			if open {
				fmt.Fprintf(w, "l %s\n", ev.Val)
			}
		}
	}
	if open {
		fmt.Fprintf(w, "ENDLIFE\n")
	}
	return n
}

// writeDispSlices emits, per job of an in-memory queue, the events of coq/SliceDisp.v: the
// job's own progress and, through counters, everything else that touches the worker's
// in-flight accounting. Only episodes with a single worker are projected.
func writeDispSlices(w *bufio.Writer, s *vt.Sched, tag string) int {
	// which jobs, which queue each is in
	jobQ := map[int]string{}
	var jobs []int
	workers := map[int]bool{}
	for _, ev := range s.Log {
		if ev.Kind == "q:enq" {
			f := strings.Fields(ev.Val)
			if _, seen := jobQ[ev.Obj]; !seen && len(f) == 2 {
				jobQ[ev.Obj] = f[1]
				jobs = append(jobs, ev.Obj)
			}
		}
		if si := siteTab[ev.Site]; si.Field == "curProcessing" && ev.Owner != 0 {
			workers[ev.Owner] = true
		}
	}
	if len(workers) != 1 {
		return 0
	}
	n := 0
	for _, j := range jobs {
		lines, ok := projectDisp(s, j, jobQ[j])
		if !ok {
			continue
		}
		fmt.Fprintf(w, "DISP %s o%d\n", tag, j)
		for _, l := range lines {
			w.WriteString("d " + l + "\n")
		}
		fmt.Fprintf(w, "ENDDISP\n")
		n++
	}
	return n
}

// sizeTags: for the FIFO queue, the length word changes (size.Add / size.Store) before the
// thread marks which job it moved; a lock-free Len() in between already sees the new length.
// Each size event is therefore tagged with the mark the same thread makes next.
type sizeTag struct {
	kind string // enq, deq, purge
	job  int
	val  string
}

func sizeTags(s *vt.Sched) (map[int]sizeTag, map[int]bool) {
	tags := map[int]sizeTag{}
	covered := map[int]bool{} // indices of marks whose effect was already emitted at the size event
	pending := map[int]int{}
	for i, ev := range s.Log {
		si := siteTab[ev.Site]
		if si.Field == "size" && (ev.Kind == "add" || ev.Kind == "store") && strings.HasPrefix(si.Func, "Queue.") {
			pending[ev.Tid] = i + 1
			continue
		}
		switch ev.Kind {
		case "q:enq", "q:deq", "q:purge":
			if p := pending[ev.Tid]; p > 0 {
				tags[p-1] = sizeTag{ev.Kind, ev.Obj, ev.Val}
				covered[i] = true
				pending[ev.Tid] = 0
			}
		}
	}
	return tags, covered
}

// k2end: thread t takes no further step after position idx (the episode was cut there)
func k2end(s *vt.Sched, idx, t int) bool {
	for k := idx + 1; k < len(s.Log); k++ {
		if s.Log[k].Tid == t && s.Log[k].Kind != "leave" && s.Log[k].Kind != "enter" && !strings.HasPrefix(s.Log[k].Kind, "plain") {
			return false
		}
	}
	return true
}

func projectDisp(s *vt.Sched, j int, qid string) ([]string, bool) {
	var out []string
	emit := func(l string) { out = append(out, l) }
	tags, coveredMarks := sizeTags(s)
	const (
		tNone = iota
		tReserved
		tFirstStopped // first status load after reserving saw Stopped (IsPaused false); IsStopped decides
		tOkFirst      // first load saw a non-halted status: the re-check passed; the IsStopped load follows
		tOk
		tDoomed
		tDeqJ
		tDeqJFailed
		tDeqOther
	)
	tstate := map[int]int{}
	inPNJ := map[int]int{} // depth of processNextJob frames per thread
	stacks := map[int][]string{}
	cur := 0
	runner := -1
	// structure of the barrier code, checked here because the theorems assume it:
	// WaitUntilFinished evaluates its condition holding the worker mutex, reads the queue lengths
	// before curProcessing; Broadcast is issued under the worker mutex
	mxHolder := -1
	mxObj := 0
	freed := map[int]bool{}
	wufStatus := map[int]string{} // thread -> status loaded by the condition being evaluated
	wufSeenLen := map[int]bool{}
	recheckDone := func(t int) bool {
		switch tstate[t] {
		case tReserved, tFirstStopped, tOkFirst:
			return false
		}
		return true
	}
	inBar := map[int]bool{}
	tracked := trackedBarrierCalls(s)
	for idx, ev0 := range s.Log {
		ev := normStatus(ev0)
		// the barrier calls themselves (coq/SliceBar.v): call, the caller's own loads, nil-return
		if strings.HasPrefix(ev.Kind, "call:") && isBarrierCall(ev.Kind[5:]) && tracked[idx] {
			inBar[ev.Tid] = true
			emit(fmt.Sprintf("barcall %d", ev.Tid))
			continue
		}
		if strings.HasPrefix(ev.Kind, "ret:") && isBarrierCall(ev.Kind[4:]) && inBar[ev.Tid] {
			inBar[ev.Tid] = false
			if strings.HasPrefix(ev.Val, "nil/") {
				emit(fmt.Sprintf("barret %d", ev.Tid))
			}
			continue
		}
		if tg, ok := tags[idx]; ok {
			// replay the mark's effect here, at the length word's change
			ev = vt.Event{Tid: ev0.Tid, Site: 0, Kind: tg.kind, Obj: tg.job, Val: tg.val}
		} else if coveredMarks[idx] {
			continue
		}
		si := siteTab[ev.Site]
		fn := si.Func
		switch ev.Kind {
		case "enter":
			stacks[ev.Tid] = append(stacks[ev.Tid], fn)
			if fn == "worker.processNextJob" {
				inPNJ[ev.Tid]++
			}
			continue
		case "leave":
			st := stacks[ev.Tid]
			if len(st) > 0 {
				if st[len(st)-1] == "worker.processNextJob" {
					inPNJ[ev.Tid]--
				}
				stacks[ev.Tid] = st[:len(st)-1]
			}
			continue
		}
		t := ev.Tid
		if mxObj == 0 && si.Field == "mx" && strings.HasPrefix(fn, "worker.") && ev.Obj != 0 {
			mxObj = ev.Obj
		}
		if mxObj != 0 && ev.Obj == mxObj {
			switch ev.Kind {
			case "lock":
				mxHolder = t
			case "unlock":
				mxHolder = -1
			}
		}
		if ev.Kind == "cwait" && strings.HasPrefix(fn, "worker.") {
			mxHolder = -1
		}
		if ev.Kind == "recv" && fn == "Node.Serve" {
			freed[t] = false
		}
		if (ev.Kind == "lock" && fn == "List.PushNode") || (ev.Kind == "send" && fn == "Node.Stop") {
			freed[t] = true
		}
		if ev.Kind == "broadcast" && strings.HasPrefix(fn, "worker.") && mxHolder != t {
			emit("? Broadcast issued without holding the worker mutex (a waiter between its check and its park can miss it)")
		}
		if (ev.Kind == "q:len" || ev.Kind == "ad:len" || (ev.Kind == "rlock" && fn == "Manager.Len")) && wufStatus[t] != "" {
			wufSeenLen[t] = true
		}
		if (ev.Kind == "q:deq" || ev.Kind == "ad:deq") && inPNJ[t] > 0 && !recheckDone(t) {
			emit("? dispatcher dequeued without completing the status re-check after reserving")
		}
		switch {
		case si.Field == "curProcessing" && ev.Kind == "add":
			v, _ := strconv.Atoi(ev.Val)
			up := v == cur+1
			cur = v
			if up {
				// the limit check that follows the reservation: the same thread's next load of
				// the concurrency word inside processNextJob
				c := -1
				for k := idx + 1; k < len(s.Log); k++ {
					e2 := s.Log[k]
					if e2.Tid != t {
						continue
					}
					s2 := siteTab[e2.Site]
					if s2.Field == "concurrency" && e2.Kind == "load" && s2.Func == "worker.processNextJob" {
						c, _ = strconv.Atoi(e2.Val)
						break
					}
					if s2.Field == "curProcessing" || (s2.Field == "status" && e2.Kind == "load") {
						break // no limit check before the thread's next accounting step
					}
				}
				switch {
				case fn != "worker.processNextJob":
					emit("? curProcessing incremented outside processNextJob at " + si.Name)
				case c < 0 && k2end(s, idx, t):
					emit(fmt.Sprintf("reserve %d %d", v, v)) // the episode ended right after the Add
					tstate[t] = tReserved
				case c < 0:
					emit("? reservation not followed by a check against the concurrency limit")
				case v <= c:
					emit(fmt.Sprintf("reserve %d %d", v, c))
					tstate[t] = tReserved
				default:
					emit(fmt.Sprintf("reserve %d %d", v, c))
					tstate[t] = tDoomed
				}
				continue
			}
			if fn == "worker.processNextJob" {
				switch tstate[t] {
				case tDoomed:
					emit("unresdoomed")
				case tOk, tOkFirst:
					emit("unresok")
				case tDeqJFailed:
					emit("unresskipj")
				case tDeqOther:
					emit("unresskipother")
				default:
					emit(fmt.Sprintf("? unreserve in thread state %d", tstate[t]))
				}
				tstate[t] = tNone
			} else {
				if !freed[t] {
					emit("? completion released its curProcessing slot before returning its pool node (a barrier can then see 0 in flight while the node is in nobody's hands)")
				}
				if t == runner {
					emit("releasej")
					runner = -1
				} else {
					emit("releaseother")
				}
			}
		case si.Field == "curProcessing" && ev.Kind == "load":
			if fn == "worker.WaitUntilFinished" {
				if wufStatus[t] == "1" && !wufSeenLen[t] {
					emit("? WaitUntilFinished read curProcessing before the queue lengths (a job being dispatched is then in neither)")
				}
				wufStatus[t] = ""
			}
			if inBar[t] {
				emit(fmt.Sprintf("barload %d %s", t, ev.Val))
			} else {
				emit("curload " + ev.Val)
			}
		case si.Field == "curProcessing":
			emit("? " + ev.Kind + " on curProcessing at " + si.Name)
		case si.Field == "concurrency" && ev.Kind != "load" && ev.Kind != "store" && ev.Kind != "swap" && strings.HasPrefix(fn, "worker."):
			emit("? " + ev.Kind + " on the concurrency limit at " + si.Name)
		case si.Field == "status" && strings.HasPrefix(fn, "worker.") && ev.Kind == "store":
			emit("ststore " + ev.Val)
		case si.Field == "status" && strings.HasPrefix(fn, "worker.") && ev.Kind == "load":
			if inPNJ[t] > 0 && fn == "worker.IsPaused" && tstate[t] == tReserved {
				switch ev.Val {
				case "2":
					emit("recheck 2")
					tstate[t] = tDoomed
				case "3":
					emit("stload 3")
					tstate[t] = tFirstStopped
				default:
					emit("recheck " + ev.Val)
					tstate[t] = tOkFirst
				}
			} else if inPNJ[t] > 0 && fn == "worker.IsStopped" && tstate[t] == tFirstStopped {
				if ev.Val == "2" {
					return nil, false // stopped -> restarted -> paused between two adjacent loads: outside the model
				}
				emit("recheck " + ev.Val)
				if ev.Val == "3" {
					tstate[t] = tDoomed
				} else {
					tstate[t] = tOk
				}
			} else if inPNJ[t] > 0 && fn == "worker.IsStopped" && tstate[t] == tOkFirst {
				emit("stload " + ev.Val)
				tstate[t] = tOk // if it saw Stopped the code returns and the deferred decrement follows (unresok)
			} else {
				if fn == "worker.WaitUntilFinished" {
					wufStatus[t] = ev.Val
					wufSeenLen[t] = false
					if mxHolder != t {
						emit("? WaitUntilFinished evaluated its condition without holding the worker mutex")
					}
				}
				if inBar[t] {
					emit(fmt.Sprintf("barst %d %s", t, ev.Val))
				} else {
					emit("stload " + ev.Val)
				}
			}
		case si.Field == "status" && strings.HasPrefix(fn, "worker."):
			emit("? " + ev.Kind + " on worker status at " + si.Name)
		case ev.Kind == "q:enq":
			f := strings.Fields(ev.Val)
			if ev.Obj == j {
				if f[0] == "1" {
					emit("acceptj")
				} else {
					emit("rejectj")
				}
			} else if len(f) == 2 && f[1] == qid && f[0] == "1" {
				emit("enqother")
			}
		case ev.Kind == "q:deq":
			if ev.Obj == j {
				emit("deqj")
				tstate[t] = tDeqJ
			} else if ev.Val == qid {
				emit("deqothersameq")
				tstate[t] = tDeqOther
			} else {
				emit("deqotherq")
				tstate[t] = tDeqOther
			}
		case ev.Kind == "ad:deq" && strings.HasPrefix(ev.Val, "1"):
			emit("deqotherq")
			tstate[t] = tDeqOther
		case ev.Kind == "q:purge":
			f := strings.Fields(ev.Val)
			if f[0] == qid {
				emit("purgeq " + f[1])
			}
		case ev.Kind == "q:len":
			f := strings.Fields(ev.Val)
			if f[0] == qid {
				emit("lenq " + f[1])
			}
		case ev.Kind == "load" && fn == "job.startProcessing" && ev.Owner == j && ev.Val == "4":
			emit("claimj 0")
			tstate[t] = tDeqJFailed
		case ev.Kind == "cas" && fn == "job.startProcessing" && ev.Owner == j && strings.HasPrefix(ev.Val, "1:"):
			emit("claimj 1")
			tstate[t] = tNone
		case ev.Kind == "wf+" && ev.Obj == j:
			emit("wfenterj")
			runner = t
		case ev.Kind == "wf-" && ev.Obj == j:
			emit("wfexitj")
		case ev.Kind == "wf+":
			emit("wfenterother")
		case ev.Kind == "wf-":
			emit("wfexitother")
		}
	}
	return out, true
}

func isBarrierCall(name string) bool {
	return name == "PauseAndWait" || name == "Stop" || name == "WaitAndStop"
}

// trackedBarrierCalls: index of the call mark -> the call's obligations are replayed on
// coq/SliceBar.v. A barrier call that overlaps a Resume / Restart / Bind of another client has no
// guarantee to give beyond the order in which the two took effect; from the first such call
// on, the calls of the episode are not tracked.
func trackedBarrierCalls(s *vt.Sched) map[int]bool {
	type iv struct {
		a, b int
		bar  bool
	}
	var ivs []iv
	open := map[string]int{} // tid:name -> index of the call mark
	for idx, ev := range s.Log {
		switch {
		case strings.HasPrefix(ev.Kind, "call:"):
			open[fmt.Sprintf("%d:%s", ev.Tid, ev.Kind[5:])] = idx
		case strings.HasPrefix(ev.Kind, "ret:"):
			k := fmt.Sprintf("%d:%s", ev.Tid, ev.Kind[4:])
			if a, ok := open[k]; ok {
				delete(open, k)
				n := ev.Kind[4:]
				if isBarrierCall(n) {
					ivs = append(ivs, iv{a, idx, true})
				} else if n == "Resume" || n == "Restart" || n == "Bind" {
					ivs = append(ivs, iv{a, idx, false})
				}
			}
		}
	}
	for k, a := range open { // calls that never returned
		n := k[strings.Index(k, ":")+1:]
		if isBarrierCall(n) {
			ivs = append(ivs, iv{a, len(s.Log), true})
		} else if n == "Resume" || n == "Restart" || n == "Bind" {
			ivs = append(ivs, iv{a, len(s.Log), false})
		}
	}
	taint := len(s.Log) + 1
	for _, x := range ivs {
		if !x.bar {
			continue
		}
		for _, y := range ivs {
			if !y.bar && y.a < x.b && x.a < y.b && x.a < taint {
				taint = x.a
			}
		}
	}
	out := map[int]bool{}
	for _, x := range ivs {
		if x.bar && x.b < taint {
			out[x.a] = true
		}
	}
	return out
}

// writeWakeSlices emits the worker-level wake-up protocol of coq/SliceWake.v: every change of the
// event loop's guard inputs (status, curProcessing, concurrency, pending jobs) with the flag
// "this thread goes on to notify", every notify, receive, park, close / reopen of the signal
// channel. Single-worker episodes without distributed queues only.
func writeWakeSlices(w *bufio.Writer, s *vt.Sched, tag string) int {
	workers := map[int]bool{}
	for _, ev := range s.Log {
		if ev.Kind == "ad:subscribe" {
			return writeWakeSlicesShared(w, s, tag)
		}
		if si := siteTab[ev.Site]; si.Field == "curProcessing" && ev.Owner != 0 {
			workers[ev.Owner] = true
		}
	}
	if len(workers) != 1 {
		return 0
	}
	tags, coveredMarks := sizeTags(s)
	type cand struct {
		idx  int
		tid  int
		line string // with %s for the notify flag
	}
	var cands []cand
	var lines []struct {
		idx  int
		text string
	}
	add := func(idx int, text string) {
		lines = append(lines, struct {
			idx  int
			text string
		}{idx, text})
	}
	isLoop := map[int]bool{}
	staleLoop := map[int]bool{}
	closedChans := map[int]bool{}
	bindingBy := map[int]int{} // thread -> adapter it is about to bind
	adVisible := map[int]bool{}
	adHidden := map[int]int{}
	adSeenBinding := false
	for _, ev := range s.Log {
		if ev.Kind == "ad:binding" {
			adSeenBinding = true
		}
	}
	conc0 := ""
	cur := 0
	inRestart := map[int]int{}
	var notifies []struct{ idx, tid int }
	for idx, ev0 := range s.Log {
		ev := normStatus(ev0)
		if tg, ok := tags[idx]; ok {
			ev = vt.Event{Tid: ev0.Tid, Kind: tg.kind, Obj: tg.job, Val: tg.val}
		} else if coveredMarks[idx] {
			continue
		}
		si := siteTab[ev.Site]
		fn := si.Func
		t := ev.Tid
		switch ev.Kind {
		case "enter":
			if fn == "worker.Restart" {
				inRestart[t]++
			}
			continue
		case "leave":
			if fn == "worker.Restart" {
				inRestart[t]--
			}
			continue
		case "start":
			if strings.HasPrefix(siteName(ev.Site), "worker.goEventLoop/") {
				isLoop[t] = true
			}
			continue
		}
		// an event loop whose signal channel has been closed (Stop, Restart) is no longer THE event
		// loop of the model: what it still does (a reservation it hands back) are steps of another thread
		actor := "other"
		if isLoop[t] && !staleLoop[t] {
			actor = "loop"
		}
		// an adapter's content counts for the worker from the adapter's registration on (marks
		// "ad:binding" + the binding thread's Manager.Register); what it held before shows up then
		if ev.Kind == "ad:binding" {
			bindingBy[t] = ev.Obj
			continue
		}
		if ev.Kind == "lock" && fn == "Manager.Register" {
			if a, ok := bindingBy[t]; ok {
				delete(bindingBy, t)
				adVisible[a] = true
				if adHidden[a] > 0 {
					cands = append(cands, cand{idx, t, fmt.Sprintf("kforeign %d %%s", adHidden[a])})
					adHidden[a] = 0
				}
			}
			continue
		}
		if strings.HasPrefix(ev.Kind, "ad:") && ev.Obj != 0 && !adVisible[ev.Obj] && adSeenBinding {
			switch {
			case ev.Kind == "ad:enq" && ev.Val == "1", ev.Kind == "ad:inject":
				adHidden[ev.Obj]++
			case ev.Kind == "ad:purge":
				adHidden[ev.Obj] = 0
			}
			continue
		}
		switch {
		case ev.Kind == "q:enq" && strings.HasPrefix(ev.Val, "1"), ev.Kind == "ad:enq" && ev.Val == "1":
			cands = append(cands, cand{idx, t, "kpend " + actor + " 1 1 %s"})
		case ev.Kind == "q:deq", ev.Kind == "ad:deq" && strings.HasPrefix(ev.Val, "1"):
			cands = append(cands, cand{idx, t, "kpend " + actor + " 0 1 %s"})
		case ev.Kind == "q:purge":
			f := strings.Fields(ev.Val)
			cands = append(cands, cand{idx, t, "kpend " + actor + " 0 " + f[1] + " %s"})
		case ev.Kind == "ad:purge":
			cands = append(cands, cand{idx, t, "kpend " + actor + " 0 " + ev.Val + " %s"})
		case si.Field == "curProcessing" && ev.Kind == "add":
			v, _ := strconv.Atoi(ev.Val)
			up := "0"
			if v == cur+1 {
				up = "1"
			}
			cur = v
			cands = append(cands, cand{idx, t, "kcur " + actor + " " + up + " %s"})
		case si.Field == "status" && strings.HasPrefix(fn, "worker.") && ev.Kind == "store":
			cands = append(cands, cand{idx, t, "kstatus " + ev.Val + " %s"})
		case ev.Kind == "lock" && fn == "worker.Restart" && si.Field == "mx":
			// Restart creates the new channels inside this critical section (notify takes the read lock)
			add(idx, "kopen")
		case ev.Kind == "ad:inject":
			cands = append(cands, cand{idx, t, "kforeign 1 %s"})
		case si.Field == "concurrency" && (ev.Kind == "store" || ev.Kind == "swap"):
			nv := strings.Fields(ev.Val)[0] // a swap logs "new old"
			if conc0 == "" {
				conc0 = nv
				continue
			}
			cands = append(cands, cand{idx, t, "kconc " + nv + " %s"})
		case si.Field == "concurrency" && ev.Kind != "load" && strings.HasPrefix(fn, "worker."):
			// the limit is only ever stored (TunePool, configuration): a read-modify-write of it is not this code
			add(idx, "? "+ev.Kind+" on the concurrency limit at "+si.Name)
		case ev.Kind == "trysend" && si.Field == "eventLoopSignal":
			notifies = append(notifies, struct{ idx, tid int }{idx, t})
			add(idx, "knotify")
		case ev.Kind == "recv" && strings.HasPrefix(siteName(ev.Site), "worker.goEventLoop/") && strings.HasPrefix(ev.Val, "1"):
			if closedChans[ev.Obj] {
				continue // a previous run's loop draining the signal left in its closed channel
			}
			add(idx, "kpark")
			add(idx, "krecv")
		case ev.Kind == "close" && si.Field == "eventLoopSignal":
			closedChans[ev.Obj] = true
			for lt := range isLoop {
				staleLoop[lt] = true
			}
			add(idx, "kclose")
		}
	}
	if conc0 == "" {
		return 0
	}
	// the notify flag of a step: the same thread sends on the signal channel before its next step of this kind
	for i, c := range cands {
		next := len(s.Log)
		for _, d := range cands[i+1:] {
			if d.tid == c.tid {
				next = d.idx
				break
			}
		}
		n := "0"
		for _, nt := range notifies {
			if nt.tid == c.tid && nt.idx > c.idx && nt.idx < next {
				n = "1"
				break
			}
		}
		add(c.idx, fmt.Sprintf(c.line, n))
	}
	sort.SliceStable(lines, func(a, b int) bool { return lines[a].idx < lines[b].idx })
	fmt.Fprintf(w, "WAKE %s %s\n", tag, conc0)
	for _, l := range lines {
		w.WriteString("k " + l.text + "\n")
	}
	// at the end of the episode the event loop is parked (or gone); nobody may still owe a notify
	rest := "0"
	if !s.Hang && !s.Livelock && len(s.Panics) == 0 {
		rest = "1"
	}
	fmt.Fprintf(w, "ENDWAKE %s\n", rest)
	return 1
}

// writeRespSlices emits, per response object of a single error / result job (batch streams are
// the batch slice's), the channel operations of coq/SliceResp.v
func writeRespSlices(w *bufio.Writer, s *vt.Sched, tag string) int {
	batchResp := map[int]bool{}
	for _, ev := range s.Log {
		if ev.Kind == "batch:resp" {
			batchResp[ev.Obj] = true
		}
	}
	lines := map[int][]string{}
	var order []int
	vals := map[int]map[string]int{}
	num := func(r int, d string) int {
		if vals[r] == nil {
			vals[r] = map[string]int{}
		}
		if v, ok := vals[r][d]; ok {
			return v
		}
		vals[r][d] = len(vals[r]) + 1
		return vals[r][d]
	}
	emit := func(r int, l string) {
		if r == 0 || batchResp[r] {
			return
		}
		if _, ok := lines[r]; !ok {
			order = append(order, r)
		}
		lines[r] = append(lines[r], l)
	}
	for _, ev := range s.Log {
		fn := siteFunc(ev.Site)
		switch {
		case ev.Kind == "plainW" && siteTab[ev.Site].Field == "Response.res":
			emit(ev.Obj, "rstore")
		case ev.Kind == "plainR" && siteTab[ev.Site].Field == "Response.res":
			emit(ev.Obj, "rload")
		case ev.Kind == "send" && fn == "Response.Send":
			emit(ev.Owner, fmt.Sprintf("rsend %d", num(ev.Owner, ev.Val)))
		case ev.Kind == "close" && fn == "Response.Close":
			emit(ev.Owner, "rclose")
		case ev.Kind == "recv" && fn == "Response.Response":
			if strings.HasPrefix(ev.Val, "1 ") {
				emit(ev.Owner, fmt.Sprintf("rrecv 1 %d", num(ev.Owner, ev.Val[2:])))
			} else {
				emit(ev.Owner, "rrecv 0 0")
			}
		case ev.Kind == "recv" && fn == "Response.Drain":
			if strings.HasPrefix(ev.Val, "1 ") {
				emit(ev.Owner, fmt.Sprintf("rrecv 1 %d", num(ev.Owner, ev.Val[2:])))
			}
		}
	}
	n := 0
	for _, r := range order {
		fmt.Fprintf(w, "RESP %s o%d\n", tag, r)
		for _, l := range lines[r] {
			w.WriteString("r " + l + "\n")
		}
		fmt.Fprintf(w, "ENDRESP\n")
		n++
	}
	return n
}

// writePoolSlices emits, per pool node, the events of coq/SlicePool.v. A node is identified by
// the receiver of its Node.Serve / Send / Stop frames (the pool.Node value sits at offset 0 of
// its linked-list node).
func writePoolSlices(w *bufio.Writer, s *vt.Sched, tag string) int {
	// pre-pass: which node does each server goroutine serve
	serverNode := map[int]int{}
	for _, ev := range s.Log {
		if ev.Kind == "enter" && siteFunc(ev.Site) == "Node.Serve" {
			if _, ok := serverNode[ev.Tid]; !ok {
				serverNode[ev.Tid] = ev.Obj
			}
		}
	}
	lines := map[int][]string{}
	var order []int
	emit := func(n int, l string) {
		if n == 0 {
			return
		}
		if _, ok := lines[n]; !ok {
			order = append(order, n)
		}
		lines[n] = append(lines[n], l)
	}
	holder := map[int]int{}      // node -> thread currently known to hold it (fresh / popped / self), -1 none
	lastSpawned := map[int]int{} // thread -> node it created last
	lastStopped := map[int]int{} // thread -> node it sent the stop payload to last
	inList := map[int]bool{}
	for _, ev := range s.Log {
		fn := siteFunc(ev.Site)
		t := ev.Tid
		switch {
		case ev.Kind == "go" && strings.HasPrefix(siteName(ev.Site), "worker.initPoolNode/"):
			child, _ := strconv.Atoi(ev.Val)
			n := serverNode[child]
			if n == 0 {
				continue // the episode ended before the server goroutine ran
			}
			emit(n, fmt.Sprintf("ngetspawn %d %d", t, child))
			holder[n] = t
			lastSpawned[t] = n
			inList[n] = false
		case ev.Kind == "lock" && fn == "List.PushNode":
			n := 0
			if sn, ok := serverNode[t]; ok && holder[sn] == t {
				n = sn
			} else if ls := lastSpawned[t]; ls != 0 && holder[ls] == t {
				n = ls
			}
			if n != 0 {
				emit(n, fmt.Sprintf("npush %d", t))
				holder[n] = -1
				inList[n] = true
			}
		case ev.Kind == "send" && (fn == "Node.Send" || fn == "Node.Stop"):
			n := ev.Owner
			if holder[n] != t {
				// the sender took the node out of the list (PopBack / Remove == true) some steps ago
				emit(n, fmt.Sprintf("npop %d", t))
				holder[n] = t
				inList[n] = false
			}
			if fn == "Node.Send" {
				emit(n, fmt.Sprintf("nsendjob %d", t))
				holder[n] = -1
			} else {
				emit(n, fmt.Sprintf("nsendstop %d", t))
				lastStopped[t] = n
			}
		case ev.Kind == "recv" && fn == "Node.Serve":
			n := ev.Owner
			if strings.HasSuffix(ev.Val, "true}") {
				emit(n, fmt.Sprintf("nrecvjob %d", t))
				holder[n] = t
			} else if strings.HasPrefix(ev.Val, "1") {
				emit(n, fmt.Sprintf("nrecvstop %d", t))
			}
		case ev.Kind == "poolput":
			if n := lastStopped[t]; n != 0 {
				emit(n, fmt.Sprintf("nput %d", t))
				lastStopped[t] = 0
				holder[n] = -1
			}
		}
	}
	k := 0
	for _, n := range order {
		fmt.Fprintf(w, "POOL %s o%d\n", tag, n)
		for _, l := range lines[n] {
			w.WriteString("p " + l + "\n")
		}
		fmt.Fprintf(w, "ENDPOOL\n")
		k++
	}
	return k
}
