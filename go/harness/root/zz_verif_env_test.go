package varmq

// Scenario environment for the controlled-scheduler harness (injected by `go test -overlay`
// into the instrumented copy of the library; never written into /repo).
//
// env wraps the public API: every call made by a scenario is bracketed by call/ret marks in the
// linear event log, worker functions emit wf+/wf- marks, and the results are kept in a
// client-visible history on which the monitors (zz_verif_mon_test.go) state the properties
// directly, independently of the Coq model.

import (
	"context"
	"errors"
	"fmt"
	"math/rand"
	"strconv"
	"strings"
	"time"

	"github.com/goptics/varmq/internal/vt"
)

const (
	kPlain = iota
	kErr
	kResult
)

const (
	oOK = iota
	oErr
	oPanic
)

// a panicking job panics with a string, an int, an error or a struct, depending on its data
type panicStruct struct{ N int }

func panicValue(d int) any {
	switch d % 4 {
	case 0:
		return fmt.Sprintf("boom-%d", d)
	case 1:
		return d
	case 2:
		return fmt.Errorf("boom-%d", d)
	}
	return panicStruct{d}
}

func panicText(d int) string {
	return strings.ReplaceAll(fmt.Sprint(panicValue(d)), " ", "_")
}

const (
	qFifo = iota
	qPrio
	qPersist
	qPersistPrio
	qDist
	qDistPrio
)

// sub = one submission (an Add, or one item of an AddAll)
type sub struct {
	data     int
	id       string // expected job id ("" = none)
	q        int
	prio     int
	outcome  int
	gate     *vt.Gate
	batch    *batch
	accepted bool
	rejected bool
	tAddCall int // log positions
	tAddRet  int
	handle   jobH
	jobPtr   any // the library's job object once known (wf entry or handle)
	tEnter   []int
	tExit    []int
	seenID   []string
	seenData []int
	closeNil []int // positions of ret:Close with nil error
	closeCall []int // positions of call:Close for the nil-returning calls (same index)
	purgedAt int
}

type batch struct {
	idx    int
	q      int
	items  []*sub
	h      groupH
	tCall  int
	tRet   int
	stream []string // values read from the batch stream, in order
	streamClosed bool
	streamRead bool
}

type callRec struct {
	name   string
	tCall  int
	tRet   int
	arg    string
	res    string
	thread string
}

type sample struct {
	t    int
	what string
	v    int
	aux  int
}

type env struct {
	kind    int
	conc    int
	expiry  time.Duration
	ratio   int
	strat   Strategy
	withCtx bool
	cancel  context.CancelFunc
	w       Worker
	wPlain  IWorkerBinder[int]
	wErr    IErrWorkerBinder[int]
	wRes    IResultWorkerBinder[int, int]
	qs      []qh
	qkinds  []int
	adapters []*recAdapter
	subs    []*sub
	byData  map[int]*sub
	batches []*batch
	calls   []*callRec
	samples []sample
	nextData int
	errsSeen []string
	notes   []string
	readErrs bool
	idGen   int
	useGen  bool
	wfStatus bool // the worker function reads its job's status (C16)
	ackQ    bool // in-memory queues are bound as user queues that also implement IAcknowledgeable
	family  string
	params  map[string]int
	noFinalDrain bool // the scenario ends without processing everything (monitors must not expect completion)
	hasCancel    bool
	finalCounts  *finalCounts
	orderCheck   bool
	wantSel      []int
	statusOverride int // families with several workers: final status to assume for "running" checks
}

func now() int {
	if vt.S == nil {
		return 0
	}
	return len(vt.S.Log)
}

func errName(err error) string {
	switch {
	case err == nil:
		return "nil"
	case errors.Is(err, ErrRunningWorker):
		return "ErrRunningWorker"
	case errors.Is(err, ErrNotRunningWorker):
		return "ErrNotRunningWorker"
	case errors.Is(err, ErrSameConcurrency):
		return "ErrSameConcurrency"
	case errors.Is(err, ErrJobProcessing):
		return "ErrJobProcessing"
	case errors.Is(err, ErrJobAlreadyClosed):
		return "ErrJobAlreadyClosed"
	case errors.Is(err, ErrAcknowledgeJob):
		return "ErrAcknowledgeJob"
	}
	return "err:" + strings.ReplaceAll(err.Error(), " ", "_")
}

func (e *env) call(name, arg string) *callRec {
	g := vt.Cur()
	th := ""
	if g != nil {
		th = g.Name
	}
	c := &callRec{name: name, arg: arg, thread: th, tCall: now(), tRet: -1}
	vt.Mark("call:"+name, nil, arg)
	e.calls = append(e.calls, c)
	return c
}

func (c *callRec) ret(res string) {
	c.res = res
	vt.Mark("ret:"+c.name, nil, res)
	c.tRet = now()
}

// ---------------------------------------------------------------- worker functions

func (e *env) wfBody(j Job[int]) (int, error) {
	d := j.Data()
	s := e.byData[d]
	t := now()
	vt.Mark("wf+", j, strconv.Itoa(d))
	if s != nil {
		s.tEnter = append(s.tEnter, t)
		s.seenID = append(s.seenID, j.ID())
		s.seenData = append(s.seenData, d)
		if s.jobPtr == nil {
			s.jobPtr = j
		}
	} else {
		e.notes = append(e.notes, fmt.Sprintf("wf invoked with unknown data %d", d))
	}
	// the job's own status word, read from inside the worker function (items of a batch have no
	// handle of their own): Processing for as long as the function runs (C16)
	if sp, ok := j.(interface{ Status() string }); ok && e.wfStatus {
		if st := sp.Status(); st != "Processing" {
			e.notes = append(e.notes, fmt.Sprintf("WFSTATUS: job d%d reads %s at the start of its worker function", d, st))
		}
		defer func() {
			if st := sp.Status(); st != "Processing" {
				e.notes = append(e.notes, fmt.Sprintf("WFSTATUS: job d%d reads %s at the end of its worker function", d, st))
			}
		}()
	}
	defer func() {
		vt.Mark("wf-", j, strconv.Itoa(d))
		if s != nil {
			s.tExit = append(s.tExit, now())
		}
	}()
	if s != nil && s.gate != nil {
		s.gate.Wait()
	} else {
		vt.Yield()
	}
	if s != nil {
		switch s.outcome {
		case oErr:
			return 0, fmt.Errorf("fail-%d", d)
		case oPanic:
			panic(panicValue(d))
		}
	}
	return d * 10, nil
}

func (e *env) mkWorker() {
	cfgs := []any{WithConcurrency(e.conc)}
	if e.expiry > 0 {
		cfgs = append(cfgs, WithIdleWorkerExpiryDuration(e.expiry))
	}
	if e.ratio > 0 {
		cfgs = append(cfgs, WithMinIdleWorkerRatio(uint8(e.ratio)))
	}
	if e.strat != RoundRobin {
		cfgs = append(cfgs, WithStrategy(e.strat))
	}
	if e.withCtx {
		ctx, cancel := context.WithCancel(context.Background())
		e.cancel = cancel
		cfgs = append(cfgs, WithContext(ctx))
	}
	if e.useGen {
		cfgs = append(cfgs, WithJobIdGenerator(func() string { e.idGen++; return "gen" + strconv.Itoa(e.idGen) }))
	}
	switch e.kind {
	case kPlain:
		e.wPlain = NewWorker(func(j Job[int]) { e.wfBody(j) }, cfgs...)
		e.w = e.wPlain
	case kErr:
		e.wErr = NewErrWorker(func(j Job[int]) error { _, err := e.wfBody(j); return err }, cfgs...)
		e.w = e.wErr
	case kResult:
		e.wRes = NewResultWorker(func(j Job[int]) (int, error) { return e.wfBody(j) }, cfgs...)
		e.w = e.wRes
	}
}

// ---------------------------------------------------------------- queue / handle adapters

type jobH interface {
	Wait()
	Close() error
	Status() string
	IsClosed() bool
	ID() string
}

type groupH interface {
	Wait()
	NumPending() int
}

type qh interface {
	add(data, prio int, id string) (jobH, bool)
	addAll(items []Item[int]) groupH
	Purge()
	Close() error
	NumPending() int
}

type qPlainF struct{ Queue[int] }

func (q qPlainF) add(d, p int, id string) (jobH, bool) {
	h, ok := q.Queue.Add(d, WithJobId(id))
	if !ok {
		return nil, false
	}
	return h, ok
}
func (q qPlainF) addAll(it []Item[int]) groupH { return q.Queue.AddAll(it) }

type qPlainP struct{ PriorityQueue[int] }

func (q qPlainP) add(d, p int, id string) (jobH, bool) {
	h, ok := q.PriorityQueue.Add(d, p, WithJobId(id))
	if !ok {
		return nil, false
	}
	return h, ok
}
func (q qPlainP) addAll(it []Item[int]) groupH { return q.PriorityQueue.AddAll(it) }

type qErrF struct{ ErrQueue[int] }

func (q qErrF) add(d, p int, id string) (jobH, bool) {
	h, ok := q.ErrQueue.Add(d, WithJobId(id))
	if !ok {
		return nil, false
	}
	return h, ok
}
func (q qErrF) addAll(it []Item[int]) groupH { return q.ErrQueue.AddAll(it) }

type qErrP struct{ ErrPriorityQueue[int] }

func (q qErrP) add(d, p int, id string) (jobH, bool) {
	h, ok := q.ErrPriorityQueue.Add(d, p, WithJobId(id))
	if !ok {
		return nil, false
	}
	return h, ok
}
func (q qErrP) addAll(it []Item[int]) groupH { return q.ErrPriorityQueue.AddAll(it) }

type qResF struct{ ResultQueue[int, int] }

func (q qResF) add(d, p int, id string) (jobH, bool) {
	h, ok := q.ResultQueue.Add(d, WithJobId(id))
	if !ok {
		return nil, false
	}
	return h, ok
}
func (q qResF) addAll(it []Item[int]) groupH { return q.ResultQueue.AddAll(it) }

type qResP struct{ ResultPriorityQueue[int, int] }

func (q qResP) add(d, p int, id string) (jobH, bool) {
	h, ok := q.ResultPriorityQueue.Add(d, p, WithJobId(id))
	if !ok {
		return nil, false
	}
	return h, ok
}
func (q qResP) addAll(it []Item[int]) groupH { return q.ResultPriorityQueue.AddAll(it) }

// persistent / distributed queues have no handles
type qPers struct{ PersistentQueue[int] }

func (q qPers) add(d, p int, id string) (jobH, bool) { return nil, q.PersistentQueue.Add(d, WithJobId(id)) }
func (q qPers) addAll(it []Item[int]) groupH         { return nil }

type qPersP struct{ PersistentPriorityQueue[int] }

func (q qPersP) add(d, p int, id string) (jobH, bool) {
	return nil, q.PersistentPriorityQueue.Add(d, p, WithJobId(id))
}
func (q qPersP) addAll(it []Item[int]) groupH { return nil }

type qDistQ struct{ DistributedQueue[int] }

func (q qDistQ) add(d, p int, id string) (jobH, bool) { return nil, q.DistributedQueue.Add(d, WithJobId(id)) }
func (q qDistQ) addAll(it []Item[int]) groupH         { return nil }

type qDistP struct{ DistributedPriorityQueue[int] }

func (q qDistP) add(d, p int, id string) (jobH, bool) {
	return nil, q.DistributedPriorityQueue.Add(d, p, WithJobId(id))
}
func (q qDistP) addAll(it []Item[int]) groupH { return nil }

// bind adds a queue of the given kind to the worker (a Bind*/With* call of the API)
func (e *env) bind(kind int) int {
	c := e.call("Bind", strconv.Itoa(kind))
	var q qh
	switch e.kind {
	case kPlain:
		switch kind {
		case qFifo:
			q = qPlainF{e.wPlain.WithQueue(newUserQ[iJob[int]](e.ackQ))}
		case qPrio:
			q = qPlainP{e.wPlain.WithPriorityQueue(newUserPQ[iJob[int]](e.ackQ))}
		case qPersist:
			ad := newRecAdapter(false, len(e.adapters))
			e.adapters = append(e.adapters, ad)
			vt.Mark("ad:binding", ad, "") // the next Manager.Register by this thread is this adapter's
			q = qPers{e.wPlain.WithPersistentQueue(ad)}
		case qPersistPrio:
			ad := newRecAdapter(true, len(e.adapters))
			e.adapters = append(e.adapters, ad)
			vt.Mark("ad:binding", ad, "") // the next Manager.Register by this thread is this adapter's
			q = qPersP{e.wPlain.WithPersistentPriorityQueue(adPrio{ad})}
		case qDist:
			ad := newRecAdapter(false, len(e.adapters))
			e.adapters = append(e.adapters, ad)
			vt.Mark("ad:binding", ad, "") // the next Manager.Register by this thread is this adapter's
			q = qDistQ{e.wPlain.WithDistributedQueue(ad)}
		case qDistPrio:
			ad := newRecAdapter(true, len(e.adapters))
			e.adapters = append(e.adapters, ad)
			vt.Mark("ad:binding", ad, "") // the next Manager.Register by this thread is this adapter's
			q = qDistP{e.wPlain.WithDistributedPriorityQueue(adPrio{ad})}
		}
	case kErr:
		if kind == qPrio {
			q = qErrP{e.wErr.WithPriorityQueue(newUserPQ[iErrorJob[int]](e.ackQ))}
		} else {
			kind = qFifo
			q = qErrF{e.wErr.WithQueue(newUserQ[iErrorJob[int]](e.ackQ))}
		}
	case kResult:
		if kind == qPrio {
			q = qResP{e.wRes.WithPriorityQueue(newUserPQ[iResultJob[int, int]](e.ackQ))}
		} else {
			kind = qFifo
			q = qResF{e.wRes.WithQueue(newUserQ[iResultJob[int, int]](e.ackQ))}
		}
	}
	e.qs = append(e.qs, q)
	e.qkinds = append(e.qkinds, kind)
	c.ret(e.w.Status())
	return len(e.qs) - 1
}

// ---------------------------------------------------------------- API wrappers

func (e *env) newSub(q, prio, outcome int, gated bool, id string) *sub {
	e.nextData++
	s := &sub{data: e.nextData, q: q, prio: prio, outcome: outcome, id: id, purgedAt: -1}
	if gated {
		s.gate = &vt.Gate{}
	}
	e.subs = append(e.subs, s)
	e.byData[s.data] = s
	return s
}

func (e *env) add(q, prio, outcome int, gated bool, id string) *sub {
	s := e.newSub(q, prio, outcome, gated, id)
	c := e.call("Add", fmt.Sprintf("q%d d%d p%d", q, s.data, prio))
	s.tAddCall = c.tCall
	h, ok := e.qs[q].add(s.data, prio, id)
	s.accepted, s.rejected = ok, !ok
	s.handle = h
	if h != nil {
		s.jobPtr = h
		vt.Mark("handle", h, strconv.Itoa(s.data))
	}
	c.ret(strconv.FormatBool(ok))
	s.tAddRet = c.tRet
	return s
}

type itemSpec struct {
	prio, outcome int
	gated         bool
	noID          bool // submitted with an empty ID: the worker's id generator names the job
}

func (e *env) addAll(q int, specs []itemSpec) *batch {
	b := &batch{idx: len(e.batches), q: q}
	items := make([]Item[int], 0, len(specs))
	for i, sp := range specs {
		id := fmt.Sprintf("b%d-%d", b.idx, i)
		if (b.idx+i)%5 == 4 {
			id = " " + id + "\t" // ids are carried verbatim, surrounding white space included
		}
		if (b.idx+i)%7 == 3 {
			id = "g:" + id // an id that looks like a batch tag is still the caller's id
		}
		sid := "g:" + id
		if sp.noID {
			id, sid = "", ""
		}
		s := e.newSub(q, sp.prio, sp.outcome, sp.gated, sid)
		s.batch = b
		b.items = append(b.items, s)
		items = append(items, Item[int]{ID: id, Data: s.data, Priority: sp.prio})
	}
	e.batches = append(e.batches, b)
	c := e.call("AddAll", fmt.Sprintf("q%d b%d n%d", q, b.idx, len(specs)))
	b.tCall = c.tCall
	for _, s := range b.items {
		s.tAddCall = c.tCall
	}
	b.h = e.qs[q].addAll(items)
	switch g := b.h.(type) {
	case *resultGroupJob[int, int]:
		vt.Mark("batch:wgc", g.wgc, strconv.Itoa(b.idx))
		vt.Mark("batch:resp", g.Response, strconv.Itoa(b.idx))
		vt.Mark("batch:chan", g.Response.Read(), strconv.Itoa(b.idx))
		vt.Mark("batch:cap", g.wgc, strconv.Itoa(cap(g.Response.Read())))
	case *errorGroupJob[int]:
		vt.Mark("batch:wgc", g.wgc, strconv.Itoa(b.idx))
		vt.Mark("batch:resp", g.Response, strconv.Itoa(b.idx))
		vt.Mark("batch:chan", g.Response.Read(), strconv.Itoa(b.idx))
		vt.Mark("batch:cap", g.wgc, strconv.Itoa(cap(g.Response.Read())))
	case *groupJob[int]:
		vt.Mark("batch:wgc", g.wgc, strconv.Itoa(b.idx))
	}
	c.ret("")
	b.tRet = c.tRet
	for _, s := range b.items {
		s.tAddRet = c.tRet
	}
	return b
}

func (e *env) closeJob(s *sub) string {
	if s.handle == nil {
		return "nohandle"
	}
	c := e.call("Close", "d"+strconv.Itoa(s.data))
	r := errName(s.handle.Close())
	vt.Mark("hret:Close", s.handle, r)
	c.ret(r)
	if r == "nil" {
		s.closeNil = append(s.closeNil, c.tRet)
		s.closeCall = append(s.closeCall, c.tCall)
	}
	return r
}

func (e *env) waitJob(s *sub) {
	if s.handle == nil {
		return
	}
	c := e.call("Wait", "d"+strconv.Itoa(s.data))
	s.handle.Wait()
	c.ret("")
}

func (e *env) resultJob(s *sub) {
	switch h := s.handle.(type) {
	case EnqueuedResultJob[int]:
		c := e.call("Result", "d"+strconv.Itoa(s.data))
		v, err := h.Result()
		c.ret(fmt.Sprintf("%d,%s", v, errName(err)))
	case EnqueuedErrJob:
		c := e.call("Err", "d"+strconv.Itoa(s.data))
		err := h.Err()
		c.ret(errName(err))
	}
}

func (e *env) statusJob(s *sub) {
	if s.handle == nil {
		return
	}
	st := s.handle.Status()
	code := map[string]int{"Created": 0, "Queued": 1, "Processing": 2, "Finished": 3, "Closed": 4}[st]
	vt.Mark("jstatus", s.handle, st)
	e.samples = append(e.samples, sample{now(), "jstatus", code, s.data})
}

func (e *env) lifecycle(name string, arg int) string {
	c := e.call(name, strconv.Itoa(arg))
	var err error
	switch name {
	case "Pause":
		err = e.w.Pause()
	case "PauseAndWait":
		err = e.w.PauseAndWait()
	case "Resume":
		err = e.w.Resume()
	case "Stop":
		err = e.w.Stop()
	case "WaitAndStop":
		err = e.w.WaitAndStop()
	case "Restart":
		err = e.w.Restart()
	case "TunePool":
		err = e.w.TunePool(arg)
	case "WaitUntilFinished":
		e.w.WaitUntilFinished()
	case "CtxCancel":
		if e.cancel != nil {
			vt.Mark("cancel", nil, "")
			e.cancel()
		}
	}
	r := errName(err) + "/" + e.w.Status()
	c.ret(r)
	return r
}

func (e *env) purge(q int) {
	c := e.call("Purge", "q"+strconv.Itoa(q))
	e.qs[q].Purge()
	c.ret("")
}

func (e *env) closeQueue(q int) {
	c := e.call("QClose", "q"+strconv.Itoa(q))
	e.qs[q].Close()
	c.ret("")
}

// introspection samples (C17)
func (e *env) sampleCounts() {
	t := now()
	e.samples = append(e.samples, sample{t, "w.pending", e.w.NumPending(), 0})
	e.samples = append(e.samples, sample{now(), "w.processing", e.w.NumProcessing(), e.w.NumConcurrency()})
	e.samples = append(e.samples, sample{now(), "w.idle", e.w.NumIdleWorkers(), 0})
	for i, q := range e.qs {
		e.samples = append(e.samples, sample{now(), "q.pending", q.NumPending(), i})
	}
	m := e.w.Metrics()
	e.samples = append(e.samples, sample{now(), "m.submitted", int(m.Submitted()), 0})
	e.samples = append(e.samples, sample{now(), "m.completed", int(m.Completed()), int(m.Successful() + m.Failed())})
}

// drainErrs starts a client goroutine reading the worker's error channel
func (e *env) drainErrs() {
	ch := e.w.Errs()
	e.readErrs = true
	vt.GoClient("errs", func() {
		for {
			v, ok := vt.Recv(0, nil, ch)
			if !ok {
				return
			}
			e.errsSeen = append(e.errsSeen, v.Error())
		}
	})
}

func pick(r *rand.Rand, xs ...int) int { return xs[r.Intn(len(xs))] }
