package varmq

// apimix: several client goroutines, each issuing a short random sequence drawn from the whole
// public surface at once — submissions, handle reads, cancellation, purge, control and
// introspection calls — so that every pair of API calls gets to overlap under the controlled
// scheduler (C19). Nothing is asserted about results: overlapping control calls (Restart with
// Stop, ...) leave the worker in whatever state the last one reached; only data races, the
// lock discipline and "a barrier whose condition holds at rest is not asleep" (C06) are judged
// on these episodes.

import (
	"fmt"
	"strings"
	"github.com/goptics/varmq/internal/vt"
)

func init() {
	registerFamily("apimix", []string{"C06"}, func(e *env) {
		r := vt.Rand()
		e.common(r)
		e.withCtx = r.Intn(3) == 0
		e.noFinalDrain = true
		e.mkWorker()
		nq := 1 + r.Intn(2)
		var qs []int
		for i := 0; i < nq; i++ {
			qs = append(qs, e.bind(pick(r, qFifo, qPrio)))
		}
		var jn joiner
		nc := e.p("clients", 2+r.Intn(2))
		for c := 0; c < nc; c++ {
			nops := 2 + r.Intn(4)
			jn.goClient("client", func() {
				var mine []*sub
				for i := 0; i < nops; i++ {
					q := qs[r.Intn(len(qs))]
					switch r.Intn(24) {
					case 23:
						e.w.Metrics().Reset()
					case 0, 1, 2:
						mine = append(mine, e.add(q, r.Intn(3), randOutcome(r), false, ""))
					case 3:
						e.addAll(q, []itemSpec{{prio: r.Intn(3), outcome: oOK}, {prio: r.Intn(3), outcome: randOutcome(r)}})
					case 4:
						e.purge(q)
					case 5:
						e.lifecycle("Pause", 0)
					case 6:
						e.lifecycle("Resume", 0)
					case 7, 8:
						e.lifecycle("Restart", 0)
					case 9:
						e.lifecycle("Stop", 0)
					case 10:
						e.lifecycle("TunePool", 1+r.Intn(4))
					case 11:
						_ = e.w.Errs()
					case 12:
						_ = e.w.Context()
					case 13:
						e.sampleCounts()
					case 14:
						_ = e.w.IsRunning()
						_ = e.w.IsPaused()
						_ = e.w.IsStopped()
					case 15:
						if e.withCtx {
							e.lifecycle("CtxCancel", 0)
						}
					case 16, 17:
						if len(mine) > 0 {
							e.closeJob(mine[r.Intn(len(mine))])
						}
					case 18, 19:
						if len(mine) > 0 {
							e.statusJob(mine[r.Intn(len(mine))])
						}
					case 20:
						if len(e.subs) > 0 {
							e.statusJob(e.subs[r.Intn(len(e.subs))])
						}
					case 21:
						_ = e.qs[q].NumPending()
					case 22:
						e.closeQueue(q)
					}
					for k := r.Intn(2); k > 0; k-- {
						vt.Yield()
					}
				}
			})
		}
		jn.wait()
		vt.WaitIdle()
	})

	// ctlrace: control calls overlapping each other and a barrier caller while jobs are in flight:
	// Stop with Resume with WaitUntilFinished / Restart. Judged like apimix.
	registerFamily("ctlrace", []string{"C06"}, func(e *env) {
		r := vt.Rand()
		e.kind = e.p("kind", r.Intn(3))
		e.conc = e.p("conc", 1+r.Intn(2))
		e.noFinalDrain = true
		e.mkWorker()
		q := e.bind(pick(r, qFifo, qPrio))
		var jn joiner
		n := 1 + r.Intn(3)
		jn.goClient("producer", func() {
			for i := 0; i < n; i++ {
				e.add(q, r.Intn(3), oOK, false, "")
				vt.Yield()
			}
		})
		jn.goClient("stopper", func() {
			for k := r.Intn(3); k > 0; k-- {
				vt.Yield()
			}
			e.lifecycle([]string{"Stop", "Stop", "PauseAndWait", "WaitAndStop"}[r.Intn(4)], 0)
		})
		jn.goClient("resumer", func() {
			for i := 1 + r.Intn(2); i > 0; i-- {
				for k := r.Intn(3); k > 0; k-- {
					vt.Yield()
				}
				e.lifecycle("Resume", 0)
			}
		})
		jn.goClient("waiter", func() {
			for k := r.Intn(3); k > 0; k-- {
				vt.Yield()
			}
			e.lifecycle([]string{"WaitUntilFinished", "WaitUntilFinished", "Restart", "PauseAndWait"}[r.Intn(4)], 0)
		})
		jn.wait()
		vt.WaitIdle()
	})

	// staleloop: a directed schedule. The event loop is held right before it reserves a slot
	// (it has evaluated its guard); meanwhile the worker is restarted and its successor fills the
	// limit; then the old loop is released. It must not dispatch on the strength of a guard it
	// evaluated before the Restart (C02), nor leave the successor asleep next to a free slot (C03).
	registerFamily("staleloop", []string{"C01", "C02", "C03"}, func(e *env) {
		r := vt.Rand()
		e.kind = e.p("kind", r.Intn(3))
		e.conc = e.p("conc", 1+r.Intn(2))
		e.mkWorker()
		q := e.bind(pick(r, qFifo, qPrio))
		held, on := -1, true
		vt.Hold(func(tid, site int, kind string) bool {
			if !on || kind != "add" || siteName(site) != "worker.processNextJob/w.curProcessing.Add" {
				return false
			}
			if held < 0 {
				held = tid
			}
			return tid == held
		})
		e.add(q, 0, oOK, true, "")
		vt.WaitIdle() // the first event loop now sits before its reservation
		switch e.p("between", r.Intn(3)) {
		case 0:
			e.lifecycle("Restart", 0)
		case 1:
			e.lifecycle("Stop", 0)
			e.lifecycle("Restart", 0)
		case 2:
			e.lifecycle("PauseAndWait", 0)
			e.lifecycle("Resume", 0)
		}
		for i := 0; i < e.conc+1; i++ {
			e.add(q, 0, oOK, true, "")
		}
		vt.WaitIdle()
		on = false // release the old loop
		vt.WaitIdle()
		e.sampleCounts()
		e.drain()
	})

	// readers: several callers blocked in Result() / Err() / Wait() on ONE handle before the job
	// finishes; every one of them must come back with that job's outcome (C07), after it (C05)
	registerFamily("readers", []string{"C01", "C03", "C05", "C07", "C16"}, func(e *env) {
		r := vt.Rand()
		e.kind = e.p("kind", 1+r.Intn(2)) // error / result workers
		e.conc = e.p("conc", 1+r.Intn(2))
		e.mkWorker()
		q := e.bind(pick(r, qFifo, qPrio))
		nj := 1 + r.Intn(2)
		var mine []*sub
		for i := 0; i < nj; i++ {
			mine = append(mine, e.add(q, 0, randOutcome(r), true, ""))
		}
		var jn joiner
		nr := e.p("readers", 2+r.Intn(3))
		for k := 0; k < nr; k++ {
			s := mine[r.Intn(len(mine))]
			jn.goClient("reader", func() {
				for y := r.Intn(3); y > 0; y-- {
					vt.Yield()
				}
				if r.Intn(4) == 0 {
					e.waitJob(s)
				}
				e.resultJob(s)
				if r.Intn(2) == 0 {
					e.resultJob(s) // read back after the close
				}
			})
		}
		jn.goClient("opener", func() {
			for y := r.Intn(6); y > 0; y-- {
				vt.Yield()
			}
			e.openGates()
		})
		jn.wait()
		e.drain()
		for _, s := range mine {
			e.resultJob(s)
			e.statusJob(s)
		}
	})

	// bindwindow: a directed schedule for distributed queues. The binding thread is held right after
	// start() has sent its wake-up and before it subscribes to the adapter; the event loop uses the
	// wake-up; a producer then places an item on the adapter. Nothing announces that item to the
	// consumer unless the binding is ordered so that the wake-up comes after the subscription (C13:
	// items already there when the worker was bound are processed without further prompting).
	registerFamily("bindwindow", []string{"C01", "C03", "C11", "C13"}, func(e *env) {
		r := vt.Rand()
		e.kind = kPlain
		e.conc = e.p("conc", 1+r.Intn(2))
		e.mkWorker()
		prio := r.Intn(2) == 0
		ad := newRecAdapter(prio, 0)
		e.adapters = append(e.adapters, ad)
		var producer qh
		if prio {
			producer = qDistP{NewDistributedPriorityQueue[int](adPrio{ad})}
		} else {
			producer = qDistQ{NewDistributedQueue[int](ad)}
		}
		e.qs = append(e.qs, producer)
		e.qkinds = append(e.qkinds, map[bool]int{false: qDist, true: qDistPrio}[prio])
		binder, on := -1, true
		vt.Hold(func(tid, site int, kind string) bool {
			return on && tid == binder && kind == "runlock" && siteName(site) == "worker.notifyToPullNextJobs/w.mx.RUnlock"
		})
		var jn joiner
		jn.goClient("binder", func() {
			binder = vt.Cur().ID
			c := e.call("Bind", "dist")
			if prio {
				vt.Mark("ad:binding", ad, "") // the next Manager.Register by this thread is this adapter's
				e.wPlain.WithDistributedPriorityQueue(adPrio{ad})
			} else {
				vt.Mark("ad:binding", ad, "") // the next Manager.Register by this thread is this adapter's
				e.wPlain.WithDistributedQueue(ad)
			}
			c.ret(e.w.Status())
		})
		vt.WaitIdle() // the binder sits behind start()'s wake-up; the event loop has used it
		n := 1 + r.Intn(2)
		for i := 0; i < n; i++ {
			e.add(0, r.Intn(3), oOK, false, "")
		}
		vt.WaitIdle()
		on = false
		jn.wait()
		vt.WaitIdle()
		e.takeFinalCounts()
	})

	// ctxstop: the configured context is cancelled while a job is in flight; the asynchronous
	// listener's Stop then waits for it. Whatever the client calls meanwhile (Resume, Pause, TunePool,
	// submissions), once everything is at rest the worker is Stopped (C14: cancelling a configured
	// context stops the worker; the listener interleaves arbitrarily).
	registerFamily("ctxstop", []string{"C14", "C03", "C16"}, func(e *env) {
		r := vt.Rand()
		e.kind = e.p("kind", r.Intn(3))
		e.conc = e.p("conc", 1+r.Intn(2))
		e.withCtx = true
		e.noFinalDrain = true
		e.mkWorker()
		q := e.bind(pick(r, qFifo, qPrio))
		n := 1 + r.Intn(3)
		for i := 0; i < n; i++ {
			e.add(q, 0, oOK, true, "")
		}
		vt.WaitIdle() // min(n, conc) gated jobs are in flight
		e.lifecycle("CtxCancel", 0)
		for k := r.Intn(4); k > 0; k-- {
			vt.Yield()
		}
		var jn joiner
		jn.goClient("meddler", func() {
			for i := 1 + r.Intn(3); i > 0; i-- {
				switch r.Intn(6) {
				case 0, 1:
					e.lifecycle("Resume", 0)
				case 2:
					e.lifecycle("Pause", 0)
				case 3:
					e.lifecycle("TunePool", 1+r.Intn(3))
				case 4:
					e.add(q, 0, oOK, false, "")
				case 5:
					// a job's status while its function is still held at the gate: Processing
					for _, s := range e.subs {
						e.statusJob(s)
					}
				}
				for k := r.Intn(3); k > 0; k-- {
					vt.Yield()
				}
			}
		})
		jn.goClient("opener", func() {
			for k := r.Intn(5); k > 0; k-- {
				vt.Yield()
			}
			e.openGates()
		})
		jn.wait()
		vt.WaitIdle()
		if st := e.w.Status(); st != "Stopped" && !vt.S.Hang {
			e.notes = append(e.notes, fmt.Sprintf("LIFECYCLE: the configured context was cancelled, the system is at rest, and the worker reports %s", st))
		}
	})

	// ctxstop2: directed. A Pause is held right before its status store (it has read Running); the
	// context is cancelled and the listener's Stop runs to completion; the Pause is released, then
	// Resume is called. At rest the worker must be Stopped (C14).
	registerFamily("ctxstop2", []string{"C14", "C03"}, func(e *env) {
		r := vt.Rand()
		e.kind = e.p("kind", r.Intn(3))
		e.conc = e.p("conc", 1+r.Intn(2))
		e.withCtx = true
		e.noFinalDrain = true
		e.mkWorker()
		q := e.bind(pick(r, qFifo, qPrio))
		e.add(q, 0, oOK, false, "")
		vt.WaitIdle()
		pauser, on := -1, true
		vt.Hold(func(tid, site int, kind string) bool {
			return on && tid == pauser && kind == "store" && siteName(site) == "worker.Pause/w.status.Store"
		})
		var jn joiner
		jn.goClient("pauser", func() {
			pauser = vt.Cur().ID
			e.lifecycle("Pause", 0)
		})
		vt.WaitIdle() // the pauser sits before its store
		e.lifecycle("CtxCancel", 0)
		vt.WaitIdle() // the listener has stopped the worker
		on = false
		jn.wait()
		vt.WaitIdle()
		if r.Intn(2) == 0 {
			e.lifecycle("Resume", 0)
			vt.WaitIdle()
		}
		if st := e.w.Status(); st != "Stopped" && !vt.S.Hang {
			e.notes = append(e.notes, fmt.Sprintf("LIFECYCLE: the configured context was cancelled, the system is at rest, and the worker reports %s", st))
		}
	})

	// ctxpersist: a worker with a configured context on an acknowledging adapter; the context is
	// cancelled while items are being delivered and dispatched. Whatever the shutdown does with an
	// item already taken from the adapter, it is acknowledged only after the worker function has
	// returned for it (C11): at the end every accepted item is processed, or still held by the adapter.
	registerFamily("ctxpersist", []string{"C11", "C01"}, func(e *env) {
		r := vt.Rand()
		e.kind = kPlain
		e.conc = e.p("conc", 1+r.Intn(3))
		e.withCtx = true
		e.noFinalDrain = true
		e.mkWorker()
		q := e.bind(pick(r, qPersist, qPersistPrio, qDist))
		var jn joiner
		n := 2 + r.Intn(4)
		jn.goClient("producer", func() {
			for i := 0; i < n; i++ {
				e.add(q, r.Intn(3), oOK, r.Intn(4) == 0, "")
				if r.Intn(2) == 0 {
					vt.Yield()
				}
			}
		})
		jn.goClient("canceller", func() {
			for k := r.Intn(12); k > 0; k-- {
				vt.Yield()
			}
			e.lifecycle("CtxCancel", 0)
		})
		jn.goClient("opener", func() {
			for k := r.Intn(8); k > 0; k-- {
				vt.Yield()
			}
			e.openGates()
		})
		jn.wait()
		e.openGates()
		vt.WaitIdle()
	})

	// barriers: several barrier callers at once (Stop, Stop, WaitAndStop, PauseAndWait,
	// WaitUntilFinished) against a worker with jobs in flight and pending, and nobody resuming: each
	// of the calls returns only when no worker function is executing (C06), and nothing starts
	// after any of them has returned (C09).
	registerFamily("barriers", []string{"C06", "C09", "C03"}, func(e *env) {
		r := vt.Rand()
		e.kind = e.p("kind", r.Intn(3))
		e.conc = e.p("conc", 1+r.Intn(3))
		e.noFinalDrain = true
		e.withCtx = r.Intn(4) == 0
		e.mkWorker()
		q := e.bind(pick(r, qFifo, qPrio))
		n := 1 + r.Intn(4)
		for i := 0; i < n; i++ {
			e.add(q, 0, oOK, r.Intn(3) != 0, "")
		}
		if r.Intn(2) == 0 {
			vt.WaitIdle() // min(n, conc) jobs are in flight
		}
		var jn joiner
		for c := 2 + r.Intn(2); c > 0; c-- {
			jn.goClient("caller", func() {
				for k := r.Intn(4); k > 0; k-- {
					vt.Yield()
				}
				what := []string{"Stop", "Stop", "WaitAndStop", "PauseAndWait", "WaitUntilFinished", "CtxCancel"}[r.Intn(6)]
				if what == "CtxCancel" && !e.withCtx {
					what = "Stop"
				}
				e.lifecycle(what, 0)
			})
		}
		if r.Intn(2) == 0 {
			jn.goClient("producer", func() {
				vt.Yield()
				e.add(q, 0, oOK, false, "")
			})
		}
		jn.goClient("opener", func() {
			for k := r.Intn(6); k > 0; k-- {
				vt.Yield()
			}
			e.openGates()
		})
		jn.wait()
		vt.WaitIdle()
	})

	// stopwindow: directed. A Stop / WaitAndStop caller is held right before it writes the status
	// word inside Stop, and the pool goroutines are held at their receive; jobs are submitted in
	// that window; then the stopper is released and, once it has returned or cannot go on, the pool
	// goroutines. Whatever was let through in the window must not start after Stop has returned
	// (C09), and Stop must not return over an executing worker function (C06).
	registerFamily("stopwindow", []string{"C09", "C06", "C03"}, func(e *env) {
		r := vt.Rand()
		e.kind = e.p("kind", r.Intn(3))
		e.conc = e.p("conc", 1+r.Intn(2))
		e.noFinalDrain = true
		e.mkWorker()
		q := e.bind(pick(r, qFifo, qPrio))
		if r.Intn(2) == 0 {
			e.add(q, 0, oOK, false, "")
			e.lifecycle("WaitUntilFinished", 0)
		}
		vt.WaitIdle()
		stopper, phase := -1, 1
		vt.Hold(func(tid, site int, kind string) bool {
			n := siteName(site)
			if phase == 1 && tid == stopper && (kind == "store" || kind == "cas") && strings.HasPrefix(n, "worker.Stop/w.status.") {
				return true
			}
			return phase < 3 && kind == "recv" && n == "Node.Serve/range wc.ch"
		})
		var jn joiner
		jn.goClient("stopper", func() {
			stopper = vt.Cur().ID
			e.lifecycle([]string{"Stop", "WaitAndStop"}[r.Intn(2)], 0)
		})
		vt.WaitIdle() // the stopper sits before its status write
		for i := 1 + r.Intn(2); i > 0; i-- {
			e.add(q, 0, oOK, false, "")
		}
		vt.WaitIdle()
		phase = 2
		vt.WaitIdle() // the stopper has returned, or waits for what was let through
		phase = 3
		jn.wait()
		vt.WaitIdle()
	})

	// resumebatch: submissions (single and batches) that begin while the worker is paused or
	// stopped and are still going on when Resume / Restart runs. Everything accepted is processed
	// without further prompting (C09: pending jobs survive and resume; C03).
	registerFamily("resumebatch", []string{"C09", "C03", "C01"}, func(e *env) {
		r := vt.Rand()
		e.kind = e.p("kind", r.Intn(3))
		e.conc = e.p("conc", 1+r.Intn(3))
		e.mkWorker()
		q := e.bind(pick(r, qFifo, qPrio))
		if r.Intn(2) == 0 {
			e.add(q, 0, oOK, false, "")
		}
		halt := []string{"Pause", "PauseAndWait", "Stop"}[r.Intn(3)]
		e.lifecycle(halt, 0)
		// directed half: the producer is held inside its batch, after k items, until the worker
		// has been resumed and has worked off what was there
		directed := r.Intn(2) == 0
		producer, phase, base, k := -1, 1, recEnqCount, 1+r.Intn(2)
		if directed {
			e.p("directed", 1)
			vt.Hold(func(tid, site int, kind string) bool {
				n := siteName(site)
				return phase == 1 && tid == producer && (kind == "lock" || kind == "lockreq") && recEnqCount-base >= k &&
					(strings.HasPrefix(n, "Queue.Enqueue/") || strings.HasPrefix(n, "PriorityQueue.Enqueue/"))
			})
		}
		var jn joiner
		jn.goClient("producer", func() {
			producer = vt.Cur().ID
			var specs []itemSpec
			for i, n := 0, 2+r.Intn(5); i < n; i++ {
				specs = append(specs, itemSpec{prio: r.Intn(3), outcome: oOK})
			}
			e.addAll(q, specs)
			if r.Intn(2) == 0 {
				e.add(q, 0, oOK, false, "")
			}
		})
		jn.goClient("resumer", func() {
			if directed {
				vt.WaitIdle() // the producer sits inside its batch
			} else {
				for k := r.Intn(10); k > 0; k-- {
					vt.Yield()
				}
			}
			if halt == "Stop" {
				e.lifecycle("Restart", 0)
			} else {
				e.lifecycle("Resume", 0)
			}
			if directed {
				vt.WaitIdle() // the resumed worker has worked off the first k items and sleeps
				phase = 2
			}
		})
		jn.wait()
		vt.WaitIdle()
		e.takeFinalCounts()
	})

	// tuneshrink: the pool is warmed up to its full size (every worker idle, none expiring), then
	// TunePool lowers the concurrency while jobs are being dispatched: a worker that TunePool retires
	// is one it took out of the idle list itself, never one the dispatcher has just popped for a job
	// (C01, C05, C18); the same with two TunePool callers at once (C02: the limit ends at a value
	// somebody asked for).
	registerFamily("tuneshrink", []string{"C01", "C02", "C03", "C05", "C18"}, func(e *env) {
		r := vt.Rand()
		e.kind = e.p("kind", r.Intn(3))
		e.conc = e.p("conc", 3+r.Intn(4))
		e.ratio = 100
		e.mkWorker()
		q := e.bind(pick(r, qFifo, qPrio))
		for i := 0; i < e.conc; i++ {
			e.add(q, 0, oOK, true, "")
		}
		vt.WaitIdle() // conc worker functions at their gates: conc pool goroutines exist
		e.openGates()
		e.lifecycle("WaitUntilFinished", 0)
		vt.WaitIdle()
		var jn joiner
		n1, n2 := 1+r.Intn(2), 1+r.Intn(e.conc)
		jn.goClient("tuner", func() {
			for k := r.Intn(4); k > 0; k-- {
				vt.Yield()
			}
			e.lifecycle("TunePool", n1)
		})
		two := r.Intn(3) == 0
		gated := r.Intn(2) == 0
		// directed third: the second TunePool (a higher limit than the first one's) is held right
		// before it stores its value, until the first has taken effect and the worker has filled it
		directed := two && gated && r.Intn(2) == 0
		tuner2, on := -1, directed
		if directed {
			e.p("directed", 1)
			n1, n2 = 1, 2
			vt.Hold(func(tid, site int, kind string) bool {
				return on && tid == tuner2 && (kind == "store" || kind == "swap") && strings.HasPrefix(siteName(site), "worker.TunePool/w.concurrency.")
			})
		}
		if two {
			e.p("tuners", 2)
			jn.goClient("tuner2", func() {
				tuner2 = vt.Cur().ID
				for k := r.Intn(4); k > 0 && !directed; k-- {
					vt.Yield()
				}
				e.lifecycle("TunePool", n2)
			})
		}
		nj := 2 + r.Intn(4)
		jn.goClient("producer", func() {
			for i := nj; i > 0; i-- {
				e.add(q, 0, oOK, gated, "")
				if r.Intn(2) == 0 {
					vt.Yield()
				}
			}
		})
		if directed {
			vt.WaitIdle() // the first TunePool is in effect, one job sits at its gate, the rest are pending
			on = false
		}
		jn.wait()
		if two {
			if c := e.w.NumConcurrency(); c != n1 && c != n2 {
				e.notes = append(e.notes, fmt.Sprintf("TUNE: TunePool(%d) and TunePool(%d) both returned; NumConcurrency reports %d", n1, n2, c))
			}
		}
		if gated {
			// at rest min(jobs, limit) worker functions sit at their gates, whatever order the
			// TunePool calls took effect in
			vt.WaitIdle()
			limit, got := e.w.NumConcurrency(), 0
			for _, s := range e.subs {
				if len(s.tEnter) > len(s.tExit) {
					got++
				}
			}
			want := nj
			if limit < want {
				want = limit
			}
			if got < want && limit <= e.conc { // more than the limit may still be in flight from before the shrink (C02 judges that)
				e.notes = append(e.notes, fmt.Sprintf("SATURATION: after TunePool under load: %d worker functions in flight at rest, %d jobs, limit %d", got, nj, limit))
			}
		}
		e.drain()
	})

	// lenwindow: directed. A client reading NumPending is held inside the queue's Len() after its
	// first step while the worker dequeues and finishes jobs and another is submitted; whatever
	// Len() then returns lies within the bounds (never negative, never above what was accepted) (C17).
	registerFamily("lenwindow", []string{"C17", "C03"}, func(e *env) {
		r := vt.Rand()
		e.kind = e.p("kind", r.Intn(3))
		e.conc = e.p("conc", 1+r.Intn(2))
		e.mkWorker()
		q := e.bind(pick(r, qFifo, qPrio))
		e.lifecycle("PauseAndWait", 0)
		for i := 2 + r.Intn(3); i > 0; i-- {
			e.add(q, r.Intn(2), oOK, false, "")
		}
		reader, first, on := -1, 0, true
		vt.Hold(func(tid, site int, kind string) bool {
			if tid != reader {
				return false
			}
			fn := siteFunc(site)
			if fn != "Queue.Len" && fn != "PriorityQueue.Len" {
				first = 0
				return false
			}
			if first == 0 {
				first = site
			}
			return on && site != first
		})
		var jn joiner
		jn.goClient("reader", func() {
			reader = vt.Cur().ID
			e.samples = append(e.samples, sample{now(), "q.pending", e.qs[q].NumPending(), q})
		})
		vt.WaitIdle() // the reader sits inside Len, past its first step (or has returned)
		jn.goClient("actor", func() {
			e.lifecycle("Resume", 0)
			vt.Yield()
			e.add(q, 0, oOK, false, "")
		})
		vt.WaitIdle() // the actor and the worker have gone as far as the held reader lets them
		on = false
		jn.wait()
		e.drain()
	})
}
