package varmq

// More scenario families: lifecycle, cancel, batch, saturate, pool, counts.

import (
	"strings"
	"fmt"
	"strconv"

	"github.com/goptics/varmq/internal/vt"
)

func (e *env) batchWait(b *batch) {
	if b.h == nil {
		return
	}
	c := e.call("BWait", "b"+strconv.Itoa(b.idx))
	b.h.Wait()
	c.ret("")
}

func (e *env) batchPending(b *batch) {
	if b.h == nil {
		return
	}
	n := b.h.NumPending()
	left := 0
	e.samples = append(e.samples, sample{now(), "b.pending", n, b.idx})
	_ = left
}

// readStream starts a client goroutine that reads the batch stream until it is closed
func (e *env) readStream(b *batch, jn *joiner) {
	switch h := b.h.(type) {
	case EnqueuedResultGroupJob[int]:
		ch := h.Results()
		b.streamRead = true
		jn.goClient("reader", func() {
			for {
				r, ok := vt.Recv(0, nil, ch)
				if !ok {
					b.streamClosed = true
					vt.Mark("stream-closed", nil, "b"+strconv.Itoa(b.idx))
					return
				}
				b.stream = append(b.stream, fmt.Sprintf("%s:%d,%s", r.JobId, r.Data, errName(r.Err)))
			}
		})
	case EnqueuedErrGroupJob:
		ch := h.Errs()
		b.streamRead = true
		jn.goClient("reader", func() {
			for {
				r, ok := vt.Recv(0, nil, ch)
				if !ok {
					b.streamClosed = true
					vt.Mark("stream-closed", nil, "b"+strconv.Itoa(b.idx))
					return
				}
				b.stream = append(b.stream, errName(r))
			}
		})
	}
}

func init() {
	// lifecycle: continuous submission while a controller issues lifecycle calls
	registerFamily("lifecycle", []string{"C01", "C02", "C03", "C05", "C06", "C09", "C16", "C17", "C18"}, func(e *env) {
		r := vt.Rand()
		e.common(r)
		e.withCtx = r.Intn(4) == 0
		e.mkWorker()
		q := e.bind(pick(r, qFifo, qPrio))
		var jn joiner
		np := e.p("producers", 1+r.Intn(2))
		for p := 0; p < np; p++ {
			n := 2 + r.Intn(4)
			jn.goClient("producer", func() {
				for i := 0; i < n; i++ {
					e.add(q, r.Intn(3), randOutcome(r), false, "")
					vt.Yield()
				}
			})
		}
		nc := e.p("ctlops", 1+r.Intn(4))
		jn.goClient("controller", func() {
			for i := 0; i < nc; i++ {
				switch r.Intn(10) {
				case 9:
					// a barrier on a worker that a plain Pause has already paused still has to wait
					e.lifecycle("Pause", 0)
					for k := r.Intn(2); k > 0; k-- {
						vt.Yield()
					}
					e.lifecycle("PauseAndWait", 0)
				case 0:
					e.lifecycle("Pause", 0)
				case 1, 2:
					e.lifecycle("PauseAndWait", 0)
				case 3:
					e.lifecycle("Resume", 0)
				case 4:
					e.lifecycle("Stop", 0)
				case 5:
					e.lifecycle("Restart", 0)
				case 6:
					e.lifecycle("TunePool", 1+r.Intn(4))
				case 7:
					if e.w.Status() == "Running" {
						e.lifecycle("WaitUntilFinished", 0)
					}
				case 8:
					e.sampleCounts()
				}
				for k := r.Intn(3); k > 0; k-- {
					vt.Yield()
				}
			}
		})
		jn.wait()
		e.drain()
		if r.Intn(2) == 0 {
			e.lifecycle("Stop", 0)
			vt.WaitIdle()
		}
	})

	// cancel: Close / Purge / queue Close racing dispatch and completion
	registerFamily("cancel", []string{"C01", "C03", "C05", "C06", "C10", "C16"}, func(e *env) {
		r := vt.Rand()
		e.common(r)
		e.hasCancel = true
		e.mkWorker()
		q := e.bind(pick(r, qFifo, qPrio))
		startPaused := r.Intn(3) == 0
		if startPaused {
			e.lifecycle("Pause", 0)
		}
		var jn joiner
		n := e.p("jobs", 2+r.Intn(5))
		var mine []*sub
		for i := 0; i < n; i++ {
			mine = append(mine, e.add(q, r.Intn(3), randOutcome(r), false, ""))
		}
		nclosers := e.p("closers", 1+r.Intn(3))
		for c := 0; c < nclosers; c++ {
			jn.goClient("closer", func() {
				for k := 0; k < 1+r.Intn(3); k++ {
					s := mine[r.Intn(len(mine))]
					e.closeJob(s)
					e.statusJob(s)
					vt.Yield()
				}
			})
		}
		if r.Intn(2) == 0 {
			jn.goClient("waiter", func() {
				for _, s := range mine {
					if r.Intn(2) == 0 {
						e.waitJob(s)
						e.statusJob(s)
					}
				}
			})
		}
		switch r.Intn(4) {
		case 0:
			jn.goClient("purger", func() {
				vt.Yield()
				c := e.call("Purge", "q"+strconv.Itoa(q))
				e.qs[q].Purge()
				c.ret("")
				e.params["purge"] = 1
				e.params["purgeT"] = c.tCall
			})
		case 1:
			jn.goClient("qcloser", func() {
				vt.Yield()
				e.closeQueue(q)
				s := e.add(q, 0, oOK, false, "")
				_ = s
			})
		}
		if startPaused {
			jn.goClient("resumer", func() {
				vt.Yield()
				e.lifecycle("Resume", 0)
			})
		}
		jn.wait()
		// jobs removed by Purge are "cancelled": find them — accepted, never ran, status Closed at rest
		e.drain()
		if e.params["purge"] == 1 {
			for _, s := range mine {
				if s.accepted && len(s.tEnter) == 0 && s.handle != nil && s.handle.IsClosed() && len(s.closeNil) == 0 {
					s.purgedAt = e.params["purgeT"]
				}
			}
		}
		for _, s := range mine {
			e.statusJob(s)
		}
	})

	// batch: AddAll on all worker kinds, stream readers, batch Wait
	registerFamily("batch", []string{"C01", "C03", "C05", "C07", "C08"}, func(e *env) {
		r := vt.Rand()
		e.common(r)
		e.useGen = r.Intn(3) == 0 // some items are then submitted without an ID
		e.mkWorker()
		q := e.bind(pick(r, qFifo, qPrio))
		var jn joiner
		nb := e.p("batches", 1+r.Intn(2))
		closedFirst := r.Intn(6) == 0
		if closedFirst {
			e.closeQueue(q)
			e.p("closedqueue", 1)
		}
		for k := 0; k < nb; k++ {
			size := pick(r, 0, 1, 2, 3, 4, 6)
			if k == 0 {
				e.p("size", size)
			}
			var specs []itemSpec
			for i := 0; i < size; i++ {
				specs = append(specs, itemSpec{prio: r.Intn(3), outcome: randOutcome(r), noID: e.useGen && r.Intn(2) == 0})
			}
			jn.goClient("batcher", func() {
				b := e.addAll(q, specs)
				e.readStream(b, &jn)
				e.batchPending(b)
				if r.Intn(2) == 0 {
					e.batchWait(b)
					e.batchPending(b)
				}
			})
		}
		if r.Intn(4) == 0 {
			jn.goClient("purger", func() {
				vt.Yield()
				e.params["purgeT"] = now()
				e.purge(q)
				e.params["purge"] = 1
			})
		}
		if !closedFirst && r.Intn(5) == 0 {
			// the queue is closed while a batch is being submitted: its first items are accepted, the
			// rest rejected; the batch still completes exactly when the accepted ones have
			jn.goClient("closer", func() {
				for k := r.Intn(8); k > 0; k-- {
					vt.Yield()
				}
				e.closeQueue(q)
				e.params["closedMid"] = 1
			})
		}
		// the joiner also waits for the stream readers: a stream that is never closed shows up as a hang
		jn.wait()
		e.drain()
		for _, b := range e.batches {
			e.batchWait(b)
		}
	})

	// saturate: gated worker functions; min(pending, limit) must run together
	registerFamily("saturate", []string{"C01", "C02", "C03", "C17"}, func(e *env) {
		r := vt.Rand()
		e.common(r)
		e.conc = e.p("conc", 1+r.Intn(4))
		e.mkWorker()
		q := e.bind(pick(r, qFifo, qPrio))
		n := e.p("jobs", 1+r.Intn(7))
		for i := 0; i < n; i++ {
			e.add(q, r.Intn(3), oOK, true, "")
		}
		inflight := func() int {
			k := 0
			for _, s := range e.subs {
				if len(s.tEnter) > len(s.tExit) {
					k++
				}
			}
			return k
		}
		limit := e.conc
		want := func() int {
			if n < limit {
				return n
			}
			return limit
		}
		c := e.call("Saturation", fmt.Sprintf("want%d", want()))
		vt.WaitIdle()
		c.ret(strconv.Itoa(inflight()))
		if got := inflight(); got != want() {
			e.notes = append(e.notes, fmt.Sprintf("SATURATION: %d worker functions in flight at rest, pending+inflight %d, limit %d", got, n, limit))
		}
		e.sampleCounts()
		if r.Intn(2) == 0 {
			nl := 1 + r.Intn(5)
			res := e.lifecycle("TunePool", nl)
			if res == "nil/Running" {
				limit = nl
				if nl > e.conc {
					// growing: more jobs must start without any further call
					vt.WaitIdle()
					if got := inflight(); got != want() {
						e.notes = append(e.notes, fmt.Sprintf("SATURATION: after TunePool(%d): %d in flight, %d jobs, limit %d", nl, got, n, limit))
					}
				}
			}
		}
		e.drain()
		// second wave: Restart, Pause + Resume or binding another queue must leave the limit where
		// the last TunePool (or the configuration) put it
		if r.Intn(2) == 0 {
			q2 := q
			switch e.p("between", r.Intn(3)) {
			case 0:
				e.lifecycle("Restart", 0)
			case 1:
				e.lifecycle("PauseAndWait", 0)
				e.lifecycle("Resume", 0)
			case 2:
				q2 = e.bind(pick(r, qFifo, qPrio))
			}
			first := len(e.subs)
			n2 := e.p("jobs2", 1+r.Intn(7))
			for i := 0; i < n2; i++ {
				e.add(q2, r.Intn(3), oOK, true, "")
			}
			w2 := n2
			if limit < w2 {
				w2 = limit
			}
			c := e.call("Saturation", fmt.Sprintf("want%d", w2))
			vt.WaitIdle()
			got := 0
			for _, s := range e.subs[first:] {
				if len(s.tEnter) > len(s.tExit) {
					got++
				}
			}
			c.ret(strconv.Itoa(got))
			if got != w2 {
				e.notes = append(e.notes, fmt.Sprintf("SATURATION: second wave: %d worker functions in flight at rest, %d jobs, limit %d", got, n2, limit))
			}
			e.drain()
		}
	})

	// pool: pool size / idle trimming / Stop-Restart cycles do not accumulate goroutines
	registerFamily("pool", []string{"C01", "C03", "C14", "C18"}, func(e *env) {
		r := vt.Rand()
		e.common(r)
		e.conc = e.p("conc", 2+r.Intn(4))
		e.withCtx = r.Intn(3) == 0
		e.mkWorker()
		q := e.bind(qFifo)
		cycles := e.p("cycles", 1+r.Intn(3))
		for c := 0; c < cycles; c++ {
			n := 1 + r.Intn(6)
			var clock joiner
			if e.expiry > 0 && r.Intn(2) == 0 {
				// the expiry elapses while jobs are being dispatched: the reaper and the dispatcher
				// go for the same idle nodes
				clock.goClient("clock", func() {
					for k := 2 + r.Intn(5); k > 0; k-- {
						vt.Yield()
						vt.ForceTick()
					}
				})
			}
			for i := 0; i < n; i++ {
				e.add(q, 0, oOK, false, "")
				if e.expiry > 0 && r.Intn(2) == 0 {
					vt.Yield()
				}
			}
			clock.wait()
			if r.Intn(2) == 0 {
				e.lifecycle("TunePool", 1+r.Intn(5))
			}
			e.lifecycle("WaitUntilFinished", 0)
			vt.WaitIdle()
			if e.expiry > 0 {
				for k := 0; k < 4; k++ {
					vt.ForceTick()
					vt.WaitIdle()
				}
				idle := e.w.NumIdleWorkers()
				conc := e.w.NumConcurrency()
				min := conc * e.ratio / 100
				if min < 1 {
					min = 1
				}
				e.samples = append(e.samples, sample{now(), "idle-after-expiry", idle, min})
			}
			e.sampleCounts()
			// one idle-worker reaper per run, however many Restarts there have been
			e.samples = append(e.samples, sample{now(), "reapers-at-rest", vt.LibPendingAt(func(site int) bool {
				return strings.HasPrefix(siteName(site), "worker.goRemoveIdleWorkers/select")
			}), 0})
			if c < cycles-1 && r.Intn(3) == 0 {
				// Restart under load: every slot busy and a backlog behind; the pool of the next run
				// is no larger than the limit
				e.params["loadedRestarts"]++
				conc := e.w.NumConcurrency()
				for i := 0; i < 2*conc; i++ {
					e.add(q, 0, oOK, true, "")
				}
				vt.WaitIdle()
				var jn joiner
				jn.goClient("restarter", func() { e.lifecycle("Restart", 0) })
				jn.goClient("opener", func() {
					for k := r.Intn(6); k > 0; k-- {
						vt.Yield()
					}
					e.openGates()
				})
				jn.wait()
				e.openGates()
				e.lifecycle("WaitUntilFinished", 0)
				vt.WaitIdle()
				e.sampleCounts()
				continue
			}
			if c < cycles-1 {
				if r.Intn(2) == 0 {
					e.lifecycle("Stop", 0)
					vt.WaitIdle()
					e.params["stops"]++
					e.samples = append(e.samples, sample{now(), "goroutines-after-stop", libGoroutinesAlive(), 0})
				}
				e.lifecycle("Restart", 0)
			}
		}
		e.drain()
		e.lifecycle("Stop", 0)
		vt.WaitIdle()
		e.samples = append(e.samples, sample{now(), "goroutines-after-stop", libGoroutinesAlive(), 0})
	})
}

func libGoroutinesAlive() int { return vt.LibAlive() }
