package varmq

// Monitors: each property stated directly as a Go predicate on the recorded history (the
// linear event log + the client-visible results kept by env). They are independent of the
// Coq model and are used to search for, and to confirm, concrete failing histories.

import (
	"fmt"
	"os"
	"runtime"
	"sort"
	"strconv"
	"strings"

	"github.com/goptics/varmq/internal/vt"
)

type mon struct {
	e     *env
	s     *vt.Sched
	props map[string]bool
	out   []violation
	// derived
	dispatchAt map[int]int // job object id -> log position of the dispatcher's claim (status -> processing)
	dequeueAt  map[int]int // job object id -> log position of the Dequeue that handed the job to the dispatcher
	concAt     []sample    // (t, "conc", value)
	status     []sample    // worker status stores (t, value)
	qframes    map[int][]int
}

func (m *mon) add(prop, kind, format string, a ...any) {
	if !m.props[prop] {
		return
	}
	if len(m.out) < 40 {
		m.out = append(m.out, violation{prop, kind, fmt.Sprintf(format, a...)})
	}
}

func hasProp(f family, p string) bool {
	for _, x := range f.props {
		if x == p {
			return true
		}
	}
	return false
}

func siteFunc(id int) string { return siteTab[id].Func }
func siteExpr(id int) string { return siteTab[id].Expr }

func runMonitors(f family, e *env, s *vt.Sched) []violation {
	m := &mon{e: e, s: s, props: map[string]bool{}, dispatchAt: map[int]int{}, dequeueAt: map[int]int{}}
	for _, p := range f.props {
		m.props[p] = true
	}
	// the property being checked is judged on every family its check runs (VERIF_PROP), except on
	// the families whose scenarios overlap control calls (only their own list applies)
	if p := os.Getenv("VERIF_PROP"); p != "" && f.name != "apimix" && f.name != "ctlrace" {
		m.props[p] = true
	}
	m.derive()
	m.crashes()
	m.c01()
	m.c02()
	m.c03()
	m.c05()
	m.c06()
	m.c07()
	m.c08()
	m.c09()
	m.c10()
	m.c16()
	m.c17()
	m.c18()
	m.c19()
	monitorsExtra(m)
	// stored jobs: identity of id / payload and "the jobs behind a bad entry still run" are C12's subject too
	if len(e.adapters) > 0 && m.props["C07"] {
		// a stored job that reaches the worker function as another job (its bytes were overwritten
		// while it waited in the adapter) delivers that other job's outcome
		for _, v := range append([]violation(nil), m.out...) {
			if v.Prop == "C01" && (v.Kind == "identity" || v.Kind == "twice") {
				m.add("C07", "wrong-job", "%s", v.Detail)
			}
		}
	}
	if len(e.adapters) > 0 && m.props["C12"] {
		for _, v := range append([]violation(nil), m.out...) {
			if v.Prop == "C01" && (v.Kind == "identity" || v.Kind == "never-ran") {
				m.add("C12", v.Kind, "%s", v.Detail)
			}
		}
	}
	return m.out
}

func (m *mon) derive() {
	m.concAt = append(m.concAt, sample{0, "conc", m.e.conc, 0})
	lastDeq := map[int]int{} // tid -> position of its latest dequeue operation
	for i, ev := range m.s.Log {
		ev = normStatus(ev)
		if ev.Kind == "ad:deq" || (ev.Kind == "lock" && strings.HasSuffix(siteFunc(ev.Site), ".Dequeue")) {
			lastDeq[ev.Tid] = i
		}
		if ev.Kind == "cas" && siteFunc(ev.Site) == "job.startProcessing" && strings.HasPrefix(ev.Val, "1:") {
			m.dispatchAt[ev.Owner] = i
			if d, ok := lastDeq[ev.Tid]; ok {
				m.dequeueAt[ev.Owner] = d
			}
		}
		if ev.Kind == "store" || ev.Kind == "swap" {
			fn, ex := siteFunc(ev.Site), siteExpr(ev.Site)
			if fn == "job.changeStatus" && ev.Val == "2" {
				m.dispatchAt[ev.Owner] = i
			}
			if strings.HasPrefix(fn, "worker.") && (strings.HasPrefix(ex, "w.concurrency.Store") || strings.HasPrefix(ex, "w.concurrency.Swap")) && ev.Val != "" {
				v, _ := strconv.Atoi(strings.Fields(ev.Val)[0])
				m.concAt = append(m.concAt, sample{i, "conc", v, 0})
			}
			if strings.HasPrefix(fn, "worker.") && (strings.HasPrefix(ex, "w.status.Store") || strings.HasPrefix(ex, "w.status.CompareAndSwap")) {
				v, _ := strconv.Atoi(ev.Val)
				m.status = append(m.status, sample{i, "wstatus", v, 0})
			}
		}
	}
}

func (m *mon) finalWorkerStatus() int {
	if m.e.statusOverride != 0 {
		return m.e.statusOverride
	}
	if len(m.status) == 0 {
		return 0
	}
	return m.status[len(m.status)-1].v
}

func (m *mon) clean() bool { return !m.s.Hang && !m.s.Livelock && len(m.s.Panics) == 0 }

// process-level crashes: any panic escaping a goroutine kills the real process
func (m *mon) crashes() {
	// a panic outside a worker function kills the real process: no property of the scenario survives it
	for _, p := range m.s.Panics {
		for prop := range m.props {
			m.add(prop, "panic", "a library or client goroutine panicked: %s", p)
		}
	}
	if m.s.Livelock {
		m.add("C03", "livelock", "episode exceeded the event budget without reaching quiescence")
	}
}

func (m *mon) cancelledBeforeStart(s *sub) bool {
	// a Close that returned nil while the job had not started
	for _, t := range s.closeNil {
		if len(s.tEnter) == 0 || t < s.tEnter[0] {
			return true
		}
	}
	return s.purgedAt >= 0 && (len(s.tEnter) == 0 || s.purgedAt < s.tEnter[0])
}

// C01 — every accepted job runs exactly once; rejected / cancelled jobs never run
func (m *mon) c01() {
	if !m.props["C01"] && !m.props["C07"] {
		return
	}
	running := m.finalWorkerStatus() == 1
	genSeen := map[string]bool{}
	// a dispatcher parked for ever on the hand-over to a pool goroutine: the job it has claimed
	// (Processing) has no goroutine to run it — at rest, whether or not the scenario got stuck over it
	for _, p := range m.s.Parked() {
		if !p.Client && strings.HasPrefix(siteName(p.Site), "Node.Send/") && !m.s.Livelock {
			m.add("C01", "never-ran", "a claimed job is stuck in the hand-over to a pool goroutine that no longer serves its channel (library goroutine g%d parked at %s at rest)", p.ID, siteName(p.Site))
		}
	}
	for _, s := range m.e.subs {
		if len(s.tEnter) > 1 {
			m.add("C01", "twice", "job d%d was invoked %d times", s.data, len(s.tEnter))
		}
		if s.rejected && len(s.tEnter) > 0 {
			m.add("C01", "rejected-ran", "rejected submission d%d was invoked", s.data)
		}
		for k, t := range s.closeNil {
			if len(s.tEnter) > 0 && s.tEnter[0] > t {
				m.add("C01", "cancelled-ran", "job d%d started (t=%d) after Close returned nil (t=%d)", s.data, s.tEnter[0], t)
			}
			_ = k
		}
		for i := range s.seenID {
			if s.seenData[i] != s.data || (s.id != "" && s.seenID[i] != s.id) || (s.id == "" && !m.e.useGen && s.seenID[i] != "") {
				m.add("C01", "identity", "job d%d (id %q) reached the worker function as d%d id %q", s.data, s.id, s.seenData[i], s.seenID[i])
				m.add("C07", "wrong-job", "job d%d (id %q) reached the worker function as d%d id %q", s.data, s.id, s.seenData[i], s.seenID[i])
			}
			if s.id == "" && m.e.useGen {
				// no id chosen by the caller: the worker's generator names the job ("genN", every call a new N)
				id := strings.TrimPrefix(s.seenID[i], "g:")
				n, err := strconv.Atoi(strings.TrimPrefix(id, "gen"))
				if !strings.HasPrefix(id, "gen") || err != nil || n < 1 || n > m.e.idGen || genSeen[id] {
					m.add("C01", "identity", "job d%d submitted without an id on a worker with an id generator reached the worker function with id %q (generator issued gen1..gen%d, each once)", s.data, s.seenID[i], m.e.idGen)
					m.add("C07", "wrong-job", "job d%d submitted without an id on a worker with an id generator reached the worker function with id %q (generator issued gen1..gen%d, each once)", s.data, s.seenID[i], m.e.idGen)
				}
				genSeen[id] = true
			}
		}
		if m.clean() && running && s.accepted && !m.cancelledBeforeStart(s) && !m.e.noFinalDrain {
			if len(s.tEnter) == 0 {
				m.add("C01", "never-ran", "accepted job d%d (q%d) was never invoked although the worker is running and the system is quiescent", s.data, s.q)
			} else if len(s.tExit) == 0 {
				m.add("C01", "never-finished", "job d%d entered the worker function and never left", s.data)
			}
		}
	}
	// the scenario itself is stuck (typically in its final WaitUntilFinished): nothing can move, the
	// worker is running with a free slot and its event loop sleeps at its idle point, yet an accepted
	// job waits in a queue of a single-worker episode — it will never be invoked
	if m.s.Hang && !m.s.Livelock && len(m.s.Panics) == 0 && running && len(m.e.adapters) == 0 {
		limit := m.e.conc
		if n := len(m.concAt); n > 0 {
			limit = m.concAt[n-1].v
		}
		inflight := 0
		for _, s := range m.e.subs {
			if len(s.tEnter) > len(s.tExit) {
				inflight++
			}
		}
		loopIdle := false
		for _, p := range m.s.Parked() {
			if !p.Client && strings.HasPrefix(siteName(p.Site), "worker.goEventLoop/range signal") {
				loopIdle = true
			}
		}
		if loopIdle && inflight < limit {
			for _, s := range m.e.subs {
				if s.accepted && len(s.tEnter) == 0 && !m.cancelledBeforeStart(s) && s.purgedAt < 0 {
					m.add("C01", "never-ran", "accepted job d%d (q%d) waits in its queue for ever: nothing can move, the worker is running with %d of %d slots in use and its event loop is asleep", s.data, s.q, inflight, limit)
					break
				}
			}
		}
	}
}

type interval struct{ a, b, dispatch int }

// C02 — in-flight invocations never exceed the limit (largest limit in effect since the oldest
// in-flight job was dispatched)
func (m *mon) c02() {
	if !m.props["C02"] {
		return
	}
	type ev struct {
		t     int
		enter bool
		s     *sub
	}
	var evs []ev
	for _, s := range m.e.subs {
		for i, t := range s.tEnter {
			evs = append(evs, ev{t, true, s})
			if i < len(s.tExit) {
				evs = append(evs, ev{s.tExit[i], false, s})
			}
		}
	}
	sort.Slice(evs, func(i, j int) bool { return evs[i].t < evs[j].t })
	inflight := map[*sub]int{}
	// the limits in effect, from the API calls (not from what the library stores: Bind, Resume and
	// Restart must not change the limit): the configured one from the start, n from the call of a
	// successful TunePool(n); a limit stays possibly in effect until the next TunePool has returned
	type lim struct{ from, to, v int }
	lims := []lim{{0, 1 << 60, m.e.conc}}
	var tunes []*callRec
	for _, c := range m.e.calls {
		if c.name == "TunePool" && c.tRet >= 0 && strings.HasPrefix(c.res, "nil/") {
			tunes = append(tunes, c)
		}
	}
	for _, c := range tunes {
		n, _ := strconv.Atoi(c.arg)
		if n < 1 {
			n = runtime.NumCPU()
		}
		// the configured limit is replaced once any TunePool has returned; the limit of a TunePool
		// call stays possibly in effect until a call that began after it had returned has returned
		// (of two overlapping calls either may be the one that took effect last)
		if c.tRet < lims[0].to {
			lims[0].to = c.tRet
		}
		to := 1 << 60
		for _, d := range tunes {
			if d.tCall > c.tRet && d.tRet < to {
				to = d.tRet
			}
		}
		lims = append(lims, lim{c.tCall, to, n})
	}
	if m.e.conc < 1 {
		lims[0].v = runtime.NumCPU()
	}
	limitAt := func(from, to int) int {
		best := 0
		for _, l := range lims {
			if l.from <= to && l.to > from && l.v > best {
				best = l.v
			}
		}
		return best
	}
	for _, e := range evs {
		if !e.enter {
			delete(inflight, e.s)
			continue
		}
		d := e.t
		if e.s.jobPtr != nil {
			if x, ok := m.dispatchAt[m.s.ObjID(e.s.jobPtr)]; ok {
				d = x
			}
		}
		inflight[e.s] = d
		oldest := e.t
		for _, dd := range inflight {
			if dd < oldest {
				oldest = dd
			}
		}
		if lim := limitAt(oldest, e.t); len(inflight) > lim {
			m.add("C02", "over-limit", "%d worker functions in flight at t=%d, largest limit in effect since t=%d is %d", len(inflight), e.t, oldest, lim)
		}
	}
}

func libParkedOK(p vt.ParkedG) bool {
	if p.Client {
		return true
	}
	n := siteName(p.Site)
	switch {
	case strings.HasPrefix(n, "worker.goEventLoop/range signal"),
		strings.HasPrefix(n, "Node.Serve/range wc.ch"),
		strings.HasPrefix(n, "worker.goRemoveIdleWorkers/"),
		strings.HasPrefix(n, "worker.goListenToContext/"),
		strings.HasPrefix(n, "Response.Drain/"):
		return true
	}
	return false
}

// C03 — progress: at quiescence nothing accepted is left behind and no library goroutine is stuck
func (m *mon) c03() {
	if !m.props["C03"] {
		return
	}
	if m.s.Hang {
		var where []string
		for _, p := range m.s.Parked() {
			if p.Client {
				where = append(where, fmt.Sprintf("%s@%s[%s]", p.Name, siteName(p.Site), p.Kind))
			}
		}
		m.add("C03", "hang", "scenario did not finish: %v", where)
	}
	for _, p := range m.s.Parked() {
		if !libParkedOK(p) {
			m.add("C03", "stuck-goroutine", "library goroutine g%d parked at %s [%s]", p.ID, siteName(p.Site), p.Kind)
		}
	}
}

// C05 — handles complete exactly when the work has finished
func (m *mon) c05() {
	if !m.props["C05"] && !m.props["C08"] && !m.props["C16"] {
		return
	}
	for _, c := range m.e.calls {
		if (c.name != "Wait" && c.name != "Result" && c.name != "Err") || !strings.HasPrefix(c.arg, "d") {
			continue
		}
		d, _ := strconv.Atoi(c.arg[1:])
		s := m.e.byData[d]
		if s == nil {
			continue
		}
		if c.tRet < 0 {
			// still parked at the end: only wrong if the job is over
			over := len(s.tExit) > 0 || len(s.closeNil) > 0 || s.rejected || s.purgedAt >= 0
			if over && !m.s.Livelock {
				m.add("C05", "blocked-forever", "%s on d%d never returned although the job is over", c.name, d)
			}
			continue
		}
		done := s.rejected || s.purgedAt >= 0 && s.purgedAt < c.tRet
		for _, t := range s.tExit {
			if t < c.tRet {
				done = true
			}
		}
		for _, t := range s.closeCall {
			if t < c.tRet {
				done = true
			}
		}
		if !done {
			m.add("C05", "early-return", "%s on d%d returned at t=%d before the job finished (exits %v)", c.name, d, c.tRet, s.tExit)
		}
	}
	for _, b := range m.e.batches {
		for _, c := range m.e.calls {
			if c.name == "BWait" && c.arg == "b"+strconv.Itoa(b.idx) && c.tRet < 0 && !m.s.Livelock && len(m.s.Panics) == 0 && b.tRet >= 0 {
				// still asleep at the end: wrong once every item is over (ran, was rejected, cancelled or purged)
				over := true
				for _, s := range b.items {
					if !(s.rejected || s.purgedAt >= 0 || len(s.tExit) > 0 || len(s.closeNil) > 0 || !s.accepted) {
						over = false
					}
				}
				if over {
					m.add("C05", "batch-wait-blocked", "Wait on batch b%d (%d items, all finished / rejected / cancelled) never returned", b.idx, len(b.items))
				}
			}
			if c.name != "BWait" || c.arg != "b"+strconv.Itoa(b.idx) || c.tRet < 0 {
				continue
			}
			for _, s := range b.items {
				fin := s.rejected || s.purgedAt >= 0 && s.purgedAt < c.tRet
				for _, t := range s.tExit {
					if t < c.tRet {
						fin = true
					}
				}
				for _, t := range s.closeCall {
					if t < c.tRet {
						fin = true
					}
				}
				if !fin && s.accepted {
					m.add("C05", "batch-early-return", "batch b%d Wait returned at t=%d before item d%d finished", b.idx, c.tRet, s.data)
					m.add("C08", "batch-early-return", "batch b%d Wait returned at t=%d before item d%d finished", b.idx, c.tRet, s.data)
					m.add("C16", "not-closed-after-wait", "batch b%d Wait returned at t=%d while its accepted item d%d has not finished (its status is not Closed yet)", b.idx, c.tRet, s.data)
				}
			}
		}
	}
}

func (m *mon) wfRunningAt(t int) []int {
	var r []int
	for _, s := range m.e.subs {
		for i, a := range s.tEnter {
			b := 1 << 60
			if i < len(s.tExit) {
				b = s.tExit[i]
			}
			if a < t && t <= b {
				r = append(r, s.data)
			}
		}
	}
	return r
}

func (m *mon) statusAt(t int) int {
	v := 0
	for _, s := range m.status {
		if s.t < t {
			v = s.v
		}
	}
	return v
}

// C06 — worker-level barriers are exact
func (m *mon) c06() {
	if !m.props["C06"] {
		return
	}
	m.c06rest()
	if m.e.family == "apimix" || m.e.family == "ctlrace" {
		return // overlapping control calls: only the at-rest condition above is judged
	}
	for _, c := range m.e.calls {
		switch c.name {
		case "WaitUntilFinished":
			if c.tRet < 0 {
				if !m.s.Livelock {
					m.add("C06", "barrier-hang", "WaitUntilFinished (called t=%d) never returned", c.tCall)
				}
				continue
			}
			// running throughout the call?
			runningThroughout := m.statusAt(c.tCall) == 1
			for _, s := range m.status {
				if s.t >= c.tCall && s.t <= c.tRet && s.v != 1 {
					runningThroughout = false
				}
			}
			if !runningThroughout {
				continue
			}
			for _, s := range m.e.subs {
				if !s.accepted || s.tAddRet < 0 || s.tAddRet > c.tCall {
					continue
				}
				if m.cancelledBeforeStart(s) {
					continue
				}
				fin := false
				for _, t := range s.tExit {
					if t <= c.tRet {
						fin = true
					}
				}
				if !fin {
					m.add("C06", "wuf-early", "WaitUntilFinished [t=%d..%d] returned while job d%d (accepted t=%d) had not finished", c.tCall, c.tRet, s.data, s.tAddRet)
				}
			}
		case "PauseAndWait", "Stop", "WaitAndStop":
			if c.tRet < 0 {
				if !m.s.Livelock {
					m.add("C06", "barrier-hang", "%s (called t=%d) never returned", c.name, c.tCall)
				}
				continue
			}
			if !strings.HasPrefix(c.res, "nil/") {
				continue
			}
			if r := m.wfRunningAt(c.tRet); len(r) > 0 {
				m.add("C06", "pause-not-exact", "%s returned at t=%d while worker functions of %v were executing", c.name, c.tRet, r)
			}
		}
	}
}

// c06rest: a thread asleep in WaitUntilFinished (directly or inside PauseAndWait / Stop / Restart)
// when nothing can move any more, although the condition the code itself waits for is false:
// status paused or stopped and curProcessing = 0. (With status running the condition involves the
// queue lengths: a sleeper then is the lost dispatch of C03.)
func (m *mon) c06rest() {
	if m.s.Livelock {
		return
	}
	cur, haveCur := 0, false
	for _, ev := range m.s.Log {
		if (ev.Kind == "add" || ev.Kind == "store") && strings.Contains(siteExpr(ev.Site), "curProcessing") {
			cur, _ = strconv.Atoi(ev.Val)
			haveCur = true
		}
	}
	st := m.finalWorkerStatus()
	if (st != 2 && st != 3) || (haveCur && cur != 0) {
		return
	}
	for _, p := range m.s.Parked() {
		if strings.HasPrefix(siteName(p.Site), "worker.WaitUntilFinished/") {
			m.add("C06", "asleep-at-rest", "g%d sleeps in WaitUntilFinished at rest although the worker is %s with curProcessing = 0", p.ID,
				map[int]string{2: "paused", 3: "stopped"}[st])
		}
	}
}

// C07 — each handle gets its own job's outcome; panics are contained
func (m *mon) c07() {
	if !m.props["C07"] {
		return
	}
	for _, c := range m.e.calls {
		if (c.name != "Result" && c.name != "Err") || c.tRet < 0 {
			continue
		}
		d, _ := strconv.Atoi(c.arg[1:])
		s := m.e.byData[d]
		if s == nil || len(s.tExit) == 0 {
			continue // not executed: cancelled/rejected handles are C05/C10 matter
		}
		var want string
		switch {
		case s.outcome == oOK && c.name == "Result":
			want = fmt.Sprintf("%d,nil", d*10)
		case s.outcome == oOK:
			want = "nil"
		case s.outcome == oErr && c.name == "Result":
			want = fmt.Sprintf("0,err:fail-%d", d)
		case s.outcome == oErr:
			want = fmt.Sprintf("err:fail-%d", d)
		case c.name == "Result":
			want = fmt.Sprintf("0,err:panic_recovered_inside_result-worker:_%s", panicText(d))
		default:
			want = fmt.Sprintf("err:panic_recovered_inside_err-worker:_%s", panicText(d))
		}
		if c.res != want {
			m.add("C07", "wrong-outcome", "%s on d%d returned %q, the worker function produced %q", c.name, d, c.res, want)
		}
	}
	// a panic is offered on the error channel: the goroutine that ran the job performs the
	// non-blocking send of worker.sendError (whether or not the channel has room) before it takes
	// its next job — also when the worker has been paused or is being stopped meanwhile
	owed := map[int]int{} // thread -> data of the panicking job whose offer is due
	for _, ev := range m.s.Log {
		switch {
		case ev.Kind == "wf-":
			d, _ := strconv.Atoi(ev.Val)
			if s := m.e.byData[d]; s != nil && s.outcome == oPanic {
				owed[ev.Tid] = d
			}
		case ev.Kind == "trysend" && siteFunc(ev.Site) == "worker.sendError":
			delete(owed, ev.Tid)
		case ev.Kind == "wf+":
			if d, ok := owed[ev.Tid]; ok {
				m.add("C07", "panic-not-offered", "the panic of job d%d was never offered on the worker's error channel (its goroutine went on to the next job)", d)
				delete(owed, ev.Tid)
			}
		}
	}
	if m.clean() {
		for _, d := range owed {
			m.add("C07", "panic-not-offered", "the panic of job d%d was never offered on the worker's error channel (system at rest)", d)
		}
	}
	if m.clean() && m.e.finalCounts != nil {
		failed, ok := 0, 0
		for _, s := range m.e.subs {
			for range s.tExit {
				if s.outcome == oOK {
					ok++
				} else if m.e.kind != kPlain || s.outcome == oPanic {
					failed++
				} else {
					ok++ // plain worker: wf has no error result; oErr behaves as success
				}
			}
		}
		if m.e.finalCounts.failed != failed || m.e.finalCounts.successful != ok {
			m.add("C07", "metrics", "Failed=%d Successful=%d, expected %d / %d", m.e.finalCounts.failed, m.e.finalCounts.successful, failed, ok)
		}
	}
}

// C08 — batches: one result per executed item, closed once (filled in with the batch families)
func (m *mon) c08() {
	if !m.props["C08"] {
		return
	}
	for _, b := range m.e.batches {
		if !b.streamRead {
			continue
		}
		want := map[string]int{}
		// items submitted without an ID are named by the generator: each gets a name of its own,
		// the one its worker function saw, and its result carries that name
		names := map[string]int{}
		for _, s := range b.items {
			if len(s.seenID) > 0 {
				if d, dup := names[s.seenID[0]]; dup && d != s.data {
					m.add("C08", "shared-id", "batch b%d: items d%d and d%d ran under the same job id %q", b.idx, d, s.data, s.seenID[0])
				}
				names[s.seenID[0]] = s.data
			}
		}
		for _, s := range b.items {
			if len(s.tExit) == 0 {
				continue
			}
			id := s.id
			if id == "" && len(s.seenID) > 0 {
				id = s.seenID[0]
			}
			switch {
			case m.e.kind == kResult && s.outcome == oOK:
				want[fmt.Sprintf("%s:%d,nil", id, s.data*10)]++
			case m.e.kind == kResult && s.outcome == oErr:
				want[fmt.Sprintf("%s:0,err:fail-%d", id, s.data)]++
			case m.e.kind == kResult:
				want[fmt.Sprintf("%s:0,err:panic_recovered_inside_result-worker:_%s", id, panicText(s.data))]++
			case m.e.kind == kErr && s.outcome == oErr:
				want[fmt.Sprintf("err:fail-%d", s.data)]++
			case m.e.kind == kErr && s.outcome == oPanic:
				want[fmt.Sprintf("err:panic_recovered_inside_err-worker:_%s", panicText(s.data))]++
			}
		}
		got := map[string]int{}
		for _, v := range b.stream {
			got[v]++
		}
		allOver := true
		for _, s := range b.items {
			if !(s.rejected || s.purgedAt >= 0 || len(s.tExit) > 0 || len(s.closeNil) > 0 || !s.accepted && b.tRet >= 0) {
				allOver = false
			}
		}
		if !b.streamClosed && allOver && b.tRet >= 0 && !m.s.Livelock && len(m.s.Panics) == 0 {
			m.add("C08", "stream-not-closed", "batch b%d (%d items, all rejected / cancelled / finished): stream was never closed; read %v", b.idx, len(b.items), b.stream)
		}
		if m.clean() && m.finalWorkerStatus() == 1 && !m.e.noFinalDrain {
			for k, n := range want {
				if got[k] != n {
					m.add("C08", "missing-result", "batch b%d: expected %d x %q on the stream, got %d (stream %v)", b.idx, n, k, got[k], b.stream)
				}
			}
		}
		for k, n := range got {
			if n > want[k] {
				m.add("C08", "unexpected-result", "batch b%d: %q delivered %d times, expected %d", b.idx, k, n, want[k])
			}
		}
	}
}

// C09 — a paused / stopped worker starts nothing
func (m *mon) c09() {
	if !m.props["C09"] {
		return
	}
	// pending jobs survive and resume: after a Resume / Restart, at rest with the worker running,
	// every job accepted (and not cancelled) has been processed
	resumed := false
	for _, c := range m.e.calls {
		if (c.name == "Resume" || c.name == "Restart") && c.tRet >= 0 {
			resumed = true
		}
	}
	if resumed && m.clean() && m.finalWorkerStatus() == 1 && !m.e.noFinalDrain {
		for _, s := range m.e.subs {
			if s.accepted && len(s.tEnter) == 0 && !m.cancelledBeforeStart(s) {
				m.add("C09", "not-resumed", "job d%d (q%d) accepted at t=%d is still pending at rest although the worker was resumed and is running", s.data, s.q, s.tAddRet)
			}
		}
	}
	for _, c := range m.e.calls {
		if c.tRet < 0 || !strings.HasPrefix(c.res, "nil/") {
			continue
		}
		if c.name != "PauseAndWait" && c.name != "Stop" && c.name != "WaitAndStop" {
			continue
		}
		// hold lasts until the next call of Resume / Restart (or a Bind, which restarts a stopped worker: D2)
		end := 1 << 60
		for _, d := range m.e.calls {
			if d.tCall >= c.tRet && (d.name == "Resume" || d.name == "Restart") && d.tCall < end {
				end = d.tCall
			}
		}
		for _, s := range m.e.subs {
			for _, t := range s.tEnter {
				if t > c.tRet && t < end {
					m.add("C09", "started-while-held", "job d%d started at t=%d after %s returned (t=%d) and before any Resume/Restart", s.data, t, c.name, c.tRet)
				}
			}
		}
	}
}

// C10 — cancel / purge / queue close
func (m *mon) c10() {
	if !m.props["C10"] && !m.props["C08"] && !m.props["C05"] {
		return
	}
	// a Purge removes what it is handed, nothing else: a job accepted around a Purge that the queue
	// neither handed to the purger nor to a dispatcher, and that nobody cancelled, is lost
	purges := false
	for _, c := range m.e.calls {
		if c.name == "Purge" {
			purges = true
		}
	}
	if purges && !m.s.Livelock && len(m.s.Panics) == 0 && m.finalWorkerStatus() == 1 && (!m.e.noFinalDrain || m.s.Hang) && len(m.e.adapters) == 0 {
		inflight := 0
		for _, s := range m.e.subs {
			if len(s.tEnter) > len(s.tExit) {
				inflight++
			}
		}
		for _, s := range m.e.subs {
			if s.accepted && len(s.tEnter) == 0 && !m.cancelledBeforeStart(s) && inflight == 0 {
				m.add("C10", "purge-lost", "job d%d (q%d) was accepted around a Purge; at rest it was neither handed to the purger nor dispatched nor cancelled, and nothing is in flight", s.data, s.q)
				if s.batch != nil {
					m.add("C08", "purge-lost", "item d%d of batch b%d was accepted around a Purge and then neither run nor closed: the batch never completes", s.data, s.batch.idx)
					m.add("C05", "batch-wait-blocked", "item d%d of batch b%d was accepted around a Purge and then neither run nor closed: Wait on the batch never returns", s.data, s.batch.idx)
				}
				break
			}
		}
	}
	for _, s := range m.e.subs {
		if len(s.closeNil) > 1 {
			m.add("C10", "double-close-ok", "Close on d%d returned nil %d times", s.data, len(s.closeNil))
		}
		for _, t := range s.closeNil {
			if len(s.tEnter) > 0 && s.tEnter[0] > t {
				m.add("C10", "cancelled-ran", "job d%d started (t=%d) after Close returned nil (t=%d)", s.data, s.tEnter[0], t)
			}
		}
	}
	for _, c := range m.e.calls {
		if c.name != "Close" || c.tRet < 0 {
			continue
		}
		d, _ := strconv.Atoi(c.arg[1:])
		s := m.e.byData[d]
		if s == nil {
			continue
		}
		if c.res == "ErrJobProcessing" {
			// must have been dispatched before the call returned
			if len(s.tEnter) == 0 && m.clean() && m.finalWorkerStatus() == 1 && !m.e.noFinalDrain && s.purgedAt < 0 && len(s.closeNil) == 0 {
				m.add("C10", "processing-but-never-ran", "Close on d%d returned ErrJobProcessing but the job never ran", d)
			}
		}
		if c.res == "nil" {
			// a Close that starts after an earlier one returned nil must not succeed
			for _, t := range s.closeNil {
				if t < c.tCall {
					m.add("C10", "closed-twice", "second Close on d%d (t=%d) returned nil after an earlier one did (t=%d)", d, c.tCall, t)
				}
			}
		}
	}
	// queue close: later submissions rejected
	for _, c := range m.e.calls {
		if c.name != "QClose" || c.tRet < 0 {
			continue
		}
		q, _ := strconv.Atoi(c.arg[1:])
		for _, s := range m.e.subs {
			if s.q == q && s.tAddCall > c.tRet && s.accepted {
				m.add("C10", "accepted-after-close", "d%d was accepted by q%d after its Close returned", s.data, q)
			}
		}
	}
	// purge: a job that Purge took out of its queue is cancelled — its handle reads Closed once the
	// system is at rest (its waiters are C05's matter)
	if m.clean() {
		purged := map[int]int{}
		for i, ev := range m.s.Log {
			if ev.Kind == "q:purged" {
				purged[ev.Obj] = i
			}
		}
		for _, s := range m.e.subs {
			if s.jobPtr == nil || s.handle == nil {
				continue
			}
			if t, ok := purged[m.s.ObjID(s.jobPtr)]; ok && len(s.tEnter) == 0 && !s.handle.IsClosed() {
				m.add("C10", "purged-not-cancelled", "job d%d was removed from its queue by Purge (t=%d) but its handle still reads %s at rest", s.data, t, s.handle.Status())
			}
		}
	}
}

// C16 — job status only moves forward
func (m *mon) c16() {
	if !m.props["C16"] {
		return
	}
	last := map[int]sample{}
	for _, sm := range m.e.samples {
		if sm.what != "jstatus" {
			continue
		}
		if p, ok := last[sm.aux]; ok && sm.v < p.v {
			m.add("C16", "backwards", "status of d%d went from %d (t=%d) to %d (t=%d)", sm.aux, p.v, p.t, sm.v, sm.t)
		}
		last[sm.aux] = sm
		s := m.e.byData[sm.aux]
		if s != nil {
			for i, a := range s.tEnter {
				if i < len(s.tExit) && a < sm.t && sm.t < s.tExit[i] && sm.v != 2 {
					m.add("C16", "not-processing", "status of d%d read %d at t=%d while its worker function runs [%d..%d]", sm.aux, sm.v, sm.t, a, s.tExit[i])
				}
			}
			for _, c := range m.e.calls {
				if c.name == "Wait" && c.arg == "d"+strconv.Itoa(sm.aux) && c.tRet >= 0 && c.tRet < sm.t && sm.v != 4 {
					m.add("C16", "not-closed-after-wait", "status of d%d read %d at t=%d after Wait returned (t=%d)", sm.aux, sm.v, sm.t, c.tRet)
				}
			}
		}
	}
}

// C17 — counts in bounds (sampled), exact at rest (final samples)
// c17len: every Len() of a built-in queue read while no other operation on that queue was in
// progress (none running when Len was entered, none started before it returned) must equal the
// number of elements the queue holds: accepted - handed out - purged. Judged on every history,
// finished or not.
func (m *mon) c17len() {
	qobj := map[string]int{} // queue id -> inner queue object
	content := map[int]int{}
	busy := map[int]int{}
	epoch := map[int]int{}
	type snap struct{ obj, content, busy, epoch int }
	snaps := map[int]snap{} // thread -> state when it entered Len
	isQ := map[int]bool{}
	reported := map[int]bool{}
	for i, ev := range m.s.Log {
		switch ev.Kind {
		case "q:new":
			qobj[ev.Val] = ev.Obj
			isQ[ev.Obj] = true
		case "enter":
			fn := siteFunc(ev.Site)
			if !isQ[ev.Obj] || !(strings.HasPrefix(fn, "Queue.") || strings.HasPrefix(fn, "PriorityQueue.")) {
				m.inQ(ev.Tid, 0, +1)
				continue
			}
			if strings.HasSuffix(fn, ".Len") {
				snaps[ev.Tid] = snap{ev.Obj, content[ev.Obj], busy[ev.Obj], epoch[ev.Obj]}
				m.inQ(ev.Tid, 0, +1)
			} else {
				busy[ev.Obj]++
				epoch[ev.Obj]++
				m.inQ(ev.Tid, ev.Obj, +1)
			}
		case "leave":
			if o := m.inQ(ev.Tid, 0, -1); o != 0 {
				busy[o]--
			}
		case "q:enq":
			f := strings.Fields(ev.Val)
			if len(f) == 2 && f[0] == "1" {
				content[qobj[f[1]]]++
			}
		case "q:deq":
			content[qobj[ev.Val]]--
		case "q:purged":
			content[qobj[ev.Val]]--
		case "q:len":
			f := strings.Fields(ev.Val)
			if len(f) != 2 {
				continue
			}
			o := qobj[f[0]]
			n, _ := strconv.Atoi(f[1])
			sn, ok := snaps[ev.Tid]
			if !ok || sn.obj != o || sn.busy != 0 || sn.epoch != epoch[o] || reported[o] {
				continue
			}
			if n != sn.content {
				reported[o] = true
				m.add("C17", "len-inexact", "q%s.Len() = %d at t=%d with no operation on the queue in progress; it holds %d elements", f[0], n, i, sn.content)
			}
		}
	}
}

// inQ keeps, per thread, its stack of method frames: the queue object for a (non-Len) method of a
// built-in queue, 0 for any other frame; d=+1 pushes, d=-1 pops and returns what was popped.
func (m *mon) inQ(t, obj, d int) int {
	if m.qframes == nil {
		m.qframes = map[int][]int{}
	}
	if d > 0 {
		m.qframes[t] = append(m.qframes[t], obj)
		return obj
	}
	st := m.qframes[t]
	if len(st) == 0 {
		return 0
	}
	o := st[len(st)-1]
	m.qframes[t] = st[:len(st)-1]
	return o
}

func (m *mon) c17() {
	if !m.props["C17"] {
		return
	}
	m.c17len()
	accepted := 0
	for _, s := range m.e.subs {
		if s.accepted {
			accepted++
		}
	}
	maxConc := 0
	for _, c := range m.concAt {
		if c.v > maxConc {
			maxConc = c.v
		}
	}
	for _, sm := range m.e.samples {
		switch sm.what {
		case "w.pending", "q.pending":
			if sm.v < 0 {
				m.add("C17", "negative", "%s read %d at t=%d", sm.what, sm.v, sm.t)
			}
			if sm.v > len(m.e.subs) {
				m.add("C17", "above-accepted", "%s read %d at t=%d with only %d submissions ever made", sm.what, sm.v, sm.t, len(m.e.subs))
			}
		case "w.processing":
			if sm.v < 0 || sm.v > maxConc {
				m.add("C17", "processing-bound", "NumProcessing read %d at t=%d (largest limit ever %d)", sm.v, sm.t, maxConc)
			}
		case "m.submitted":
			if sm.v > len(m.e.subs) && len(m.e.adapters) == 0 {
				m.add("C17", "submitted-bound", "Submitted read %d at t=%d with %d submissions made", sm.v, sm.t, len(m.e.subs))
			}
		}
	}
	if m.clean() && m.e.finalCounts != nil {
		fc := m.e.finalCounts
		pendingTrue := map[int]int{}
		fin := 0
		for _, s := range m.e.subs {
			if s.accepted && len(s.tEnter) == 0 && !m.cancelledBeforeStartOrSkipped(s) {
				pendingTrue[s.q]++
			}
			fin += len(s.tExit)
		}
		sum := 0
		for q, v := range fc.qPending {
			sum += v
			if !m.e.hasCancel && v != pendingTrue[q] {
				m.add("C17", "q-pending-inexact", "at rest q%d.NumPending()=%d, accepted-not-dispatched=%d", q, v, pendingTrue[q])
			}
		}
		if fc.wPending != sum {
			m.add("C17", "w-pending-sum", "at rest worker NumPending=%d but the sum over its queues is %d", fc.wPending, sum)
		}
		if len(m.e.batches) > 0 {
			// AddAll does not say which items were accepted: count what the queues took in
			accepted = 0
			for _, ev := range m.s.Log {
				if ev.Kind == "q:enq" && strings.HasPrefix(ev.Val, "1 ") {
					accepted++
				}
			}
		}
		if len(m.e.adapters) == 0 && fc.submitted != accepted {
			m.add("C17", "submitted-inexact", "at rest Submitted=%d, accepted submissions=%d", fc.submitted, accepted)
		}
		if fc.completed != fc.successful+fc.failed || fc.completed != fin {
			m.add("C17", "completed-inexact", "at rest Completed=%d Successful=%d Failed=%d finished invocations=%d", fc.completed, fc.successful, fc.failed, fin)
		}
		if fc.processing != 0 {
			m.add("C17", "processing-at-rest", "at rest NumProcessing=%d", fc.processing)
		}
	}
}

func (m *mon) cancelledBeforeStartOrSkipped(s *sub) bool { return m.cancelledBeforeStart(s) }

// C18 — pool size, idle trimming, no leak after Stop
func (m *mon) c18() {
	if !m.props["C18"] {
		return
	}
	maxConc := 0
	for _, c := range m.concAt {
		if c.v > maxConc {
			maxConc = c.v
		}
	}
	// pool goroutines the worker keeps, over time: alive and not yet told to stop (a goroutine
	// whose stop payload is already in its channel is retired: it only waits to be scheduled)
	tidNode := map[int]int{}
	for _, ev := range m.s.Log {
		if ev.Kind == "enter" && siteFunc(ev.Site) == "Node.Serve" {
			if _, ok := tidNode[ev.Tid]; !ok {
				tidNode[ev.Tid] = ev.Obj
			}
		}
	}
	live, peak := 0, 0
	isPool := map[int]bool{}
	retired := map[int]bool{}
	curServer := map[int]int{}   // node -> goroutine serving it
	stopAhead := map[int]int{}   // node -> stop payloads sent before its server took its first step
	// a TunePool or stopAndRemoveAllWorkers call in progress holds workers it has taken out of the
	// idle list and is about to stop: they are no longer kept. The count is judged outside such calls.
	retiring := 0
	for _, ev := range m.s.Log {
		if ev.Kind == "enter" || ev.Kind == "leave" {
			if fn := siteFunc(ev.Site); fn == "worker.TunePool" || fn == "worker.stopAndRemoveAllWorkers" {
				if ev.Kind == "enter" {
					retiring++
				} else if retiring > 0 {
					retiring--
				}
			}
		}
		if retiring == 0 && live > peak {
			peak = live
		}
		if ev.Kind == "start" && strings.HasPrefix(siteName(ev.Site), "worker.initPoolNode/") {
			isPool[ev.Tid] = true
			n := tidNode[ev.Tid]
			if n != 0 && stopAhead[n] > 0 {
				stopAhead[n]--
				retired[ev.Tid] = true
				continue
			}
			if n != 0 {
				curServer[n] = ev.Tid
			}
			live++
		}
		if ev.Kind == "send" && siteFunc(ev.Site) == "Node.Stop" {
			n := ev.Owner
			if t, ok := curServer[n]; ok && !retired[t] {
				retired[t] = true
				delete(curServer, n)
				live--
			} else {
				stopAhead[n]++
			}
		}
		if ev.Kind == "exit" && isPool[ev.Tid] && !retired[ev.Tid] {
			retired[ev.Tid] = true
			live--
		}
	}
	if retiring == 0 && live > peak {
		peak = live
	}
	if peak > maxConc+verifPoolSlack {
		m.add("C18", "pool-too-large", "%d pool goroutines alive at once, largest concurrency configured %d", peak, maxConc)
	}
	if m.clean() && m.finalWorkerStatus() == 3 {
		for _, p := range m.s.Parked() {
			if !p.Client && !strings.HasPrefix(siteName(p.Site), "Response.Drain/") {
				m.add("C18", "leak-after-stop", "worker is stopped but goroutine g%d is still alive at %s", p.ID, siteName(p.Site))
			}
		}
	}
	if m.clean() && m.finalWorkerStatus() == 1 && m.e.finalCounts != nil && m.e.finalCounts.idle < 1 {
		m.add("C18", "no-idle-worker", "running worker at rest has %d idle workers", m.e.finalCounts.idle)
	}
}

// verifPoolSlack: pool goroutines tolerated above the largest concurrency configured
var verifPoolSlack = func() int {
	if os.Getenv("VERIF_POOL_SLACK") != "" {
		n, _ := strconv.Atoi(os.Getenv("VERIF_POOL_SLACK"))
		return n
	}
	return 0
}()
