package varmq

// Scenario families: small client programs (goroutines issuing API calls) whose parameters are
// drawn from the episode PRNG. Each family lists the properties whose monitors apply to it.

import (
	"fmt"
	"strconv"
	"time"

	"github.com/goptics/varmq/internal/vt"
)

type finalCounts struct {
	wPending, processing, idle, submitted, completed, successful, failed int
	qPending                                                            []int
}

// fields of env used only by families / monitors (kept here to keep env_test.go focused)
func (e *env) p(name string, v int) int { e.params[name] = v; return v }

// join: wait until n client goroutines have signalled completion
type joiner struct{ done, n int }

func (j *joiner) goClient(name string, f func()) {
	j.n++
	vt.GoClient(name, func() {
		defer func() { j.done++ }()
		f()
	})
}
func (j *joiner) wait() { vt.WaitUntil(func() bool { return j.done >= j.n }) }

func (e *env) openGates() {
	for _, s := range e.subs {
		if s.gate != nil && !s.gate.IsOpen() {
			s.gate.Open()
		}
	}
}

func (e *env) ensureRunning() {
	switch e.w.Status() {
	case "Paused":
		e.lifecycle("Resume", 0)
	case "Stopped":
		e.lifecycle("Restart", 0)
	}
}

func (e *env) takeFinalCounts() {
	fc := &finalCounts{}
	fc.wPending = e.w.NumPending()
	fc.processing = e.w.NumProcessing()
	fc.idle = e.w.NumIdleWorkers()
	m := e.w.Metrics()
	fc.submitted, fc.completed, fc.successful, fc.failed = int(m.Submitted()), int(m.Completed()), int(m.Successful()), int(m.Failed())
	for _, q := range e.qs {
		fc.qPending = append(fc.qPending, q.NumPending())
	}
	e.finalCounts = fc
}

// drain: the standard ending — everything accepted gets processed, then the counts are taken at rest
func (e *env) drain() {
	e.openGates()
	e.ensureRunning()
	e.lifecycle("WaitUntilFinished", 0)
	vt.WaitIdle()
	e.takeFinalCounts()
}

func (e *env) common(r interface{ Intn(int) int }) {
	e.kind = e.p("kind", r.Intn(3))
	e.conc = e.p("conc", 1+r.Intn(4))
	if r.Intn(3) == 0 {
		e.expiry = 1000 * time.Nanosecond
		e.ratio = e.p("ratio", pick(vt.Rand(), 1, 30, 50, 100))
		e.p("expiry", 1)
	}
	if r.Intn(5) == 0 {
		e.ackQ = true
		e.p("ackq", 1)
	}
}

func randOutcome(r interface{ Intn(int) int }) int {
	switch r.Intn(6) {
	case 0:
		return oErr
	case 1:
		return oPanic
	}
	return oOK
}

func init() {
	// burst: concurrent producers on one in-memory queue, then drain
	registerFamily("burst", []string{"C01", "C02", "C03", "C05", "C06", "C07", "C16", "C17", "C18"}, func(e *env) {
		r := vt.Rand()
		e.common(r)
		e.useGen = r.Intn(4) == 0 // single jobs are submitted without an id: the generator names them
		e.mkWorker()
		if r.Intn(2) == 0 {
			e.drainErrs()
		}
		q := e.bind(pick(r, qFifo, qPrio))
		var jn joiner
		np := e.p("producers", 1+r.Intn(4))
		for p := 0; p < np; p++ {
			n := 1 + r.Intn(4)
			jn.goClient("producer", func() {
				for i := 0; i < n; i++ {
					s := e.add(q, r.Intn(3), randOutcome(r), false, fmt.Sprintf("id%d", e.nextData+1))
					if r.Intn(3) == 0 {
						e.statusJob(s)
					}
					if r.Intn(4) == 0 {
						e.sampleCounts()
					}
				}
			})
		}
		if r.Intn(2) == 0 {
			jn.goClient("waiter", func() {
				vt.Yield()
				for _, s := range append([]*sub(nil), e.subs...) {
					if s.accepted && r.Intn(2) == 0 {
						e.waitJob(s)
						e.statusJob(s)
						e.resultJob(s)
					}
				}
			})
		}
		// several callers blocked in Result() / Err() on one handle while the job is still going
		if nr := r.Intn(4); nr >= 2 && e.kind != kPlain {
			e.p("readers", nr)
			for k := 0; k < nr; k++ {
				jn.goClient("reader", func() {
					vt.Yield()
					if len(e.subs) == 0 {
						return
					}
					s := e.subs[0]
					if s.accepted {
						e.resultJob(s)
					}
				})
			}
		}
		jn.wait()
		e.drain()
		for _, s := range e.subs {
			e.statusJob(s)
			if r.Intn(2) == 0 {
				e.resultJob(s)
			}
		}
	})
}


var _ = strconv.Itoa
