package varmq

// Projection of the linear log onto coq/SliceBarrier.v: who is on the hook to wake the callers
// of WaitUntilFinished when a step ends their wait. One block per episode (single worker,
// no distributed queue), replayed by the extracted model.

import (
	"bufio"
	"fmt"
	"sort"
	"strconv"
	"strings"

	"github.com/goptics/varmq/internal/vt"
)

func writeBarrierSlices(w *bufio.Writer, s *vt.Sched, tag string) int {
	workers := map[int]bool{}
	for _, ev := range s.Log {
		if ev.Kind == "ad:subscribe" {
			return 0
		}
		if si := siteTab[ev.Site]; si.Field == "curProcessing" && ev.Owner != 0 {
			workers[ev.Owner] = true
		}
	}
	if len(workers) != 1 {
		return 0
	}
	tags, coveredMarks := sizeTags(s)
	// what the thread goes on to do for the waiters after position idx: e(val) = it calls
	// releaseWaiters, n(otify) = it sends on the signal channel, b(roadcast); "-" = nothing.
	// Looked for among the thread's own events up to its next step that changes the waiters'
	// inputs (or, for closeChannels, up to the end of the enclosing Stop / Restart).
	isInput := func(k int, ev vt.Event) bool {
		si := siteTab[ev.Site]
		if coveredMarks[k] {
			return false // its effect was placed at the length word's change
		}
		if _, ok := tags[k]; ok {
			return true
		}
		switch {
		case si.Field == "status" && strings.HasPrefix(si.Func, "worker.") && ev.Kind == "store":
			return true
		case si.Field == "curProcessing" && ev.Kind == "add":
			return true
		case ev.Kind == "q:enq" || ev.Kind == "q:deq" || ev.Kind == "q:purge" || ev.Kind == "ad:enq" || ev.Kind == "ad:deq" || ev.Kind == "ad:purge":
			return true
		}
		return false
	}
	goesOn := func(idx, t int, wholeCall bool) string {
		depth := 0
		for k := idx + 1; k < len(s.Log); k++ {
			ev := s.Log[k]
			if ev.Tid != t {
				continue
			}
			si := siteTab[ev.Site]
			if wholeCall {
				if ev.Kind == "enter" {
					depth++
				}
				if ev.Kind == "leave" {
					depth--
					if depth < -1 { // left closeChannels and then the Stop / Restart that called it
						return "-"
					}
				}
			} else if isInput(k, ev) && !(si.Field == "status" && ev.Kind == "store") {
				// (a second status store by the same call — Restart: initiated, then running — does
				// not end the search: the notify of start() comes after both)
				return "-"
			}
			switch {
			case ev.Kind == "enter" && si.Func == "worker.releaseWaiters":
				return "e"
			case ev.Kind == "trysend" && si.Field == "eventLoopSignal":
				return "n"
			case ev.Kind == "broadcast" && strings.HasPrefix(si.Func, "worker."):
				return "b"
			}
		}
		return "-"
	}
	type line struct {
		idx  int
		text string
	}
	var lines []line
	add := func(idx int, text string) { lines = append(lines, line{idx, text}) }
	st, cur, ln := 0, 0, 0
	closedChans := map[int]bool{}
	bcastIn := map[int]bool{} // thread -> broadcast seen inside its current releaseWaiters frame
	rwDepth := map[int]int{}
	input := func(idx, t int) {
		add(idx, fmt.Sprintf("binput %d %d %d %d %s", t, st, cur, ln, goesOn(idx, t, false)))
	}
	for idx, ev0 := range s.Log {
		ev := ev0
		if tg, ok := tags[idx]; ok {
			ev = vt.Event{Tid: ev0.Tid, Kind: tg.kind, Obj: tg.job, Val: tg.val}
		} else if coveredMarks[idx] {
			continue
		}
		si := siteTab[ev.Site]
		fn := si.Func
		t := ev.Tid
		if t < 0 {
			continue
		}
		switch {
		case ev.Kind == "enter" && fn == "worker.releaseWaiters":
			rwDepth[t]++
			bcastIn[t] = false
		case ev.Kind == "leave" && fn == "worker.releaseWaiters":
			rwDepth[t]--
			if !bcastIn[t] {
				add(idx, fmt.Sprintf("brwnob %d", t))
			}
		case ev.Kind == "broadcast" && strings.HasPrefix(fn, "worker."):
			bcastIn[t] = true
			add(idx, fmt.Sprintf("bbcast %d", t))
		case ev.Kind == "q:enq" && strings.HasPrefix(ev.Val, "1"), ev.Kind == "ad:enq" && ev.Val == "1", ev.Kind == "ad:inject":
			ln++
			input(idx, t)
		case ev.Kind == "q:deq", ev.Kind == "ad:deq" && strings.HasPrefix(ev.Val, "1"):
			ln--
			input(idx, t)
		case ev.Kind == "q:purge":
			f := strings.Fields(ev.Val)
			n, _ := strconv.Atoi(f[1])
			ln -= n
			input(idx, t)
		case ev.Kind == "ad:purge":
			n, _ := strconv.Atoi(ev.Val)
			ln -= n
			input(idx, t)
		case si.Field == "curProcessing" && ev.Kind == "add":
			cur, _ = strconv.Atoi(ev.Val)
			input(idx, t)
		case si.Field == "status" && strings.HasPrefix(fn, "worker.") && ev.Kind == "store":
			st, _ = strconv.Atoi(ev.Val)
			input(idx, t)
		case ev.Kind == "trysend" && si.Field == "eventLoopSignal":
			add(idx, fmt.Sprintf("bnotify %d", t))
		case ev.Kind == "recv" && strings.HasPrefix(siteName(ev.Site), "worker.goEventLoop/") && strings.HasPrefix(ev.Val, "1"):
			if closedChans[ev.Obj] {
				continue
			}
			add(idx, fmt.Sprintf("brecv %d", t))
		case ev.Kind == "close" && si.Field == "eventLoopSignal":
			closedChans[ev.Obj] = true
			add(idx, fmt.Sprintf("bclose %d %s", t, goesOn(idx, t, true)))
		case ev.Kind == "lock" && fn == "worker.Restart" && si.Field == "mx":
			add(idx, "bopen")
		}
		if ln < 0 {
			ln = 0
		}
	}
	sort.SliceStable(lines, func(a, b int) bool { return lines[a].idx < lines[b].idx })
	fmt.Fprintf(w, "BARRIER %s\n", tag)
	for _, l := range lines {
		w.WriteString("bw " + l.text + "\n")
	}
	rest := "0"
	if !s.Hang && !s.Livelock && len(s.Panics) == 0 {
		rest = "1"
	}
	fmt.Fprintf(w, "ENDBARRIER %s\n", rest)
	return 1
}
