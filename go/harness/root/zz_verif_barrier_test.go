package varmq

// Projection of the linear log onto coq/SliceBarrier.v: who is on the hook to wake the callers
// of WaitUntilFinished when a step ends their wait. One block per episode (single worker,
// no distributed queue), replayed by the extracted model.

import (
	"bufio"
	"fmt"
	"sort"
	"strconv"
	"strings"

	"github.com/goptics/varmq/internal/vt"
)

func writeBarrierSlices(w *bufio.Writer, s *vt.Sched, tag string) int {
	workers := map[int]bool{}
	for _, ev := range s.Log {
		if ev.Kind == "ad:subscribe" {
			return 0
		}
		if si := siteTab[ev.Site]; si.Field == "curProcessing" && ev.Owner != 0 {
			workers[ev.Owner] = true
		}
	}
	if len(workers) != 1 {
		return 0
	}
	tags, coveredMarks := sizeTags(s)
	// what the thread goes on to do for the waiters after position idx: e(val) = it calls
	// releaseWaiters, n(otify) = it sends on the signal channel, b(roadcast); "-" = nothing.
	// Looked for among the thread's own events up to its next step that changes the waiters'
	// inputs (or, for closeChannels, up to the end of the enclosing Stop / Restart).
	isInput := func(k int, ev vt.Event) bool {
		ev = normStatus(ev)
		si := siteTab[ev.Site]
		if coveredMarks[k] {
			return false // its effect was placed at the length word's change
		}
		if _, ok := tags[k]; ok {
			return true
		}
		switch {
		case si.Field == "status" && strings.HasPrefix(si.Func, "worker.") && ev.Kind == "store":
			return true
		case si.Field == "curProcessing" && ev.Kind == "add":
			return true
		case ev.Kind == "q:enq" || ev.Kind == "q:deq" || ev.Kind == "q:purge" || ev.Kind == "ad:enq" || ev.Kind == "ad:deq" || ev.Kind == "ad:purge":
			return true
		}
		return false
	}
	goesOn := func(idx, t int, wholeCall bool) string {
		depth := 0
		for k := idx + 1; k < len(s.Log); k++ {
			ev := normStatus(s.Log[k])
			if ev.Tid != t {
				continue
			}
			si := siteTab[ev.Site]
			if wholeCall {
				if ev.Kind == "enter" {
					depth++
				}
				if ev.Kind == "leave" {
					depth--
					if depth < -1 { // left closeChannels and then the Stop / Restart that called it
						return "-"
					}
				}
			} else if isInput(k, ev) && !(si.Field == "status" && ev.Kind == "store") {
				// (a second status store by the same call — Restart: initiated, then running — does
				// not end the search: the notify of start() comes after both)
				return "-"
			}
			switch {
			case ev.Kind == "enter" && si.Func == "worker.releaseWaiters":
				return "e"
			case ev.Kind == "trysend" && si.Field == "eventLoopSignal":
				return "n"
			case ev.Kind == "broadcast" && strings.HasPrefix(si.Func, "worker."):
				return "b"
			}
		}
		return "-"
	}
	type line struct {
		idx  int
		text string
	}
	var lines []line
	add := func(idx int, text string) { lines = append(lines, line{idx, text}) }
	st, cur, ln := 0, 0, 0
	closedChans := map[int]bool{}
	bcastIn := map[int]bool{} // thread -> broadcast seen inside its current releaseWaiters frame
	rwDepth := map[int]int{}
	input := func(idx, t int) {
		add(idx, fmt.Sprintf("binput %d %d %d %d %s", t, st, cur, ln, goesOn(idx, t, false)))
	}
	for idx, ev0 := range s.Log {
		ev := normStatus(ev0)
		if tg, ok := tags[idx]; ok {
			ev = vt.Event{Tid: ev0.Tid, Kind: tg.kind, Obj: tg.job, Val: tg.val}
		} else if coveredMarks[idx] {
			continue
		}
		si := siteTab[ev.Site]
		fn := si.Func
		t := ev.Tid
		if t < 0 {
			continue
		}
		switch {
		case ev.Kind == "enter" && fn == "worker.releaseWaiters":
			rwDepth[t]++
			bcastIn[t] = false
		case ev.Kind == "leave" && fn == "worker.releaseWaiters":
			rwDepth[t]--
			if !bcastIn[t] {
				add(idx, fmt.Sprintf("brwnob %d", t))
			}
		case ev.Kind == "broadcast" && strings.HasPrefix(fn, "worker."):
			bcastIn[t] = true
			add(idx, fmt.Sprintf("bbcast %d", t))
		case ev.Kind == "q:enq" && strings.HasPrefix(ev.Val, "1"), ev.Kind == "ad:enq" && ev.Val == "1", ev.Kind == "ad:inject":
			ln++
			input(idx, t)
		case ev.Kind == "q:deq", ev.Kind == "ad:deq" && strings.HasPrefix(ev.Val, "1"):
			ln--
			input(idx, t)
		case ev.Kind == "q:purge":
			f := strings.Fields(ev.Val)
			n, _ := strconv.Atoi(f[1])
			ln -= n
			input(idx, t)
		case ev.Kind == "ad:purge":
			n, _ := strconv.Atoi(ev.Val)
			ln -= n
			input(idx, t)
		case si.Field == "curProcessing" && ev.Kind == "add":
			cur, _ = strconv.Atoi(ev.Val)
			input(idx, t)
		case si.Field == "status" && strings.HasPrefix(fn, "worker.") && ev.Kind == "store":
			st, _ = strconv.Atoi(ev.Val)
			input(idx, t)
		case ev.Kind == "trysend" && si.Field == "eventLoopSignal":
			add(idx, fmt.Sprintf("bnotify %d", t))
		case ev.Kind == "recv" && strings.HasPrefix(siteName(ev.Site), "worker.goEventLoop/") && strings.HasPrefix(ev.Val, "1"):
			if closedChans[ev.Obj] {
				continue
			}
			add(idx, fmt.Sprintf("brecv %d", t))
		case ev.Kind == "close" && si.Field == "eventLoopSignal":
			closedChans[ev.Obj] = true
			add(idx, fmt.Sprintf("bclose %d %s", t, goesOn(idx, t, true)))
		case ev.Kind == "lock" && fn == "worker.Restart" && si.Field == "mx":
			add(idx, "bopen")
		}
		if ln < 0 {
			ln = 0
		}
	}
	sort.SliceStable(lines, func(a, b int) bool { return lines[a].idx < lines[b].idx })
	fmt.Fprintf(w, "BARRIER %s\n", tag)
	for _, l := range lines {
		w.WriteString("bw " + l.text + "\n")
	}
	rest := "0"
	if !s.Hang && !s.Livelock && len(s.Panics) == 0 {
		rest = "1"
	}
	fmt.Fprintf(w, "ENDBARRIER %s\n", rest)
	return 1
}

// writeWakeSlicesShared: the wake-up protocol (coq/SliceWake.v) of every consumer of ONE shared
// adapter (family dist, recover with a distributed queue): one block per worker. The adapter's
// pending count is each consumer's "pending"; an item accepted by the adapter is a foreign
// enqueue for every consumer already subscribed, with the adapter owing it one notification (the
// notifier goroutine's send on that consumer's signal channel); a consumer that binds later sees
// the count as content of the store being bound (its start() notifies); a dequeue by one
// consumer lowers the count of the others.
func writeWakeSlicesShared(w *bufio.Writer, s *vt.Sched, tag string) int {
	adapter := 0
	for _, ev := range s.Log {
		switch {
		case ev.Kind == "q:new":
			return 0 // in-memory queues next to the adapter: not handled here
		case strings.HasPrefix(ev.Kind, "ad:") && ev.Obj != 0:
			if adapter != 0 && adapter != ev.Obj {
				return 0
			}
			adapter = ev.Obj
		}
	}
	if adapter == 0 {
		return 0
	}
	type wk struct {
		conc0   string
		lines   []struct {
			idx  int
			text string
		}
		cands []struct {
			idx, tid int
			line     string
		}
		notifies []struct{ idx, tid int }
		cur      int
		subbed   bool
		closed   map[int]bool
	}
	wks := map[int]*wk{}
	var order []int
	get := func(o int) *wk {
		if o == 0 {
			return nil
		}
		if x, ok := wks[o]; ok {
			return x
		}
		x := &wk{closed: map[int]bool{}}
		wks[o] = x
		order = append(order, o)
		return x
	}
	add := func(x *wk, idx int, text string) {
		x.lines = append(x.lines, struct {
			idx  int
			text string
		}{idx, text})
	}
	cand := func(x *wk, idx, tid int, line string) {
		x.cands = append(x.cands, struct {
			idx, tid int
			line     string
		}{idx, tid, line})
	}
	// pass 1: when each worker starts counting the adapter (Manager.Register) and when it
	// subscribes, from the binding thread's Register / Subscribe / start() triple (any order)
	type bindRec struct{ reg, sub, w int }
	regAt := map[int]int{} // worker -> log index of its Register
	subAt := map[int]int{} // worker -> log index of its Subscribe
	{
		curB := map[int]*bindRec{}
		for idx, ev := range s.Log {
			t := ev.Tid
			fn := siteTab[ev.Site].Func
			b := curB[t]
			if b == nil {
				b = &bindRec{-1, -1, 0}
				curB[t] = b
			}
			switch {
			case ev.Kind == "lock" && fn == "Manager.Register":
				b.reg = idx
			case ev.Kind == "ad:subscribe":
				b.sub = idx
			case ev.Kind == "enter" && fn == "worker.start":
				b.w = ev.Obj
			default:
				continue
			}
			if b.reg >= 0 && b.sub >= 0 && b.w != 0 {
				regAt[b.w], subAt[b.w] = b.reg, b.sub
				curB[t] = nil
			}
		}
	}
	loopOf := map[int]int{}     // event-loop thread -> its worker
	isLoop := map[int]bool{}
	stale := map[int]bool{}
	pend := 0
	frameW := map[int]int{} // thread -> worker of its innermost worker.* frame (last seen)
	for idx, ev := range s.Log {
		ev = normStatus(ev)
		si := siteTab[ev.Site]
		fn := si.Func
		t := ev.Tid
		if t < 0 {
			continue
		}
		if ev.Kind == "enter" && strings.HasPrefix(fn, "worker.") {
			frameW[t] = ev.Obj
			if isLoop[t] && loopOf[t] == 0 {
				loopOf[t] = ev.Obj
			}
			continue
		}
		if ev.Kind == "start" && strings.HasPrefix(siteName(ev.Site), "worker.goEventLoop/") {
			isLoop[t] = true
			continue
		}
		actorFor := func(o int) string {
			if isLoop[t] && loopOf[t] == o && !stale[t] {
				return "loop"
			}
			return "other"
		}
		// a worker counts the adapter's content from its Register on
		for o, r := range regAt {
			if r == idx {
				x := get(o)
				x.subbed = true
				if pend > 0 {
					cand(x, idx, t, fmt.Sprintf("kforeign %d %%s", pend))
				}
			}
		}
		switch {
		case ev.Kind == "ad:enq" && ev.Val == "1", ev.Kind == "ad:inject":
			pend++
			for _, o := range order {
				if x := wks[o]; x.subbed {
					if ev.Kind == "ad:enq" && idx > subAt[o] {
						add(x, idx, "kforeign 1 1") // the adapter owes this consumer a notification
					} else {
						// counted but not announced to this consumer (it has not subscribed yet), or
						// placed by a foreign producer: whoever placed it must notify, or the
						// consumer's start() must still be to come
						cand(x, idx, t, "kforeign 1 %s")
					}
				}
			}
		case ev.Kind == "ad:deq" && strings.HasPrefix(ev.Val, "1"):
			pend--
			mine := loopOf[t]
			if mine == 0 {
				mine = frameW[t]
			}
			for _, o := range order {
				x := wks[o]
				if !x.subbed {
					continue
				}
				if o == mine {
					cand(x, idx, t, "kpend "+actorFor(o)+" 0 1 %s")
				} else {
					add(x, idx, "kpend other 0 1 0")
				}
			}
		case ev.Kind == "ad:purge":
			n, _ := strconv.Atoi(ev.Val)
			pend -= n
			for _, o := range order {
				if x := wks[o]; x.subbed && n > 0 {
					add(x, idx, fmt.Sprintf("kpend other 0 %d 0", n))
				}
			}
		case si.Field == "curProcessing" && ev.Kind == "add":
			x := get(ev.Owner)
			if x == nil {
				continue
			}
			v, _ := strconv.Atoi(ev.Val)
			up := "0"
			if v == x.cur+1 {
				up = "1"
			}
			x.cur = v
			cand(x, idx, t, "kcur "+actorFor(ev.Owner)+" "+up+" %s")
		case si.Field == "status" && strings.HasPrefix(fn, "worker.") && ev.Kind == "store":
			if x := get(ev.Owner); x != nil {
				cand(x, idx, t, "kstatus "+ev.Val+" %s")
			}
		case si.Field == "concurrency" && (ev.Kind == "store" || ev.Kind == "swap"):
			x := get(ev.Owner)
			if x == nil {
				continue
			}
			ev.Val = strings.Fields(ev.Val)[0] // a swap logs "new old"
			if x.conc0 == "" {
				x.conc0 = ev.Val
				continue
			}
			cand(x, idx, t, "kconc "+ev.Val+" %s")
		case ev.Kind == "trysend" && si.Field == "eventLoopSignal":
			if x := get(ev.Owner); x != nil {
				x.notifies = append(x.notifies, struct{ idx, tid int }{idx, t})
				add(x, idx, "knotify")
			}
		case ev.Kind == "recv" && strings.HasPrefix(siteName(ev.Site), "worker.goEventLoop/") && strings.HasPrefix(ev.Val, "1"):
			o := loopOf[t]
			if o == 0 {
				// the loop has not entered a method of its worker yet: find the worker by the channel
				for _, oo := range order {
					for _, nt := range wks[oo].notifies {
						if s.Log[nt.idx].Obj == ev.Obj {
							o = oo
						}
					}
				}
				loopOf[t] = o
			}
			if x := get(o); x != nil && !x.closed[ev.Obj] {
				add(x, idx, "kpark")
				add(x, idx, "krecv")
			}
		case ev.Kind == "close" && si.Field == "eventLoopSignal":
			if x := get(ev.Owner); x != nil {
				x.closed[ev.Obj] = true
				for lt, o := range loopOf {
					if o == ev.Owner {
						stale[lt] = true
					}
				}
				add(x, idx, "kclose")
			}
		case ev.Kind == "lock" && fn == "worker.Restart" && si.Field == "mx":
			if x := get(ev.Owner); x != nil {
				add(x, idx, "kopen")
			}
		}
	}
	k := 0
	for _, o := range order {
		x := wks[o]
		if x.conc0 == "" {
			continue
		}
		for i, c := range x.cands {
			next := len(s.Log)
			for _, d := range x.cands[i+1:] {
				if d.tid == c.tid {
					next = d.idx
					break
				}
			}
			n := "0"
			for _, nt := range x.notifies {
				if nt.tid == c.tid && nt.idx > c.idx && nt.idx < next {
					n = "1"
					break
				}
			}
			add(x, c.idx, fmt.Sprintf(c.line, n))
		}
		sort.SliceStable(x.lines, func(a, b int) bool { return x.lines[a].idx < x.lines[b].idx })
		fmt.Fprintf(w, "WAKE %s#o%d %s\n", tag, o, x.conc0)
		for _, l := range x.lines {
			w.WriteString("k " + l.text + "\n")
		}
		rest := "0"
		if !s.Hang && !s.Livelock && len(s.Panics) == 0 {
			rest = "1"
		}
		fmt.Fprintf(w, "ENDWAKE %s\n", rest)
		k++
	}
	return k
}
