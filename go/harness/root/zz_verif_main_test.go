package varmq

// Episode runner for the controlled-scheduler harness.
//   VERIF_OUT      result file (JSON lines, one per episode)
//   VERIF_SEED     base seed
//   VERIF_FAMILIES comma-separated scenario families (default: all)
//   VERIF_EPISODES episodes per family
//   VERIF_SITES    sites.json written by the rewriter (site id -> name)
//   VERIF_TRACEDIR when set, the linear event log of every episode is written there
//   VERIF_SLICES   when set, the per-object slice traces of every episode are appended to this file
//   VERIF_REPLAY   "family:seed:strategy" — run exactly one episode and dump its log

import (
	"bufio"
	"encoding/json"
	"fmt"
	"os"
	"runtime"
	"strconv"
	"strings"
	"sync/atomic"
	"testing"
	"time"

	"github.com/goptics/varmq/internal/vt"
)

type siteInfo struct {
	ID    int    `json:"id"`
	Name  string `json:"name"`
	Func  string `json:"func"`
	Expr  string `json:"expr"`
	Kind  string `json:"kind"`
	Field string `json:"field"`
}

var siteTab = map[int]siteInfo{}

func siteName(id int) string {
	if s, ok := siteTab[id]; ok {
		return s.Name
	}
	return "site" + strconv.Itoa(id)
}

type violation struct {
	Prop   string `json:"prop"`
	Kind   string `json:"kind"`
	Detail string `json:"detail"`
}

type episodeResult struct {
	Family     string         `json:"family"`
	Seed       int64          `json:"seed"`
	Strategy   string         `json:"strategy"`
	Params     map[string]int `json:"params"`
	Events     int            `json:"events"`
	Goroutines int            `json:"goroutines"`
	Hang       bool           `json:"hang"`
	Livelock   bool           `json:"livelock"`
	Panics     []string       `json:"panics,omitempty"`
	Parked     []string       `json:"parked,omitempty"`
	Violations []violation    `json:"violations,omitempty"`
	Notes      []string       `json:"notes,omitempty"`
	Jobs       int            `json:"jobs"`
	Executed   int            `json:"executed"`
	Sites      int            `json:"sites_hit"`
	SchedHash  string         `json:"sched_hash"`
	SliceBlocks int           `json:"slice_blocks"`
}

type family struct {
	name string
	run  func(e *env)
	// which properties' monitors are evaluated on this family's episodes
	props []string
}

var families []family

func registerFamily(name string, props []string, run func(e *env)) {
	families = append(families, family{name, run, append(props, "C19")}) // data races are every scenario's subject
}

func runEpisode(f family, seed int64, strategy string) (*episodeResult, *vt.Sched, *env) {
	e := &env{byData: map[int]*sub{}, params: map[string]int{}, family: f.name}
	e.wfStatus = os.Getenv("VERIF_PROP") == "C16" // an extra scheduling point per job: only where it is judged
	recEnqCount = 0
	// the items of a batch have no handle of their own: whether each was accepted is what its
	// queue answered
	// what a Purge removed is what the queue handed to it, item by item (not "whatever never ran")
	notePurged = func(data int) {
		if s := e.byData[data]; s != nil && s.purgedAt < 0 {
			s.purgedAt = now()
		}
	}
	noteEnq = func(data int, ok bool) {
		if s := e.byData[data]; s != nil && s.batch != nil {
			s.accepted, s.rejected = ok, !ok
		}
	}
	cfg := vt.Config{Seed: seed, Strategy: strategy, PCTDepth: 1 + int(seed%3), TickProb: 25, PoolMissProb: 7}
	s := vt.Run(cfg, func() { f.run(e) })
	res := &episodeResult{Family: f.name, Seed: seed, Strategy: strategy, Params: e.params, Events: len(s.Log),
		Goroutines: s.NumGoroutines(), Hang: s.Hang, Livelock: s.Livelock, Panics: s.Panics, Notes: e.notes, Jobs: len(e.subs)}
	for _, p := range s.Parked() {
		res.Parked = append(res.Parked, fmt.Sprintf("g%d(%s)@%s[%s]", p.ID, p.Name, siteName(p.Site), p.Kind))
	}
	hit := map[int]bool{}
	h := uint64(1469598103934665603)
	for _, ev := range s.Log {
		hit[ev.Site] = true
		h = (h ^ uint64(ev.Tid+2)) * 1099511628211
		h = (h ^ uint64(ev.Site)) * 1099511628211
	}
	res.Sites = len(hit)
	res.SchedHash = strconv.FormatUint(h, 16)
	for _, sb := range e.subs {
		if len(sb.tEnter) > 0 {
			res.Executed++
		}
	}
	res.Violations = runMonitors(f, e, s)
	return res, s, e
}

func dumpLog(path string, s *vt.Sched) {
	f, err := os.Create(path)
	if err != nil {
		return
	}
	defer f.Close()
	w := bufio.NewWriter(f)
	defer w.Flush()
	for i, ev := range s.Log {
		fmt.Fprintf(w, "%d t%d %s %s o%d w%d %s\n", i, ev.Tid, ev.Kind, siteName(ev.Site), ev.Obj, ev.Owner, ev.Val)
	}
}

// watchdog: library code that loops without reaching a synchronisation operation (e.g. a
// corrupted linked list) cannot be preempted by the controlled scheduler; a real-time watchdog
// turns it into a recorded crash of that episode, and the driver resumes after it.
var (
	wdEpisode atomic.Value // string "family seed strategy index"
	wdStart   atomic.Int64
	wdOut     *bufio.Writer
	wdTrace   string
)

func startWatchdog() {
	go func() {
		var ms runtime.MemStats
		for {
			time.Sleep(40 * time.Millisecond)
			ep, _ := wdEpisode.Load().(string)
			if ep == "" {
				continue
			}
			runtime.ReadMemStats(&ms)
			age := time.Since(time.Unix(0, wdStart.Load()))
			if ms.HeapAlloc > 1200<<20 || age > 20*time.Second {
				reason := "runaway-memory"
				if age > 20*time.Second {
					reason = "runaway-time"
				}
				if s := vt.S; s != nil && wdTrace != "" {
					f := strings.Fields(ep)
					dumpLog(fmt.Sprintf("%s/crash-%s-%s-%s.log", wdTrace, f[0], f[1], f[2]), s)
				}
				fmt.Fprintf(os.Stderr, "#CRASH %s %s heap=%dMB age=%s\n", ep, reason, ms.HeapAlloc>>20, age)
				os.Exit(3)
			}
		}
	}()
}

func TestVerifCtl(t *testing.T) {
	out := os.Getenv("VERIF_OUT")
	if out == "" {
		t.Skip("VERIF_OUT not set")
	}
	if p := os.Getenv("VERIF_SITES"); p != "" {
		var list []siteInfo
		if b, err := os.ReadFile(p); err == nil && json.Unmarshal(b, &list) == nil {
			for _, s := range list {
				siteTab[s.ID] = s
			}
		}
	}
	seed0, _ := strconv.ParseInt(os.Getenv("VERIF_SEED"), 10, 64)
	episodes, _ := strconv.Atoi(os.Getenv("VERIF_EPISODES"))
	if episodes == 0 {
		episodes = 50
	}
	want := map[string]bool{}
	for _, n := range strings.Split(os.Getenv("VERIF_FAMILIES"), ",") {
		if n != "" {
			want[n] = true
		}
	}
	tracedir := os.Getenv("VERIF_TRACEDIR")
	wdTrace = tracedir
	var sw *bufio.Writer
	if p := os.Getenv("VERIF_SLICES"); p != "" {
		if sf, err := os.OpenFile(p, os.O_CREATE|os.O_WRONLY|os.O_APPEND, 0o644); err == nil {
			defer sf.Close()
			sw = bufio.NewWriterSize(sf, 1<<20)
			defer sw.Flush()
		}
	}
	skip, _ := strconv.Atoi(os.Getenv("VERIF_SKIP"))
	startWatchdog()
	fo, err := os.OpenFile(out, os.O_CREATE|os.O_WRONLY|os.O_APPEND, 0o644)
	if err != nil {
		t.Fatal(err)
	}
	defer fo.Close()
	w := bufio.NewWriter(fo)
	defer w.Flush()
	enc := json.NewEncoder(w)

	if rp := os.Getenv("VERIF_REPLAY"); rp != "" {
		parts := strings.Split(rp, ":")
		sd, _ := strconv.ParseInt(parts[1], 10, 64)
		for _, f := range families {
			if f.name == parts[0] {
				wdStart.Store(time.Now().UnixNano())
				wdEpisode.Store(fmt.Sprintf("%s %d %s 0", f.name, sd, parts[2]))
				res, s, _ := runEpisode(f, sd, parts[2])
				wdEpisode.Store("")
				if sw != nil {
					res.SliceBlocks = writeSlices(sw, s, fmt.Sprintf("%s:%d:%s", f.name, sd, parts[2]))
				}
				enc.Encode(res)
				if tracedir != "" {
					dumpLog(fmt.Sprintf("%s/%s-%d-%s.log", tracedir, f.name, sd, parts[2]), s)
				}
			}
		}
		return
	}
	idx := 0
	for _, f := range families {
		if len(want) > 0 && !want[f.name] {
			continue
		}
		for i := 0; i < episodes; i++ {
			idx++
			if idx <= skip {
				continue
			}
			seed := seed0*1000003 + int64(i)
			strategy := "random"
			if i%3 == 2 {
				strategy = "pct"
			}
			wdStart.Store(time.Now().UnixNano())
			wdEpisode.Store(fmt.Sprintf("%s %d %s %d", f.name, seed, strategy, idx))
			res, s, _ := runEpisode(f, seed, strategy)
			wdEpisode.Store("")
			if sw != nil && len(s.Panics) == 0 {
				res.SliceBlocks = writeSlices(sw, s, fmt.Sprintf("%s:%d:%s", f.name, seed, strategy))
				sw.Flush() // a later episode may end in a watchdog exit: its predecessors' blocks must not be lost with the buffer
			}
			enc.Encode(res)
			w.Flush()
			if tracedir != "" && (len(res.Violations) > 0 || i < 2) {
				dumpLog(fmt.Sprintf("%s/%s-%d-%s.log", tracedir, f.name, seed, strategy), s)
			}
		}
	}
}

// writeSlices: VERIF_SLICE_KINDS (comma separated: job,batch,life,disp; default all) selects the projections
func writeSlices(sw *bufio.Writer, s *vt.Sched, tag string) int {
	kinds := os.Getenv("VERIF_SLICE_KINDS")
	want := func(k string) bool {
		// apimix overlaps control calls (Stop with Resume with Restart ...): outside the environment
		// assumptions of the dispatcher / wake-up / lifecycle slices; judged for races only
		if (strings.HasPrefix(tag, "apimix:") || strings.HasPrefix(tag, "ctlrace:")) && k != "hb" && k != "lock" && !(k == "barrier" && strings.HasPrefix(tag, "ctlrace:")) {
			return false
		}
		return kinds == "" || strings.Contains(","+kinds+",", ","+k+",")
	}
	n := 0
	if want("job") {
		n += writeJobSlices(sw, s, tag)
	}
	if want("batch") {
		n += writeBatchSlices(sw, s, tag)
	}
	if want("life") {
		n += writeLifeSlices(sw, s, tag)
	}
	if want("disp") {
		n += writeDispSlices(sw, s, tag)
	}
	if want("wake") {
		n += writeWakeSlices(sw, s, tag)
	}
	if want("resp") {
		n += writeRespSlices(sw, s, tag)
	}
	if want("pool") {
		n += writePoolSlices(sw, s, tag)
	}
	if want("barrier") {
		n += writeBarrierSlices(sw, s, tag)
	}
	if want("hb") {
		n += writeHBSlices(sw, s, tag)
	}
	if want("lock") {
		n += writeLockSlices(sw, s, tag)
	}
	return n
}
