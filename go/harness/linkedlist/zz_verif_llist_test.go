package linkedlist

// Differential-test writer for the Coq model LList.v (injected into internal/linkedlist by
// `go test -overlay`; never written into /repo). It drives List[int] the way the worker uses its
// idle pool — PushNode of nodes that are not in the list, PopBack, PopFront, Remove of members
// and of nodes that are not members (popped, removed, never inserted), Len, NodeSlice — and
// records every observable result, one record per line; ocaml/validate (v_manager.ml, LL*
// records) replays them on the extracted model.
//
// A plain-Go reference (a slice of ids) writes
//   #VIOLATION llist.<kind> episode=<n> op=<n> <detail>
// kinds: llist.remove (true exactly for a member), llist.pop (the last / first member),
//        llist.len, llist.slice.

import (
	"bufio"
	"fmt"
	"math/rand"
	"os"
	"strconv"
	"testing"
)

func TestVerifLListDiff(t *testing.T) {
	out := os.Getenv("VERIF_OUT")
	if out == "" {
		t.Skip("VERIF_OUT not set")
	}
	seed, _ := strconv.ParseInt(os.Getenv("VERIF_SEED"), 10, 64)
	episodes, _ := strconv.Atoi(os.Getenv("VERIF_EPISODES"))
	if episodes == 0 {
		episodes = 200
	}
	f, err := os.Create(out)
	if err != nil {
		t.Fatal(err)
	}
	defer f.Close()
	w := bufio.NewWriter(f)
	defer w.Flush()
	rng := rand.New(rand.NewSource(seed))
	stats := map[string]int{}
	viols := 0
	for ep := 0; ep < episodes; ep++ {
		fmt.Fprintf(w, "LLNEW %d\n", ep)
		l := New[int]()
		var nodes []*Node[int] // every node ever made in this episode; id = index
		var ref []int          // reference: ids in the list, front first
		in := func(id int) int {
			for i, x := range ref {
				if x == id {
					return i
				}
			}
			return -1
		}
		viol := func(op int, kind, format string, a ...any) {
			viols++
			if viols <= 20 {
				fmt.Fprintf(w, "#VIOLATION llist.%s episode=%d op=%d %s\n", kind, ep, op, fmt.Sprintf(format, a...))
			}
		}
		nops := 20 + rng.Intn(120)
		for op := 0; op < nops; op++ {
			switch k := rng.Intn(100); {
			case k < 30: // push a fresh node, or one that is out of the list
				id := -1
				if len(nodes) > 0 && rng.Intn(2) == 0 {
					c := rng.Intn(len(nodes))
					if in(c) < 0 {
						id = c
					}
				}
				if id < 0 {
					nodes = append(nodes, NewNode(len(nodes)))
					id = len(nodes) - 1
				}
				l.PushNode(nodes[id])
				ref = append(ref, id)
				fmt.Fprintf(w, "LL+ %d\n", id)
				stats["push"]++
			case k < 45:
				n := l.PopBack()
				got := "-"
				if n != nil {
					got = strconv.Itoa(n.Value)
				}
				want := "-"
				if len(ref) > 0 {
					want = strconv.Itoa(ref[len(ref)-1])
					ref = ref[:len(ref)-1]
				}
				if got != want {
					viol(op, "pop", "PopBack returned %s, the last node is %s", got, want)
				}
				fmt.Fprintf(w, "LLPB %s\n", got)
				stats["popback"]++
			case k < 55:
				n := l.PopFront()
				got := "-"
				if n != nil {
					got = strconv.Itoa(n.Value)
				}
				want := "-"
				if len(ref) > 0 {
					want = strconv.Itoa(ref[0])
					ref = ref[1:]
				}
				if got != want {
					viol(op, "pop", "PopFront returned %s, the first node is %s", got, want)
				}
				fmt.Fprintf(w, "LLPF %s\n", got)
				stats["popfront"]++
			case k < 85: // Remove: a member, or (as often) a node that has left the list
				if len(nodes) == 0 {
					continue
				}
				id := rng.Intn(len(nodes))
				if len(ref) > 0 && rng.Intn(2) == 0 {
					id = ref[rng.Intn(len(ref))]
				}
				ok := l.Remove(nodes[id])
				i := in(id)
				if ok != (i >= 0) {
					viol(op, "remove", "Remove(node %d) answered %v, member=%v", id, ok, i >= 0)
				}
				if i >= 0 {
					ref = append(ref[:i:i], ref[i+1:]...)
					stats["remove.member"]++
				} else {
					stats["remove.absent"]++
				}
				b := 0
				if ok {
					b = 1
				}
				fmt.Fprintf(w, "LLR %d %d\n", id, b)
			case k < 93:
				n := l.Len()
				if n != len(ref) {
					viol(op, "len", "Len()=%d, %d nodes are in the list", n, len(ref))
				}
				fmt.Fprintf(w, "LLLEN %d\n", n)
				stats["len"]++
			default:
				ns := l.NodeSlice()
				fmt.Fprintf(w, "LLS")
				same := len(ns) == len(ref)
				for i, n := range ns {
					fmt.Fprintf(w, " %d", n.Value)
					if same && ref[i] != n.Value {
						same = false
					}
				}
				fmt.Fprintf(w, "\n")
				if !same {
					viol(op, "slice", "NodeSlice has %d nodes, the list %v", len(ns), ref)
				}
				stats["slice"]++
			}
		}
	}
	fmt.Fprintf(w, "#STATS")
	for k, v := range stats {
		fmt.Fprintf(w, " %s=%d", k, v)
	}
	fmt.Fprintf(w, " episodes=%d\n", episodes)
}
