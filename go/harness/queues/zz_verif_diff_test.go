package queues

// Differential-test writer for the Coq models Fifo.v and Heap.v (injected into
// internal/queues by `go test -overlay`; never written into /repo).
// It drives Queue[int] and PriorityQueue[int] with generated operation sequences and records
// every observable result, one record per line; ocaml/validate replays the records on the
// extracted model.

import (
	"bufio"
	"fmt"
	"math"
	"math/rand"
	"os"
	"strconv"
	"testing"
)

type vrec struct {
	w     *bufio.Writer
	stats map[string]int
	ep    int
	viols int
}

// viol records a failure of a model-independent oracle (a plain Go reference queue): this is a
// concrete failing input for C04/C17, independent of the Coq model.
func (r *vrec) viol(kind string, op int, format string, a ...any) {
	r.viols++
	if r.viols <= 20 {
		fmt.Fprintf(r.w, "#VIOLATION %s episode=%d op=%d %s\n", kind, r.ep, op, fmt.Sprintf(format, a...))
	}
}

type refItem struct{ prio, seq, val int }

func (r *vrec) p(format string, a ...any) { fmt.Fprintf(r.w, format+"\n", a...) }

func b2i(b bool) int {
	if b {
		return 1
	}
	return 0
}

func envInt(name string, def int) int {
	if v, err := strconv.Atoi(os.Getenv(name)); err == nil {
		return v
	}
	return def
}

func chunkCaps(q *Queue[int]) []int {
	var caps []int
	for c := q.readChunk; c != nil; c = c.Next {
		caps = append(caps, c.Cap())
	}
	return caps
}

func recFifoObs(r *vrec, q *Queue[int], rng *rand.Rand, force bool) {
	if force || rng.Intn(4) == 0 {
		r.p("L %d", q.Len())
	}
	if force || rng.Intn(16) == 0 {
		vs := q.Values()
		r.w.WriteString("V " + strconv.Itoa(len(vs)))
		for _, v := range vs {
			r.w.WriteString(" " + strconv.Itoa(v.(int)))
		}
		r.w.WriteString("\n")
	}
	if force || rng.Intn(8) == 0 {
		cs := chunkCaps(q)
		r.w.WriteString("S " + strconv.Itoa(len(cs)))
		for _, c := range cs {
			r.w.WriteString(" " + strconv.Itoa(c))
		}
		r.w.WriteString("\n")
	}
}

// one FIFO episode: phases biased towards growth / drain / mixed, optional purge, close
func fifoEpisode(r *vrec, rng *rand.Rand, initCap, maxCap, nops int) {
	initialBufferCapacity, chunkMaxCapacity = initCap, maxCap
	q := NewQueue[int]()
	r.p("FIFO %d %d", initCap, maxCap)
	next := 1
	bias := 60
	var ref []int
	closed := false
	for i := 0; i < nops; i++ {
		if i%97 == 0 {
			bias = []int{85, 60, 50, 30, 10}[rng.Intn(5)]
		}
		k := rng.Intn(1000)
		switch {
		case k < 3:
			// purge with a (possibly different) current initial capacity
			if rng.Intn(2) == 0 {
				initialBufferCapacity = 1 + rng.Intn(8)
			}
			if rng.Intn(2) == 0 {
				vs := q.PurgeValues()
				r.w.WriteString("PV " + strconv.Itoa(initialBufferCapacity) + " " + strconv.Itoa(len(vs)))
				for k, v := range vs {
					r.w.WriteString(" " + strconv.Itoa(v.(int)))
					if k >= len(ref) || ref[k] != v.(int) {
						r.viol("fifo.purge-values", i, "PurgeValues returned %v, pending were %v", vs, ref)
					}
				}
				if len(vs) != len(ref) {
					r.viol("fifo.purge-values", i, "PurgeValues returned %d values, %d were pending", len(vs), len(ref))
				}
				r.w.WriteString("\n")
				r.stats["fifo.purgevalues"]++
			} else {
				q.Purge()
				r.p("P %d", initialBufferCapacity)
			}
			ref = nil
			r.stats["fifo.purge"]++
		case k < 4 && i > nops/2:
			q.Close()
			closed = true
			r.p("C")
			r.stats["fifo.close"]++
		case k%100 < bias:
			ok := q.Enqueue(next)
			r.p("E %d %d", next, b2i(ok))
			if ok == closed {
				r.viol("fifo.enqueue-result", i, "enqueue(%d)=%v closed=%v", next, ok, closed)
			}
			if ok {
				ref = append(ref, next)
			}
			next++
			r.stats["fifo.enq"]++
			if !ok {
				r.stats["fifo.enq_rejected"]++
			}
		default:
			v, ok := q.Dequeue()
			if ok {
				r.p("D 1 %d", v.(int))
				r.stats["fifo.deq"]++
				if len(ref) == 0 || ref[0] != v.(int) {
					r.viol("fifo.order", i, "dequeued %d, oldest pending is %v", v.(int), ref)
				}
				if len(ref) > 0 {
					ref = ref[1:]
				}
			} else {
				r.p("D 0")
				r.stats["fifo.deq_empty"]++
				if len(ref) != 0 {
					r.viol("fifo.lost", i, "dequeue failed with %d pending", len(ref))
				}
			}
		}
		if l := q.Len(); l != len(ref) {
			r.viol("fifo.len", i, "Len()=%d, pending=%d", l, len(ref))
		}
		recFifoObs(r, q, rng, false)
	}
	recFifoObs(r, q, rng, true)
	if n := len(chunkCaps(q)); n > r.stats["fifo.max_chunks"] {
		r.stats["fifo.max_chunks"] = n
	}
}

var extremePrios = []int{0, 1, -1, 2, -2, math.MaxInt64, math.MinInt64, math.MaxInt64 - 1, math.MinInt64 + 1, 1 << 31, -(1 << 31), 1 << 32}

func heapEpisode(r *vrec, rng *rand.Rand, nops int) {
	q := NewPriorityQueue[int]()
	if rng.Intn(3) == 0 {
		// a queue that has been in service for a long time: its insertion counter is about to pass
		// 2^31 (white box; the order of ties depends on the counter's order only, so the model,
		// which counts from 0, must still agree)
		q.insertionCount = math.MaxInt32 - rng.Intn(40)
		r.stats["heap.aged"]++
	}
	r.p("HEAP")
	next := 1
	bias := 60
	var ref []refItem
	seq := 0
	closed := false
	refPop := func(i int, v int, ok bool) {
		if !ok {
			if len(ref) != 0 {
				r.viol("heap.lost", i, "dequeue failed with %d pending", len(ref))
			}
			return
		}
		best := -1
		for k, it := range ref {
			if best < 0 || it.prio < ref[best].prio || (it.prio == ref[best].prio && it.seq < ref[best].seq) {
				best = k
			}
		}
		if best < 0 || ref[best].val != v {
			r.viol("heap.order", i, "dequeued %d, expected %v of %v", v, func() any {
				if best < 0 {
					return nil
				}
				return ref[best]
			}(), ref)
		}
		for k, it := range ref {
			if it.val == v {
				ref = append(ref[:k:k], ref[k+1:]...)
				break
			}
		}
	}
	prange := []int{1, 2, 3, 5, 1000}[rng.Intn(5)] // few distinct priorities => many ties
	obs := func(force bool) {
		if force || rng.Intn(4) == 0 {
			r.p("HL %d", q.Len())
		}
		if force || rng.Intn(6) == 0 {
			vs := q.Values()
			r.w.WriteString("HV " + strconv.Itoa(len(vs)))
			for _, v := range vs {
				r.w.WriteString(" " + strconv.Itoa(v.(int)))
			}
			r.w.WriteString("\n")
		}
	}
	for i := 0; i < nops; i++ {
		if i%61 == 0 {
			bias = []int{90, 60, 50, 30, 10}[rng.Intn(5)]
		}
		k := rng.Intn(1000)
		switch {
		case k < 4:
			if rng.Intn(2) == 0 {
				vs := q.PurgeValues()
				r.w.WriteString("HPV " + strconv.Itoa(len(vs)))
				for _, v := range vs {
					r.w.WriteString(" " + strconv.Itoa(v.(int)))
				}
				r.w.WriteString("\n")
				if len(vs) != len(ref) {
					r.viol("heap.purge-values", i, "PurgeValues returned %d values, %d were pending", len(vs), len(ref))
				}
			} else {
				q.Purge()
				r.p("HP")
			}
			ref = nil
			r.stats["heap.purge"]++
		case k < 5 && i > nops/2:
			q.Close()
			closed = true
			r.p("HC")
			r.stats["heap.close"]++
		case k%100 < bias:
			var p int
			switch rng.Intn(10) {
			case 0:
				p = extremePrios[rng.Intn(len(extremePrios))]
				r.stats["heap.extreme_prio"]++
			case 1:
				p = -rng.Intn(prange + 1)
			default:
				p = rng.Intn(prange)
			}
			ok := q.Enqueue(next, p)
			r.p("H+ %d %d %d", p, next, b2i(ok))
			if ok == closed {
				r.viol("heap.enqueue-result", i, "enqueue=%v closed=%v", ok, closed)
			}
			if ok {
				ref = append(ref, refItem{p, seq, next})
				seq++
			}
			next++
			r.stats["heap.push"]++
		default:
			v, ok := q.Dequeue()
			if ok {
				r.p("H- 1 %d", v.(int))
				r.stats["heap.pop"]++
				refPop(i, v.(int), true)
			} else {
				r.p("H- 0")
				r.stats["heap.pop_empty"]++
				refPop(i, 0, false)
			}
		}
		if l := q.Len(); l != len(ref) {
			r.viol("heap.len", i, "Len()=%d, pending=%d", l, len(ref))
		}
		obs(false)
	}
	// drain completely: the full pop order is compared
	for {
		v, ok := q.Dequeue()
		if !ok {
			r.p("H- 0")
			refPop(nops, 0, false)
			break
		}
		r.p("H- 1 %d", v.(int))
		r.stats["heap.pop"]++
		refPop(nops, v.(int), true)
	}
	obs(true)
}

func TestVerifDiff(t *testing.T) {
	out := os.Getenv("VERIF_OUT")
	if out == "" {
		t.Skip("VERIF_OUT not set")
	}
	seed := int64(envInt("VERIF_SEED", 1))
	episodes := envInt("VERIF_EPISODES", 40)
	bigOps := envInt("VERIF_BIGOPS", 6000)
	f, err := os.Create(out)
	if err != nil {
		t.Fatal(err)
	}
	defer f.Close()
	r := &vrec{w: bufio.NewWriterSize(f, 1<<20), stats: map[string]int{}}
	defer r.w.Flush()
	rng := rand.New(rand.NewSource(seed))
	saveInit, saveMax := initialBufferCapacity, chunkMaxCapacity
	r.p("#PARAM initialBufferCapacity %d", saveInit)
	r.p("#PARAM chunkMaxCapacity %d", saveMax)
	defer func() { initialBufferCapacity, chunkMaxCapacity = saveInit, saveMax }()
	for e := 0; e < episodes; e++ {
		ic := 1 + rng.Intn(6)
		mc := ic + rng.Intn(12)
		if rng.Intn(5) == 0 {
			mc = 1 + rng.Intn(ic) // max below initial: growth clamps immediately
		}
		r.ep = 2 * e
		fifoEpisode(r, rng, ic, mc, 200+rng.Intn(600))
		r.ep = 2*e + 1
		heapEpisode(r, rng, 100+rng.Intn(500))
		r.stats["episodes"]++
	}
	// the real capacities: crosses 1024, 1536, 2304 ... segments
	r.ep = 2 * episodes
	fifoEpisode(r, rng, saveInit, saveMax, bigOps)
	r.stats["episodes"]++
	r.stats["oracle_violations"] = r.viols
	r.w.WriteString("#STATS")
	for k, v := range r.stats {
		fmt.Fprintf(r.w, " %s=%d", k, v)
	}
	r.w.WriteString("\n")
}
