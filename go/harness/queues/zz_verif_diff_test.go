package queues

// Differential-test writer for the Coq models Fifo.v and Heap.v (injected into
// internal/queues by `go test -overlay`; never written into /repo).
// It drives Queue[int] and PriorityQueue[int] with generated operation sequences and records
// every observable result, one record per line; ocaml/validate replays the records on the
// extracted model.

import (
	"bufio"
	"fmt"
	"math"
	"math/rand"
	"os"
	"strconv"
	"testing"
)

type vrec struct {
	w     *bufio.Writer
	stats map[string]int
}

func (r *vrec) p(format string, a ...any) { fmt.Fprintf(r.w, format+"\n", a...) }

func b2i(b bool) int {
	if b {
		return 1
	}
	return 0
}

func envInt(name string, def int) int {
	if v, err := strconv.Atoi(os.Getenv(name)); err == nil {
		return v
	}
	return def
}

func chunkCaps(q *Queue[int]) []int {
	var caps []int
	for c := q.readChunk; c != nil; c = c.Next {
		caps = append(caps, c.Cap())
	}
	return caps
}

func recFifoObs(r *vrec, q *Queue[int], rng *rand.Rand, force bool) {
	if force || rng.Intn(4) == 0 {
		r.p("L %d", q.Len())
	}
	if force || rng.Intn(16) == 0 {
		vs := q.Values()
		r.w.WriteString("V " + strconv.Itoa(len(vs)))
		for _, v := range vs {
			r.w.WriteString(" " + strconv.Itoa(v.(int)))
		}
		r.w.WriteString("\n")
	}
	if force || rng.Intn(8) == 0 {
		cs := chunkCaps(q)
		r.w.WriteString("S " + strconv.Itoa(len(cs)))
		for _, c := range cs {
			r.w.WriteString(" " + strconv.Itoa(c))
		}
		r.w.WriteString("\n")
	}
}

// one FIFO episode: phases biased towards growth / drain / mixed, optional purge, close
func fifoEpisode(r *vrec, rng *rand.Rand, initCap, maxCap, nops int) {
	initialBufferCapacity, chunkMaxCapacity = initCap, maxCap
	q := NewQueue[int]()
	r.p("FIFO %d %d", initCap, maxCap)
	next := 1
	bias := 60
	for i := 0; i < nops; i++ {
		if i%97 == 0 {
			bias = []int{85, 60, 50, 30, 10}[rng.Intn(5)]
		}
		k := rng.Intn(1000)
		switch {
		case k < 3:
			// purge with a (possibly different) current initial capacity
			if rng.Intn(2) == 0 {
				initialBufferCapacity = 1 + rng.Intn(8)
			}
			q.Purge()
			r.p("P %d", initialBufferCapacity)
			r.stats["fifo.purge"]++
		case k < 4 && i > nops/2:
			q.Close()
			r.p("C")
			r.stats["fifo.close"]++
		case k%100 < bias:
			ok := q.Enqueue(next)
			r.p("E %d %d", next, b2i(ok))
			next++
			r.stats["fifo.enq"]++
			if !ok {
				r.stats["fifo.enq_rejected"]++
			}
		default:
			v, ok := q.Dequeue()
			if ok {
				r.p("D 1 %d", v.(int))
				r.stats["fifo.deq"]++
			} else {
				r.p("D 0")
				r.stats["fifo.deq_empty"]++
			}
		}
		recFifoObs(r, q, rng, false)
	}
	recFifoObs(r, q, rng, true)
	if n := len(chunkCaps(q)); n > r.stats["fifo.max_chunks"] {
		r.stats["fifo.max_chunks"] = n
	}
}

var extremePrios = []int{0, 1, -1, 2, -2, math.MaxInt64, math.MinInt64, math.MaxInt64 - 1, math.MinInt64 + 1, 1 << 31, -(1 << 31), 1 << 32}

func heapEpisode(r *vrec, rng *rand.Rand, nops int) {
	q := NewPriorityQueue[int]()
	r.p("HEAP")
	next := 1
	bias := 60
	prange := []int{1, 2, 3, 5, 1000}[rng.Intn(5)] // few distinct priorities => many ties
	obs := func(force bool) {
		if force || rng.Intn(4) == 0 {
			r.p("HL %d", q.Len())
		}
		if force || rng.Intn(6) == 0 {
			vs := q.Values()
			r.w.WriteString("HV " + strconv.Itoa(len(vs)))
			for _, v := range vs {
				r.w.WriteString(" " + strconv.Itoa(v.(int)))
			}
			r.w.WriteString("\n")
		}
	}
	for i := 0; i < nops; i++ {
		if i%61 == 0 {
			bias = []int{90, 60, 50, 30, 10}[rng.Intn(5)]
		}
		k := rng.Intn(1000)
		switch {
		case k < 4:
			q.Purge()
			r.p("HP")
			r.stats["heap.purge"]++
		case k < 5 && i > nops/2:
			q.Close()
			r.p("HC")
			r.stats["heap.close"]++
		case k%100 < bias:
			var p int
			switch rng.Intn(10) {
			case 0:
				p = extremePrios[rng.Intn(len(extremePrios))]
				r.stats["heap.extreme_prio"]++
			case 1:
				p = -rng.Intn(prange + 1)
			default:
				p = rng.Intn(prange)
			}
			ok := q.Enqueue(next, p)
			r.p("H+ %d %d %d", p, next, b2i(ok))
			next++
			r.stats["heap.push"]++
		default:
			v, ok := q.Dequeue()
			if ok {
				r.p("H- 1 %d", v.(int))
				r.stats["heap.pop"]++
			} else {
				r.p("H- 0")
				r.stats["heap.pop_empty"]++
			}
		}
		obs(false)
	}
	// drain completely: the full pop order is compared
	for {
		v, ok := q.Dequeue()
		if !ok {
			r.p("H- 0")
			break
		}
		r.p("H- 1 %d", v.(int))
		r.stats["heap.pop"]++
	}
	obs(true)
}

func TestVerifDiff(t *testing.T) {
	out := os.Getenv("VERIF_OUT")
	if out == "" {
		t.Skip("VERIF_OUT not set")
	}
	seed := int64(envInt("VERIF_SEED", 1))
	episodes := envInt("VERIF_EPISODES", 40)
	bigOps := envInt("VERIF_BIGOPS", 6000)
	f, err := os.Create(out)
	if err != nil {
		t.Fatal(err)
	}
	defer f.Close()
	r := &vrec{w: bufio.NewWriterSize(f, 1<<20), stats: map[string]int{}}
	defer r.w.Flush()
	rng := rand.New(rand.NewSource(seed))
	saveInit, saveMax := initialBufferCapacity, chunkMaxCapacity
	defer func() { initialBufferCapacity, chunkMaxCapacity = saveInit, saveMax }()
	for e := 0; e < episodes; e++ {
		ic := 1 + rng.Intn(6)
		mc := ic + rng.Intn(12)
		if rng.Intn(5) == 0 {
			mc = 1 + rng.Intn(ic) // max below initial: growth clamps immediately
		}
		fifoEpisode(r, rng, ic, mc, 200+rng.Intn(600))
		heapEpisode(r, rng, 100+rng.Intn(500))
		r.stats["episodes"]++
	}
	// the real capacities: crosses 1024, 1536, 2304 ... segments
	fifoEpisode(r, rng, saveInit, saveMax, bigOps)
	r.stats["episodes"]++
	r.w.WriteString("#STATS")
	for k, v := range r.stats {
		fmt.Fprintf(r.w, " %s=%d", k, v)
	}
	r.w.WriteString("\n")
}
